// Driver for C04 (ORDER BY / LIMIT / OFFSET): runs (1) the sorter, top-N heap, top-1 scan and limit/offset
// iterators of /repo directly on generated rows and (2) engine queries with generated key lists over an
// unindexed and an indexed copy of the same data; records the observations for the Coq model and evaluates
// the property predicate ("the output is rows m+1..m+n of SOME ordering of the full result consistent with the
// keys") with an independent comparator and a rank-counting check.
package main

import (
	"bytes"
	"fmt"
	"io"
	"regexp"
	"sort"
	"strings"

	"github.com/dolthub/go-mysql-server/sql"
	"github.com/dolthub/go-mysql-server/sql/expression"
	"github.com/dolthub/go-mysql-server/sql/iters"
	"github.com/dolthub/go-mysql-server/sql/rowexec"
	"github.com/dolthub/go-mysql-server/sql/sorters"
	"github.com/dolthub/go-mysql-server/sql/types"
	"github.com/dolthub/vitess/go/sqltypes"

	"verifharness/lib"
	"verifharness/lib/eng"
)

// ---------- data ----------

// V is one value: nil (NULL), int64 or string.
type V struct {
	Null bool    `json:"null,omitempty"`
	I    *int64  `json:"i,omitempty"`
	S    *string `json:"s,omitempty"`
}

func vi(x int64) V  { return V{I: &x} }
func vs(x string) V { return V{S: &x} }
func vnull() V      { return V{Null: true} }
func (v V) String() string {
	switch {
	case v.I != nil:
		return fmt.Sprintf("%d", *v.I)
	case v.S != nil:
		return fmt.Sprintf("%q", *v.S)
	}
	return "NULL"
}
func (v V) Coq() string {
	switch {
	case v.I != nil:
		return "VInt " + lib.CoqZ(*v.I)
	case v.S != nil:
		return "VStr " + lib.CoqStr(*v.S)
	}
	return "VNull"
}
func (v V) SQL() string {
	switch {
	case v.I != nil:
		return fmt.Sprintf("%d", *v.I)
	case v.S != nil:
		return "'" + *v.S + "'"
	}
	return "NULL"
}
func (v V) Go() interface{} {
	switch {
	case v.I != nil:
		return *v.I
	case v.S != nil:
		return *v.S
	}
	return nil
}

type Row []V

func (r Row) Key() string {
	p := make([]string, len(r))
	for i, v := range r {
		p[i] = v.String()
	}
	return strings.Join(p, ",")
}
func coqRow(r Row) string     { return lib.CoqListOf([]V(r), func(v V) string { return v.Coq() }) }
func coqRows(rs []Row) string { return lib.CoqListOf(rs, coqRow) }

// key types
const (
	KInt = "KInt"
	KBin = "KBin"
	KCi  = "KCi"
)

type Key struct {
	Col       int    `json:"col"`
	Ty        string `json:"ty"`
	Desc      bool   `json:"desc"`
	NullsLast bool   `json:"nulls_last,omitempty"`
	Expr      string `json:"expr,omitempty"` // SQL text used in ORDER BY (engine cases)
}

func (k Key) Coq() string {
	return fmt.Sprintf("SKey %d %s %s %s", k.Col, k.Ty, lib.CoqBool(k.Desc), lib.CoqBool(k.NullsLast))
}
func coqKeys(ks []Key) string { return lib.CoqListOf(ks, func(k Key) string { return k.Coq() }) }
func keyShape(ks []Key) string {
	var sb strings.Builder
	for _, k := range ks {
		sb.WriteString(strings.ToLower(k.Ty[1:]))
		if k.Desc {
			sb.WriteByte('-')
		} else {
			sb.WriteByte('+')
		}
	}
	return sb.String()
}

// ---------- independent reference comparator (does not use /repo) ----------

func refCmpVal(ty string, a, b V) int {
	switch ty {
	case KInt:
		switch {
		case *a.I < *b.I:
			return -1
		case *a.I > *b.I:
			return 1
		}
		return 0
	case KCi:
		return bytes.Compare([]byte(strings.ToLower(*a.S)), []byte(strings.ToLower(*b.S)))
	default:
		return bytes.Compare([]byte(*a.S), []byte(*b.S))
	}
}

// refCmp: per key; NULL is the smallest value (largest when NullsLast); DESC reverses the key's order.
func refCmp(ks []Key, a, b Row) int {
	for _, k := range ks {
		x, y := a[k.Col], b[k.Col]
		var c int
		switch {
		case x.Null && y.Null:
			c = 0
		case x.Null:
			c = -1
			if k.NullsLast {
				c = 1
			}
		case y.Null:
			c = 1
			if k.NullsLast {
				c = -1
			}
		default:
			c = refCmpVal(k.Ty, x, y)
		}
		if k.Desc {
			c = -c
		}
		if c != 0 {
			return c
		}
	}
	return 0
}

// validSlice: out is rows m+1..m+n of some ordering of bag consistent with ks. Returns "" or the reason.
// (a) out is a sub-multiset of bag, (b) it has the length of the window, (c) the row at absolute position p is one
// that can stand at p: #{x < row} <= p < #{x <= row}.  (c) for all positions implies out is ordered.
func validSlice(ks []Key, bag []Row, m, n int, out []Row) string {
	want := len(bag) - m
	if want < 0 {
		want = 0
	}
	if n < want {
		want = n
	}
	if len(out) != want {
		return "wrong-length"
	}
	cnt := map[string]int{}
	for _, r := range bag {
		cnt[r.Key()]++
	}
	for _, r := range out {
		cnt[r.Key()]--
		if cnt[r.Key()] < 0 {
			return "not-submultiset"
		}
	}
	for i := 0; i+1 < len(out); i++ {
		if refCmp(ks, out[i], out[i+1]) > 0 {
			return "not-sorted"
		}
	}
	for i, r := range out {
		lt, le := 0, 0
		for _, x := range bag {
			c := refCmp(ks, x, r)
			if c < 0 {
				lt++
			}
			if c <= 0 {
				le++
			}
		}
		p := m + i
		if !(lt <= p && p < le) {
			return "wrong-rank"
		}
	}
	return ""
}

// ---------- generators ----------

var strAlpha = []string{"a", "b", "A", "B", "c", "0", "1"}

func genInt(r *lib.RNG) V {
	switch r.Intn(12) {
	case 0, 1:
		return vnull()
	case 2:
		return vi(int64(r.Range(-3, 9)))
	case 3:
		return vi(lib.Pick(r, []int64{-1000000007, 4000000000, -2, 100}))
	default:
		return vi(int64(r.Range(0, 3))) // heavy ties
	}
}
func genStr(r *lib.RNG) V {
	if r.Chance(1, 7) {
		return vnull()
	}
	n := r.Range(0, 2)
	if r.Chance(1, 8) {
		n = 3
	}
	var sb strings.Builder
	for i := 0; i < n; i++ {
		sb.WriteString(lib.Pick(r, strAlpha))
	}
	return vs(sb.String())
}

// base rows: id, a, b, s, c
func genRows(r *lib.RNG) []Row {
	n := r.Range(0, 12)
	if r.Chance(1, 10) {
		n = r.Range(13, 24)
	}
	ids := make([]int64, n)
	for i := range ids {
		ids[i] = int64(i + 1)
	}
	for i := n - 1; i > 0; i-- {
		j := r.Intn(i + 1)
		ids[i], ids[j] = ids[j], ids[i]
	}
	rows := make([]Row, n)
	for i := range rows {
		rows[i] = Row{vi(ids[i]), genInt(r), genInt(r), genStr(r), genStr(r)}
	}
	return rows
}

// large dataset: more than 1024 rows, so that TopN bounds above initHeapSize (1024) are reached
func genLargeRows(r *lib.RNG) []Row {
	n := r.Range(1040, 1150)
	rows := make([]Row, n)
	for i := range rows {
		a := vi(int64(r.Range(0, 40)))
		if r.Chance(1, 15) {
			a = vnull()
		}
		rows[i] = Row{vi(int64(i + 1)), a, vi(int64(r.Range(0, 5))), vs(lib.Pick(r, strAlpha)), vs(lib.Pick(r, strAlpha))}
	}
	return rows
}

func pickBound(r *lib.RNG, n int) int {
	c := []int{0, 1, 2, n - 1, n, n + 1, n / 2, n + 5}
	v := lib.Pick(r, c)
	if v < 0 {
		v = 0
	}
	return v
}

// ---------- direct cases ----------

type directCase struct {
	Kind string `json:"kind"`
	Keys []Key  `json:"keys"`
	Rows []Row  `json:"rows"`
	N    int    `json:"n"`
	M    int    `json:"m"`
}

var colTy = []string{KInt, KInt, KInt, KBin, KCi}

func sqlType(ty string) sql.Type {
	switch ty {
	case KInt:
		return types.Int64
	case KBin:
		return types.MustCreateString(sqltypes.VarChar, 20, sql.Collation_utf8mb4_0900_bin)
	default:
		return types.MustCreateString(sqltypes.VarChar, 20, sql.Collation_utf8mb4_0900_ai_ci)
	}
}

func genDirect(r *lib.RNG) directCase {
	rows := genRows(r)
	nk := r.Range(1, 3)
	var ks []Key
	for i := 0; i < nk; i++ {
		col := r.Range(1, 4)
		if r.Chance(1, 8) {
			col = 0
		}
		ks = append(ks, Key{Col: col, Ty: colTy[col], Desc: r.Bool(), NullsLast: r.Chance(1, 4)})
	}
	return directCase{Kind: "direct", Keys: ks, Rows: rows, N: pickBound(r, len(rows)), M: pickBound(r, len(rows))}
}

func toSQLRows(rows []Row) []sql.Row {
	out := make([]sql.Row, len(rows))
	for i, r := range rows {
		sr := make(sql.Row, len(r))
		for j, v := range r {
			sr[j] = v.Go()
		}
		out[i] = sr
	}
	return out
}

func fromSQLRow(sr sql.Row) Row {
	out := make(Row, len(sr))
	for j, v := range sr {
		switch x := v.(type) {
		case nil:
			out[j] = vnull()
		case int64:
			out[j] = vi(x)
		case int:
			out[j] = vi(int64(x))
		case int32:
			out[j] = vi(int64(x))
		case uint64:
			out[j] = vi(int64(x))
		case string:
			out[j] = vs(x)
		case []byte:
			out[j] = vs(string(x))
		default:
			panic(fmt.Sprintf("driver: unexpected value type %T (%v)", v, v))
		}
	}
	return out
}
func fromSQLRows(rs []sql.Row) []Row {
	out := make([]Row, len(rs))
	for i, r := range rs {
		out[i] = fromSQLRow(r)
	}
	return out
}

func drainIter(ctx *sql.Context, it sql.RowIter) ([]sql.Row, error) {
	var out []sql.Row
	for {
		r, err := it.Next(ctx)
		if err == io.EOF {
			return out, nil
		}
		if err != nil {
			return out, err
		}
		out = append(out, r)
	}
}

func sameRows(a, b []Row) bool {
	if len(a) != len(b) {
		return false
	}
	for i := range a {
		if a[i].Key() != b[i].Key() {
			return false
		}
	}
	return true
}

func runDirect(c *lib.Ctx, dc directCase) {
	ctx := sql.NewEmptyContext()
	var sc sql.SortConditions
	for _, k := range dc.Keys {
		f := sql.SortCondition{Expr: expression.NewGetField(k.Col, sqlType(k.Ty), fmt.Sprintf("c%d", k.Col), true)}
		if k.Desc {
			f.Order = sql.Descending
		} else {
			f.Order = sql.Ascending
		}
		if k.NullsLast {
			f.NullOrdering = sql.NullsLast
		} else {
			f.NullOrdering = sql.NullsFirst
		}
		sc = append(sc, f)
	}
	var oSort, oTopn, oTop1, oLo []Row
	var errs []string
	p, pv := lib.Recover(func() {
		rows := toSQLRows(dc.Rows)
		sorter := sorters.NewRowSorterWithRows(ctx, sc, rows)
		sort.Stable(sorter)
		if err := sorter.GetError(); err != nil {
			errs = append(errs, "sort: "+err.Error())
		}
		oSort = fromSQLRows(rows)
		top, _, err := sorters.GetTopNRows(ctx, sql.RowsToRowIter(toSQLRows(dc.Rows)...), sc, int64(dc.N))
		if err != nil {
			errs = append(errs, "topn: "+err.Error())
		}
		oTopn = fromSQLRows(top)
		t1, err := drainIter(ctx, iters.NewTopRowIter(sc, false, sql.RowsToRowIter(toSQLRows(dc.Rows)...)))
		if err != nil {
			errs = append(errs, "top1: "+err.Error())
		}
		oTop1 = fromSQLRows(t1)
		lo, err := drainIter(ctx, &iters.LimitIter{Limit: int64(dc.N),
			ChildIter: rowexec.VerifC04NewOffsetIter(sql.RowsToRowIter(toSQLRows(dc.Rows)...), int64(dc.M))})
		if err != nil {
			errs = append(errs, "limit/offset: "+err.Error())
		}
		oLo = fromSQLRows(lo)
	})
	shape := keyShape(dc.Keys)
	if p || len(errs) > 0 {
		id := c.CaseNoModel(dc, "")
		c.PredChecked()
		c.PredFail(id, "direct/error/"+shape, fmt.Sprintf("sorter/heap/iterators failed: panic=%v %s errs=%v", p, pv, errs), dc)
		return
	}
	ties := 0
	for i := 0; i+1 < len(oSort); i++ {
		if refCmp(dc.Keys, oSort[i], oSort[i+1]) == 0 {
			ties++
		}
	}
	c.Count("direct")
	if ties > 0 {
		c.Count("direct_with_ties")
	}
	key := ""
	if len(dc.Rows) >= 2 {
		key = fmt.Sprintf("d|%v|%v|%d|%d", dc.Keys, dc.Rows, dc.N, dc.M)
	}
	term := fmt.Sprintf("CDirect %s %s %d %d %s %s %s %s", coqKeys(dc.Keys), coqRows(dc.Rows), dc.N, dc.M,
		coqRows(oSort), coqRows(oTopn), coqRows(oTop1), coqRows(oLo))
	id := c.Case(term, dc, key)

	c.PredChecked()
	if why := validSlice(dc.Keys, dc.Rows, 0, len(dc.Rows), oSort); why != "" {
		c.PredFail(id, "direct-sort/"+why+"/"+shape, fmt.Sprintf("sort.Stable(RowSorter) output %v is not an ordering of %v under %v", oSort, dc.Rows, dc.Keys), dc)
	}
	if why := validSlice(dc.Keys, dc.Rows, 0, dc.N, oTopn); why != "" {
		c.PredFail(id, "direct-topn/"+why+"/"+shape, fmt.Sprintf("GetTopNRows(n=%d) = %v is not the first %d rows of an ordering of %v under %v", dc.N, oTopn, dc.N, dc.Rows, dc.Keys), dc)
	}
	if why := validSlice(dc.Keys, dc.Rows, 0, 1, oTop1); why != "" {
		c.PredFail(id, "direct-top1/"+why+"/"+shape, fmt.Sprintf("topRowIter = %v is not a first row of %v under %v", oTop1, dc.Rows, dc.Keys), dc)
	}
	lo, hi := dc.M, dc.M+dc.N
	if lo > len(dc.Rows) {
		lo = len(dc.Rows)
	}
	if hi > len(dc.Rows) {
		hi = len(dc.Rows)
	}
	if !sameRows(oLo, dc.Rows[lo:hi]) {
		c.PredFail(id, "direct-limit-offset/wrong-window", fmt.Sprintf("LimitIter{%d}(offsetIter{%d}) over %d rows returned %v", dc.N, dc.M, len(dc.Rows), oLo), dc)
	}
}

// ---------- engine cases ----------

type engineCase struct {
	Kind    string `json:"kind"`
	Rows    []Row  `json:"rows"`  // base table rows (id,a,b,s,c) in insertion order
	Table   string `json:"table"` // t (no index) or ti (primary key + secondary indexes)
	Where   string `json:"where,omitempty"`
	Keys    []Key  `json:"keys"`
	Limit   int    `json:"limit"`              // -1: none
	Offset  int    `json:"offset"`             // -1: none
	NoModel bool   `json:"no_model,omitempty"` // large inputs: predicate only (keeps the Coq shard small)
	Query   string `json:"query,omitempty"`
	Plan    string `json:"plan,omitempty"`
}

// projected columns: 0 id, 1 a, 2 b, 3 s, 4 c, 5 e1 = a+b, 6 e2 = -a
const selectList = "id, a, b, s, c, a+b AS e1, -a AS e2"

var engKeyChoices = []Key{
	{Col: 0, Ty: KInt, Expr: "id"}, {Col: 1, Ty: KInt, Expr: "a"}, {Col: 2, Ty: KInt, Expr: "b"},
	{Col: 3, Ty: KBin, Expr: "s"}, {Col: 4, Ty: KCi, Expr: "c"},
	{Col: 5, Ty: KInt, Expr: "a+b"}, {Col: 5, Ty: KInt, Expr: "e1"}, {Col: 6, Ty: KInt, Expr: "-a"}, {Col: 6, Ty: KInt, Expr: "e2"},
	{Col: 1, Ty: KInt, Expr: "a"}, {Col: 2, Ty: KInt, Expr: "b"}, {Col: 3, Ty: KBin, Expr: "s"}, {Col: 4, Ty: KCi, Expr: "c"},
}

func genEngineQuery(r *lib.RNG, rows []Row) engineCase {
	ec := engineCase{Kind: "engine", Rows: rows, Table: "t", Limit: -1, Offset: -1}
	if r.Bool() {
		ec.Table = "ti"
	}
	nk := r.Range(1, 3)
	if ec.Table == "ti" && r.Chance(1, 3) {
		// index-shaped key lists: (a), (a,b), (s), (c), (id), same direction
		desc := r.Bool()
		shapes := [][]int{{1}, {1, 2}, {1, 2}, {1, 2}, {3}, {4}, {0}, {1, 2, 0}}
		for _, i := range lib.Pick(r, shapes) {
			k := engKeyChoices[i]
			k.Desc = desc
			ec.Keys = append(ec.Keys, k)
		}
	} else {
		for i := 0; i < nk; i++ {
			k := lib.Pick(r, engKeyChoices)
			k.Desc = r.Bool()
			ec.Keys = append(ec.Keys, k)
		}
	}
	if r.Chance(1, 4) {
		ec.Where = lib.Pick(r, []string{"a > 0", "b <= 2", "s >= 'a'", "a IS NOT NULL", "a = 3", "c < 'b'"})
	}
	n := len(rows)
	switch r.Intn(5) {
	case 0: // no limit
	case 1:
		ec.Limit = pickBound(r, n)
	default:
		ec.Limit = pickBound(r, n)
		ec.Offset = pickBound(r, n)
	}
	return ec
}

func (ec *engineCase) sql(ordered bool) string {
	var sb strings.Builder
	sb.WriteString("SELECT " + selectList + " FROM " + ec.Table)
	if ec.Where != "" {
		sb.WriteString(" WHERE " + ec.Where)
	}
	if ordered {
		sb.WriteString(" ORDER BY ")
		for i, k := range ec.Keys {
			if i > 0 {
				sb.WriteString(", ")
			}
			sb.WriteString(k.Expr)
			if k.Desc {
				sb.WriteString(" DESC")
			} else if i%2 == 1 {
				sb.WriteString(" ASC")
			}
		}
		if ec.Limit >= 0 {
			fmt.Fprintf(&sb, " LIMIT %d", ec.Limit)
			if ec.Offset >= 0 {
				fmt.Fprintf(&sb, " OFFSET %d", ec.Offset)
			}
		}
	}
	return sb.String()
}

const ddlT = "CREATE TABLE t (id BIGINT, a BIGINT, b BIGINT, s VARCHAR(20), c VARCHAR(20) COLLATE utf8mb4_0900_ai_ci)"
const ddlTi = "CREATE TABLE ti (id BIGINT PRIMARY KEY, a BIGINT, b BIGINT, s VARCHAR(20), c VARCHAR(20) COLLATE utf8mb4_0900_ai_ci, KEY ia (a), KEY iab (a,b), KEY isx (s), KEY ic (c))"

const perRowInsertMax = 100

func setup(rows []Row) *eng.S {
	e := eng.New("db")
	s := e.Session()
	s.MustExec(ddlT, ddlTi)
	if len(rows) > 0 {
		var vals []string
		for _, r := range rows {
			p := make([]string, len(r))
			for i, v := range r {
				p[i] = v.SQL()
			}
			vals = append(vals, "("+strings.Join(p, ",")+")")
		}
		s.MustExec("INSERT INTO t VALUES " + strings.Join(vals, ","))
		if len(rows) <= perRowInsertMax {
			// one statement per row: the index storage then receives the rows in insertion order (a multi-row INSERT
			// applies its rows in the iteration order of a hash map), so ties in index order are determined
			for _, v := range vals {
				s.MustExec("INSERT INTO ti VALUES " + v)
			}
		} else {
			s.MustExec("INSERT INTO ti VALUES " + strings.Join(vals, ","))
		}
	}
	return s
}

var idxLineRe = regexp.MustCompile(`index: \[([^\]]*)\]`)

// indexCols extracts the index columns named by an IndexedTableAccess plan as Coq idx_col terms.
func indexCols(planText string) (string, bool) {
	m := idxLineRe.FindStringSubmatch(planText)
	if m == nil {
		return "", false
	}
	cols := map[string]string{"id": "(0%nat, KInt)", "a": "(1%nat, KInt)", "b": "(2%nat, KInt)", "s": "(3%nat, KBin)", "c": "(4%nat, KCi)"}
	var out []string
	for _, f := range strings.Split(m[1], ",") {
		name := strings.TrimSpace(f)
		if i := strings.LastIndex(name, "."); i >= 0 {
			name = name[i+1:]
		}
		t, ok := cols[name]
		if !ok {
			return "", false
		}
		out = append(out, t)
	}
	return lib.CoqList(out), true
}

func planKind(s *eng.S, q string) (kind string, text string) {
	r := s.Query("EXPLAIN FORMAT=TREE " + q)
	var lines []string
	for _, row := range r.Rows {
		lines = append(lines, fmt.Sprint(row[0]))
	}
	text = strings.Join(lines, "\n")
	idx := strings.Contains(text, "IndexedTableAccess")
	switch {
	case strings.Contains(text, "TopN("):
		kind = "topn"
	case strings.Contains(text, "Sort("):
		kind = "sort"
	case idx:
		kind = "index"
	default:
		kind = "other"
	}
	if idx && kind != "index" {
		kind += "+idxchild"
	}
	return
}

func runEngine(c *lib.Ctx, s *eng.S, ec engineCase) {
	q := ec.sql(true)
	ec.Query = q
	kind, planText := planKind(s, q)
	ec.Plan = planText
	bagRes := s.Query(ec.sql(false))
	res := s.Query(q)
	shape := keyShape(ec.Keys)
	if bagRes.Err != nil || res.Err != nil {
		id := c.CaseNoModel(ec, "")
		c.PredChecked()
		c.PredFail(id, "engine/error/"+kind+"/"+shape, fmt.Sprintf("%s failed: %v / %v", q, res.Err, bagRes.Err), ec)
		return
	}
	bag := fromSQLRows(bagRes.Rows)
	out := fromSQLRows(res.Rows)
	m := 0
	if ec.Offset >= 0 {
		m = ec.Offset
	}
	n := len(bag)
	lim := "None"
	if ec.Limit >= 0 {
		n = ec.Limit
		lim = fmt.Sprintf("(Some %d%%N)", ec.Limit)
	}
	exact := kind == "sort" || kind == "topn"
	c.Count("engine_plan_" + kind)
	c.Count("engine_table_" + ec.Table)
	if ec.Limit >= 0 {
		c.Count("engine_with_limit")
	}
	if ec.Offset >= 0 {
		c.Count("engine_with_offset")
	}
	ties := false
	for i := 0; i+1 < len(out); i++ {
		if refCmp(ec.Keys, out[i], out[i+1]) == 0 {
			ties = true
		}
	}
	if ties {
		c.Count("engine_output_with_ties")
	}
	key := ""
	if len(bag) >= 2 {
		key = fmt.Sprintf("e|%s|%v", q, ec.Rows)
	}
	var id int
	if ec.NoModel {
		id = c.CaseNoModel(ec, key)
	} else if idxTerm, ok := indexCols(planText); ok && kind == "index" && len(ec.Rows) <= perRowInsertMax {
		// rows of the result in insertion order (the order in which the index storage received them)
		insPos := map[string]int{}
		for i, r := range ec.Rows {
			insPos[r[0].String()] = i
		}
		ins := append([]Row(nil), bag...)
		sort.SliceStable(ins, func(i, j int) bool { return insPos[ins[i][0].String()] < insPos[ins[j][0].String()] })
		term := fmt.Sprintf("CIndex %s %s %s %s %d %s", coqKeys(ec.Keys), idxTerm, coqRows(ins), lim, m, coqRows(out))
		id = c.Case(term, ec, key)
		c.Count("index_plan_modelled")
	} else {
		term := fmt.Sprintf("CEngine %s %s %s %d %s %s", coqKeys(ec.Keys), coqRows(bag), lim, m, coqRows(out), lib.CoqBool(exact))
		id = c.Case(term, ec, key)
	}
	if kind == "index" && len(ec.Keys) >= 2 && ec.Keys[0].Col == 1 && ec.Keys[1].Col == 2 {
		nulls := 0
		for _, r := range bag {
			if r[1].Null {
				nulls++
			}
		}
		if nulls >= 2 {
			c.Count("index_ab_with_null_leading_column")
		}
	}
	c.PredChecked()
	if why := validSlice(ec.Keys, bag, m, n, out); why != "" {
		c.PredFail(id, "engine/"+why+"/"+kind+"/"+shape,
			fmt.Sprintf("%s over %d rows returned %v, which is not rows %d..%d of any ordering of %v consistent with the keys (plan %s)", q, len(bag), out, m+1, m+n, bag, kind), ec)
	}
	// the unordered result must be the table's rows that pass the filter: sanity of the bag itself
	if ec.Where == "" && len(bag) != len(ec.Rows) {
		c.PredFail(id, "engine/bag-size/"+kind, fmt.Sprintf("%s returned %d rows for a table of %d", ec.sql(false), len(bag), len(ec.Rows)), ec)
	}
}

// runLarge: > 1024 rows; LIMIT+OFFSET above 1024 (top-N heap beyond its initial capacity), on both tables.
func runLarge(c *lib.Ctx, r *lib.RNG) {
	rows := genLargeRows(r)
	n := len(rows)
	keysA := []Key{{Col: 1, Ty: KInt, Expr: "a", Desc: r.Bool()}, {Col: 2, Ty: KInt, Expr: "b", Desc: r.Bool()}}
	runDirect(c, directCase{Kind: "direct", Keys: keysA, Rows: rows, N: lib.Pick(r, []int{1025, 1030, n - 1, n + 3}), M: 1020})
	s := setup(rows)
	c.Count("large_dataset")
	for _, lo := range [][2]int{{10, 1020}, {n + 60, -1}, {1030, -1}, {3, 1024}, {1025, 5}} {
		for _, tb := range []string{"t", "ti"} {
			ks := keysA
			if tb == "ti" {
				d := r.Bool()
				ks = []Key{{Col: 1, Ty: KInt, Expr: "a", Desc: d}, {Col: 2, Ty: KInt, Expr: "b", Desc: d}}
				if r.Bool() {
					ks = []Key{{Col: 3, Ty: KBin, Expr: "s", Desc: r.Bool()}, {Col: 2, Ty: KInt, Expr: "b", Desc: r.Bool()}}
				}
			}
			runEngine(c, s, engineCase{Kind: "engine", Rows: rows, Table: tb, Keys: ks, Limit: lo[0], Offset: lo[1], NoModel: !(lo[0] == 10 && tb == "t")})
		}
	}
}

// ---------- main ----------

func main() {
	lib.Main("C04", func(c *lib.Ctx) {
		c.Header = "From Coq Require Import List NArith ZArith.\nImport ListNotations.\nFrom GMS Require Import Phys.C04Sort Corr.C04.\nOpen Scope N_scope."
		c.CaseType = "C04.case"
		c.MismatchFn = "C04.mismatches"
		c.SetRule("datasets of 0-24 rows (id, a, b BIGINT; s VARCHAR _bin; c VARCHAR _ai_ci) with NULLs and heavy ties, loaded into an " +
			"unindexed table t and an indexed copy ti (PK id, keys (a), (a,b), (s), (c)); per dataset one direct case (sort.Stable(RowSorter), " +
			"GetTopNRows, topRowIter, LimitIter/offsetIter with 1-3 random sort conditions incl. NullsLast) and 7 engine queries with " +
			"1-3 ORDER BY keys (columns, a+b, -a, aliases; mixed ASC/DESC; index-shaped lists), optional WHERE, LIMIT/OFFSET in " +
			"{none,0,1,2,n/2,n-1,n,n+1,n+5}. Non-trivial = at least 2 rows to order; distinct = distinct (query, data).")
		if c.ReplayFile != "" {
			var probe struct {
				Kind string `json:"kind"`
			}
			lib.LoadReplay(c.ReplayFile, &probe)
			if probe.Kind == "direct" {
				var dc directCase
				lib.LoadReplay(c.ReplayFile, &dc)
				runDirect(c, dc)
			} else {
				var ec engineCase
				lib.LoadReplay(c.ReplayFile, &ec)
				runEngine(c, setup(ec.Rows), ec)
			}
			return
		}
		// fixed corpus
		i64 := func(x int64) V { return vi(x) }
		corpusRows := []Row{
			{i64(1), i64(3), i64(1), vs("b"), vs("B")}, {i64(2), vnull(), i64(2), vs("a"), vs("a")},
			{i64(3), i64(3), i64(0), vnull(), vs("A")}, {i64(4), i64(1), i64(5), vs("B"), vs("b")},
			{i64(5), i64(3), vnull(), vs(""), vnull()},
		}
		runDirect(c, directCase{Kind: "direct", Keys: []Key{{Col: 1, Ty: KInt, Desc: true}, {Col: 4, Ty: KCi}}, Rows: corpusRows, N: 2, M: 1})
		runDirect(c, directCase{Kind: "direct", Keys: []Key{{Col: 3, Ty: KBin, NullsLast: true}}, Rows: corpusRows, N: 1, M: 0})
		runDirect(c, directCase{Kind: "direct", Keys: []Key{{Col: 1, Ty: KInt}}, Rows: []Row{}, N: 0, M: 0})
		s := setup(corpusRows)
		for _, ec := range []engineCase{
			{Kind: "engine", Rows: corpusRows, Table: "t", Keys: []Key{{Col: 1, Ty: KInt, Expr: "a", Desc: true}, {Col: 2, Ty: KInt, Expr: "b"}}, Limit: 2, Offset: -1},
			{Kind: "engine", Rows: corpusRows, Table: "t", Keys: []Key{{Col: 1, Ty: KInt, Expr: "a"}}, Limit: 1, Offset: -1},
			{Kind: "engine", Rows: corpusRows, Table: "t", Keys: []Key{{Col: 5, Ty: KInt, Expr: "a+b", Desc: true}}, Limit: 2, Offset: 1},
			{Kind: "engine", Rows: corpusRows, Table: "ti", Keys: []Key{{Col: 1, Ty: KInt, Expr: "a", Desc: true}}, Limit: 2, Offset: 1},
			{Kind: "engine", Rows: corpusRows, Table: "ti", Keys: []Key{{Col: 4, Ty: KCi, Expr: "c", Desc: true}}, Limit: -1, Offset: -1},
			{Kind: "engine", Rows: corpusRows, Table: "ti", Keys: []Key{{Col: 1, Ty: KInt, Expr: "a"}, {Col: 2, Ty: KInt, Expr: "b"}}, Limit: 0, Offset: -1},
		} {
			runEngine(c, s, ec)
		}
		nullLead := []Row{
			{i64(1), vnull(), i64(5), vs("a"), vs("a")}, {i64(2), vnull(), i64(2), vs("b"), vs("b")}, {i64(3), vnull(), vnull(), vs("c"), vs("c")},
			{i64(4), i64(1), i64(3), vs("a"), vs("A")}, {i64(5), vnull(), i64(4), vs("a"), vs("B")}, {i64(6), i64(1), i64(1), vs("b"), vs("b")},
			{i64(7), i64(0), i64(9), vs("b"), vs("b")},
		}
		s2 := setup(nullLead)
		for _, d := range []bool{false, true} {
			for _, lo := range [][2]int{{-1, -1}, {2, -1}, {2, 1}, {3, 2}, {1, -1}} {
				runEngine(c, s2, engineCase{Kind: "engine", Rows: nullLead, Table: "ti",
					Keys: []Key{{Col: 1, Ty: KInt, Expr: "a", Desc: d}, {Col: 2, Ty: KInt, Expr: "b", Desc: d}}, Limit: lo[0], Offset: lo[1]})
			}
		}
		largeSeen := false
		for c_i := 19; c_i < c.N; {
			if !largeSeen && c_i > c.N/2 {
				largeSeen = true
				runLarge(c, c.R.Fork())
				c_i += 11
				continue
			}
			r := c.R.Fork()
			dc := genDirect(r)
			runDirect(c, dc)
			c_i++
			s := setup(dc.Rows)
			for j := 0; j < 7 && c_i < c.N; j++ {
				runEngine(c, s, genEngineQuery(r, dc.Rows))
				c_i++
			}
		}
	})
}
