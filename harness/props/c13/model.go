// Shared by the C14 and C13 drivers (copied, one main package per property): schemas, values, statements, their SQL
// and Coq printers, and an INDEPENDENT reference semantics (MySQL's documented row-at-a-time behaviour over a keyed
// map / multiset, keys compared under the column collation, prefix lengths in characters).
package main

import (
	"fmt"
	"sort"
	"strings"
	"unicode/utf8"

	"github.com/dolthub/go-mysql-server/sql"

	"verifharness/lib"
)

// ---------- values ----------

type Val struct {
	Null bool   `json:"null,omitempty"`
	Str  bool   `json:"str,omitempty"`
	I    int64  `json:"i,omitempty"`
	S    string `json:"s,omitempty"`
}

type Row []Val

func NullV() Val              { return Val{Null: true} }
func IntV(i int64) Val        { return Val{I: i} }
func StrV(s string) Val       { return Val{Str: true, S: s} }
func (v Val) Same(w Val) bool { return v == w }

func (v Val) SQL() string {
	switch {
	case v.Null:
		return "NULL"
	case v.Str:
		return "'" + strings.ReplaceAll(v.S, "'", "''") + "'"
	default:
		return fmt.Sprintf("%d", v.I)
	}
}

func (v Val) Coq() string {
	switch {
	case v.Null:
		return "VNull"
	case v.Str:
		return "(VStr " + lib.CoqStr(v.S) + ")"
	default:
		return "(VInt " + lib.CoqZ(v.I) + ")"
	}
}

func (v Val) Text() string {
	switch {
	case v.Null:
		return "NULL"
	case v.Str:
		return fmt.Sprintf("%q", v.S)
	default:
		return fmt.Sprintf("%d", v.I)
	}
}

func (r Row) Text() string {
	p := make([]string, len(r))
	for i, v := range r {
		p[i] = v.Text()
	}
	return "(" + strings.Join(p, ",") + ")"
}

func (r Row) Coq() string { return lib.CoqListOf(r, Val.Coq) }
func (r Row) Copy() Row   { return append(Row(nil), r...) }
func (r Row) Same(o Row) bool {
	if len(r) != len(o) {
		return false
	}
	for i := range r {
		if r[i] != o[i] {
			return false
		}
	}
	return true
}

func RowsCoq(rs []Row) string { return lib.CoqListOf(rs, Row.Coq) }

func RowsText(rs []Row) string {
	p := make([]string, len(rs))
	for i, r := range rs {
		p[i] = r.Text()
	}
	return "[" + strings.Join(p, " ") + "]"
}

// ---------- schema ----------

type Col struct {
	Str bool `json:"str,omitempty"`
	Ci  bool `json:"ci,omitempty"` // utf8mb4_0900_ai_ci (else utf8mb4_0900_bin); strings only
}

type Unique struct {
	Cols   []int `json:"cols"`
	Prefix []int `json:"prefix"` // 0 = whole value; in the SQL text a prefix is in characters
}

type Schema struct {
	Cols []Col    `json:"cols"`
	PK   []int    `json:"pk"`
	Uniq []Unique `json:"uniq"`
}

func colName(i int) string { return fmt.Sprintf("c%d", i) }

func (s Schema) isPK(i int) bool {
	for _, p := range s.PK {
		if p == i {
			return true
		}
	}
	return false
}

func (s Schema) CreateSQL(name string) string {
	var parts []string
	for i, c := range s.Cols {
		d := colName(i)
		if c.Str {
			d += " VARCHAR(12) COLLATE "
			if c.Ci {
				d += "utf8mb4_0900_ai_ci"
			} else {
				d += "utf8mb4_0900_bin"
			}
		} else {
			d += " BIGINT"
		}
		if s.isPK(i) {
			d += " NOT NULL"
		}
		parts = append(parts, d)
	}
	if len(s.PK) > 0 {
		var n []string
		for _, p := range s.PK {
			n = append(n, colName(p))
		}
		parts = append(parts, "PRIMARY KEY ("+strings.Join(n, ",")+")")
	}
	for k, u := range s.Uniq {
		var n []string
		for j, c := range u.Cols {
			x := colName(c)
			if u.Prefix[j] > 0 {
				x += fmt.Sprintf("(%d)", u.Prefix[j])
			}
			n = append(n, x)
		}
		parts = append(parts, fmt.Sprintf("UNIQUE KEY u%d (%s)", k, strings.Join(n, ",")))
	}
	return "CREATE TABLE " + name + " (" + strings.Join(parts, ", ") + ")"
}

func coqNat(i int) string { return fmt.Sprintf("%d%%nat", i) }

func (s Schema) Coq() string {
	var us []string
	for _, u := range s.Uniq {
		us = append(us, lib.CoqTuple(lib.CoqListOf(u.Cols, coqNat), lib.CoqListOf(u.Prefix, lib.CoqNat)))
	}
	cs := make([]string, len(s.Cols))
	for i, c := range s.Cols {
		if c.Ci {
			cs[i] = "CCi"
		} else {
			cs[i] = "CBin"
		}
	}
	return fmt.Sprintf("{| s_pk := %s; s_uniq := %s; s_coll := %s |}", lib.CoqListOf(s.PK, coqNat), lib.CoqList(us), lib.CoqList(cs))
}

// ---------- statements ----------

type Pred struct {
	Kind string `json:"kind"` // true | cmp | and | or
	Col  int    `json:"col,omitempty"`
	Op   string `json:"op,omitempty"` // = <> < <= > >=
	V    *Val   `json:"v,omitempty"`
	L    *Pred  `json:"l,omitempty"`
	R    *Pred  `json:"r,omitempty"`
}

type Assign struct {
	Col int   `json:"col"`
	Add bool  `json:"add,omitempty"` // col = col + K   (else col = V)
	K   int64 `json:"k,omitempty"`
	V   Val   `json:"v"`
}

type Order struct {
	Col  int  `json:"col"`
	Desc bool `json:"desc,omitempty"`
}

type Stmt struct {
	Kind   string   `json:"kind"` // insert | ignore | replace | odku | update | delete
	Rows   []Row    `json:"rows,omitempty"`
	Assign []Assign `json:"assign,omitempty"`
	Where  *Pred    `json:"where,omitempty"`
	Order  *Order   `json:"order,omitempty"`
	Limit  int      `json:"limit"` // < 0: none
}

// InUnique: is column c part of a unique secondary index?
func (s Schema) InUnique(c int) bool {
	for _, u := range s.Uniq {
		for _, x := range u.Cols {
			if x == c {
				return true
			}
		}
	}
	return false
}

// colRef prints a column reference inside WHERE / ORDER BY.  A column of a unique secondary index is written as
// (c + 0): the engine would otherwise scan through that index, i.e. visit the rows in index order instead of storage
// order, and which rows an UPDATE / DELETE ... LIMIT touches (and in which order) is not what this property is about.
// The generator never filters or orders by a string column of a unique secondary index.
func (s Schema) colRef(c int) string {
	if s.InUnique(c) && !s.Cols[c].Str {
		return "(" + colName(c) + " + 0)"
	}
	return colName(c)
}

func (p *Pred) SQL(s Schema) string {
	if p == nil {
		return "TRUE"
	}
	switch p.Kind {
	case "cmp":
		return fmt.Sprintf("%s %s %s", s.colRef(p.Col), p.Op, p.V.SQL())
	case "and":
		return "(" + p.L.SQL(s) + " AND " + p.R.SQL(s) + ")"
	case "or":
		return "(" + p.L.SQL(s) + " OR " + p.R.SQL(s) + ")"
	}
	return "TRUE"
}

var opCoq = map[string]string{"=": "OEq", "<>": "ONe", "<": "OLt", "<=": "OLe", ">": "OGt", ">=": "OGe"}

func (p *Pred) Coq() string {
	if p == nil {
		return "PTrue"
	}
	switch p.Kind {
	case "cmp":
		return fmt.Sprintf("(PCmp %s %s %s)", coqNat(p.Col), opCoq[p.Op], p.V.Coq())
	case "and":
		return "(PAnd " + p.L.Coq() + " " + p.R.Coq() + ")"
	case "or":
		return "(POr " + p.L.Coq() + " " + p.R.Coq() + ")"
	}
	return "PTrue"
}

func assignsSQL(as []Assign) string {
	var p []string
	for _, a := range as {
		if a.Add {
			p = append(p, fmt.Sprintf("%s = %s + %d", colName(a.Col), colName(a.Col), a.K))
		} else {
			p = append(p, fmt.Sprintf("%s = %s", colName(a.Col), a.V.SQL()))
		}
	}
	return strings.Join(p, ", ")
}

func assignsCoq(as []Assign) string {
	return lib.CoqListOf(as, func(a Assign) string {
		if a.Add {
			return fmt.Sprintf("(%s, AAdd %s)", coqNat(a.Col), lib.CoqZ(a.K))
		}
		return fmt.Sprintf("(%s, AConst %s)", coqNat(a.Col), a.V.Coq())
	})
}

func (st Stmt) tail(sch Schema) string {
	s := ""
	if st.Where != nil {
		s += " WHERE " + st.Where.SQL(sch)
	}
	if st.Order != nil {
		s += " ORDER BY " + sch.colRef(st.Order.Col)
		if st.Order.Desc {
			s += " DESC"
		}
	}
	if st.Limit >= 0 {
		s += fmt.Sprintf(" LIMIT %d", st.Limit)
	}
	return s
}

func (st Stmt) SQL(t string, sch Schema) string {
	vals := func() string {
		var p []string
		for _, r := range st.Rows {
			var q []string
			for _, v := range r {
				q = append(q, v.SQL())
			}
			p = append(p, "("+strings.Join(q, ",")+")")
		}
		return strings.Join(p, ",")
	}
	switch st.Kind {
	case "insert":
		return "INSERT INTO " + t + " VALUES " + vals()
	case "ignore":
		return "INSERT IGNORE INTO " + t + " VALUES " + vals()
	case "replace":
		return "REPLACE INTO " + t + " VALUES " + vals()
	case "odku":
		return "INSERT INTO " + t + " VALUES " + vals() + " ON DUPLICATE KEY UPDATE " + assignsSQL(st.Assign)
	case "update":
		return "UPDATE " + t + " SET " + assignsSQL(st.Assign) + st.tail(sch)
	case "delete":
		return "DELETE FROM " + t + st.tail(sch)
	}
	panic("bad statement kind " + st.Kind)
}

func (st Stmt) Coq() string {
	ord := "None"
	if st.Order != nil {
		ord = fmt.Sprintf("(Some (%s, %s))", coqNat(st.Order.Col), lib.CoqBool(st.Order.Desc))
	}
	lim := "None"
	if st.Limit >= 0 {
		lim = fmt.Sprintf("(Some %d)", st.Limit)
	}
	switch st.Kind {
	case "insert":
		return "(SInsert IPlain " + RowsCoq(st.Rows) + ")"
	case "ignore":
		return "(SInsert IIgnore " + RowsCoq(st.Rows) + ")"
	case "replace":
		return "(SInsert IReplace " + RowsCoq(st.Rows) + ")"
	case "odku":
		return "(SInsert (IOdku " + assignsCoq(st.Assign) + ") " + RowsCoq(st.Rows) + ")"
	case "update":
		return fmt.Sprintf("(SUpdate %s %s %s %s)", assignsCoq(st.Assign), st.Where.Coq(), ord, lim)
	case "delete":
		return fmt.Sprintf("(SDelete %s %s %s)", st.Where.Coq(), ord, lim)
	}
	panic("bad statement kind " + st.Kind)
}

// ---------- engine rows -> Rows ----------

func FromEngine(sch Schema, rs []sql.Row) ([]Row, error) {
	out := make([]Row, len(rs))
	for i, r := range rs {
		if len(r) != len(sch.Cols) {
			return nil, fmt.Errorf("row width %d, schema width %d", len(r), len(sch.Cols))
		}
		row := make(Row, len(r))
		for j, v := range r {
			switch x := v.(type) {
			case nil:
				row[j] = NullV()
			case int64:
				row[j] = IntV(x)
			case string:
				row[j] = StrV(x)
			default:
				return nil, fmt.Errorf("unexpected value %T in column %d", v, j)
			}
		}
		out[i] = row
	}
	return out, nil
}

// ---------- reference semantics (independent of the engine) ----------

// foldCi: utf8mb4_0900_ai_ci restricted to the generator's alphabet for ci columns (ASCII letters and digits):
// equality is equality after case folding; digits sort before letters.
func foldCi(s string) string {
	// ... and accent-insensitive: the two accented letters of the binary pool (é, è) compare equal to e
	return strings.NewReplacer("É", "E", "È", "E").Replace(strings.ToUpper(s))
}

func (s Schema) cmpVal(c int, a, b Val) int {
	switch {
	case a.Null && b.Null:
		return 0
	case a.Null:
		return -1
	case b.Null:
		return 1
	}
	if !s.Cols[c].Str {
		switch {
		case a.I < b.I:
			return -1
		case a.I > b.I:
			return 1
		}
		return 0
	}
	x, y := a.S, b.S
	if s.Cols[c].Ci {
		x, y = foldCi(x), foldCi(y)
	}
	return strings.Compare(x, y)
}

func charPrefix(s string, n int) string {
	if n <= 0 {
		return s
	}
	i := 0
	for k := 0; k < n && i < len(s); k++ {
		_, w := utf8.DecodeRuneInString(s[i:])
		i += w
	}
	return s[:i]
}

// keyEq: equality of the primary key under the columns' collations
func (s Schema) keyEq(a, b Row) bool {
	for _, c := range s.PK {
		if s.cmpVal(c, a[c], b[c]) != 0 {
			return false
		}
	}
	return true
}

// uniqEq: both rows non-NULL in every indexed column and equal under collation and character prefix
func (s Schema) uniqEq(u Unique, a, b Row) bool {
	for j, c := range u.Cols {
		x, y := a[c], b[c]
		if x.Null || y.Null {
			return false
		}
		if s.Cols[c].Str && u.Prefix[j] > 0 {
			x, y = StrV(charPrefix(x.S, u.Prefix[j])), StrV(charPrefix(y.S, u.Prefix[j]))
		}
		if s.cmpVal(c, x, y) != 0 {
			return false
		}
	}
	return true
}

// conflict: do a and b collide in the primary key or in a unique index?  which: "pk" | "uniq" | ""
func (s Schema) conflict(a, b Row) string {
	if len(s.PK) > 0 && s.keyEq(a, b) {
		return "pk"
	}
	for _, u := range s.Uniq {
		if s.uniqEq(u, a, b) {
			return "uniq"
		}
	}
	return ""
}

// firstConflict prefers a primary-key conflict (MySQL checks indexes in order, PRIMARY first).
func (s Schema) firstConflict(rows []Row, r Row, skip int) int {
	if len(s.PK) > 0 {
		for i, x := range rows {
			if i != skip && s.keyEq(x, r) {
				return i
			}
		}
	}
	for _, u := range s.Uniq {
		for i, x := range rows {
			if i != skip && s.uniqEq(u, x, r) {
				return i
			}
		}
	}
	return -1
}

// DupPair returns two stored rows that are equal in the primary key or in a unique index.
func (s Schema) DupPair(rows []Row) (int, int, string) {
	for i := range rows {
		for j := i + 1; j < len(rows); j++ {
			if w := s.conflict(rows[i], rows[j]); w != "" {
				return i, j, w
			}
		}
	}
	return -1, -1, ""
}

func (s Schema) predTrue(p *Pred, r Row) bool {
	if p == nil {
		return true
	}
	switch p.Kind {
	case "cmp":
		if r[p.Col].Null || p.V.Null {
			return false
		}
		c := s.cmpVal(p.Col, r[p.Col], *p.V)
		switch p.Op {
		case "=":
			return c == 0
		case "<>":
			return c != 0
		case "<":
			return c < 0
		case "<=":
			return c <= 0
		case ">":
			return c > 0
		case ">=":
			return c >= 0
		}
	case "and":
		return s.predTrue(p.L, r) && s.predTrue(p.R, r)
	case "or":
		return s.predTrue(p.L, r) || s.predTrue(p.R, r)
	}
	return true
}

func applyAssigns(as []Assign, r Row) Row {
	n := r.Copy()
	for _, a := range as {
		if a.Add {
			if !n[a.Col].Null && !n[a.Col].Str {
				n[a.Col] = IntV(n[a.Col].I + a.K)
			}
		} else {
			n[a.Col] = a.V
		}
	}
	return n
}

// targets: indexes into rows, in processing order
func (s Schema) targets(st Stmt, rows []Row) []int {
	var ix []int
	for i, r := range rows {
		if s.predTrue(st.Where, r) {
			ix = append(ix, i)
		}
	}
	if st.Order != nil {
		c := st.Order.Col
		sort.SliceStable(ix, func(a, b int) bool {
			k := s.cmpVal(c, rows[ix[a]][c], rows[ix[b]][c])
			if st.Order.Desc {
				return k > 0
			}
			return k < 0
		})
	}
	if st.Limit >= 0 && st.Limit < len(ix) {
		ix = ix[:st.Limit]
	}
	return ix
}

type RefResult struct {
	Dup      bool // the statement fails with a duplicate-key error and has no effect
	Rows     []Row
	Affected int
	Matched  int
	// OrderSensitive: the result depends on ties in ORDER BY / on the scan order (LIMIT without a total order)
	TransientOnly bool // Dup only because of an intermediate state (row-at-a-time check); the final state would be clean
}

// Ref executes one statement on rows (given in storage order) with MySQL's row-at-a-time semantics.
func (s Schema) Ref(rows []Row, st Stmt) RefResult {
	cur := make([]Row, len(rows))
	copy(cur, rows)
	fail := RefResult{Dup: true, Rows: rows}
	switch st.Kind {
	case "insert":
		for _, r := range st.Rows {
			if s.firstConflict(cur, r, -1) >= 0 {
				return fail
			}
			cur = append(cur, r)
		}
		return RefResult{Rows: cur, Affected: len(st.Rows)}
	case "ignore":
		n := 0
		for _, r := range st.Rows {
			if s.firstConflict(cur, r, -1) >= 0 {
				continue
			}
			cur = append(cur, r)
			n++
		}
		return RefResult{Rows: cur, Affected: n}
	case "replace":
		n := 0
		for _, r := range st.Rows {
			for {
				i := s.firstConflict(cur, r, -1)
				if i < 0 {
					break
				}
				cur = append(cur[:i:i], cur[i+1:]...)
				n++
			}
			cur = append(cur, r)
			n++
		}
		return RefResult{Rows: cur, Affected: n}
	case "odku":
		n := 0
		for _, r := range st.Rows {
			i := s.firstConflict(cur, r, -1)
			if i < 0 {
				cur = append(cur, r)
				n++
				continue
			}
			nw := applyAssigns(st.Assign, cur[i])
			if nw.Same(cur[i]) {
				continue
			}
			if s.firstConflict(cur, nw, i) >= 0 {
				return fail
			}
			cur[i] = nw
			n += 2
		}
		return RefResult{Rows: cur, Affected: n}
	case "update":
		ix := s.targets(st, cur)
		m, c := 0, 0
		for _, i := range ix {
			m++
			nw := applyAssigns(st.Assign, cur[i])
			if nw.Same(cur[i]) {
				continue
			}
			if s.firstConflict(cur, nw, i) >= 0 {
				// would the statement be fine if uniqueness were checked at the end only?
				f := fail
				f.TransientOnly = s.deferredUpdateClean(rows, st)
				return f
			}
			cur[i] = nw
			c++
		}
		return RefResult{Rows: cur, Affected: c, Matched: m}
	case "delete":
		ix := s.targets(st, cur)
		del := map[int]bool{}
		for _, i := range ix {
			del[i] = true
		}
		var out []Row
		for i, r := range cur {
			if !del[i] {
				out = append(out, r)
			}
		}
		return RefResult{Rows: out, Affected: len(ix)}
	}
	panic("bad statement kind")
}

func (s Schema) deferredUpdateClean(rows []Row, st Stmt) bool {
	cur := make([]Row, len(rows))
	copy(cur, rows)
	for _, i := range s.targets(st, cur) {
		cur[i] = applyAssigns(st.Assign, cur[i])
	}
	i, _, _ := s.DupPair(cur)
	return i < 0
}

// BagEq compares two row lists as multisets.
func BagEq(a, b []Row) bool {
	if len(a) != len(b) {
		return false
	}
	x, y := make([]string, len(a)), make([]string, len(b))
	for i := range a {
		x[i], y[i] = a[i].Text(), b[i].Text()
	}
	sort.Strings(x)
	sort.Strings(y)
	for i := range x {
		if x[i] != y[i] {
			return false
		}
	}
	return true
}
