// Driver for C33 (REGEXP_LIKE / REGEXP_INSTR / REGEXP_SUBSTR / REGEXP_REPLACE agree with each other and with the
// pattern).  Runs the SQL functions of /repo through the engine (default build: cgo + ICU via go-icu-regex) on
// generated patterns from the common RE2/ICU subset, subjects, positions, occurrences and match types.  The match
// lists the implementation reports (successive REGEXP_INSTR calls) instantiate the oracle of the Coq wrapper model;
// the agreement laws are evaluated on the implementation results directly (property predicate), the matches are
// compared with Go's regexp on patterns that cannot match the empty string, and invalid patterns must fail.
package main

import (
	"fmt"
	"regexp"
	"strings"

	"verifharness/lib"
	"verifharness/lib/eng"
)

type caseT struct {
	Pat  string `json:"pattern"`
	Subj string `json:"subject"`
	Repl string `json:"replacement"`
	Pos  int    `json:"pos"`
	Occ  int    `json:"occ"`
	MT   string `json:"match_type"`
	Bad  bool   `json:"invalid_pattern,omitempty"`
	// observations
	Like    string   `json:"like,omitempty"`
	Instr0  int      `json:"instr0"`
	Instr1  int      `json:"instr1"`
	Substr  *string  `json:"substr"`
	ReplK   string   `json:"replace_k"`
	Repl0   string   `json:"replace_all"`
	LocsPos [][2]int `json:"matches_from_pos"`
	Locs1   [][2]int `json:"matches_from_1"`
	Err     string   `json:"err,omitempty"`
}

func q(s string) string {
	return "'" + strings.ReplaceAll(strings.ReplaceAll(s, "\\", "\\\\"), "'", "''") + "'"
}

// ---------- generators ----------

func genAtom(r *lib.RNG, depth int) string {
	switch r.Intn(12) {
	case 0, 1, 2, 3:
		return lib.Pick(r, []string{"a", "b", "c", "1"})
	case 4:
		return "."
	case 5:
		return lib.Pick(r, []string{"[ab]", "[^a]", "[a-c]", "[b1]", "[^ab]"})
	case 6:
		return lib.Pick(r, []string{"\\d", "\\w", "\\s"})
	case 7, 8:
		if depth < 2 {
			return "(" + genAlt(r, depth+1) + ")"
		}
		return "b"
	default:
		return lib.Pick(r, []string{"a", "b", "ab", "ba", "c"})
	}
}

func genPiece(r *lib.RNG, depth int) string {
	a := genAtom(r, depth)
	switch r.Intn(10) {
	case 0:
		return a + "*"
	case 1:
		return a + "+"
	case 2:
		return a + "?"
	case 3:
		return a + lib.Pick(r, []string{"{2}", "{1,2}", "{0,1}", "{2,}"})
	}
	return a
}

func genSeq(r *lib.RNG, depth int) string {
	n := r.Range(1, 3)
	var sb strings.Builder
	for i := 0; i < n; i++ {
		sb.WriteString(genPiece(r, depth))
	}
	return sb.String()
}

func genAlt(r *lib.RNG, depth int) string {
	s := genSeq(r, depth)
	if r.Chance(1, 4) {
		s += "|" + genSeq(r, depth)
	}
	return s
}

func genPattern(r *lib.RNG) string {
	p := genAlt(r, 0)
	if r.Chance(1, 12) {
		p = "^" + p
	}
	if r.Chance(1, 12) {
		p = p + "$"
	}
	return p
}

var subjAlpha = []string{"a", "b", "c", "a", "b", "1", " ", "A", "B"}

func genSubject(r *lib.RNG, wide bool) string {
	n := r.Intn(11)
	var sb strings.Builder
	for i := 0; i < n; i++ {
		if wide && r.Chance(1, 4) {
			sb.WriteString(lib.Pick(r, []string{"é", "日", "ß"}))
		} else {
			sb.WriteString(lib.Pick(r, subjAlpha))
		}
	}
	return sb.String()
}

var badPatterns = []string{"(", "a{2,1}", "[a", "*a", "a)", "\\", "(a|b", "a{,", "[b-a]", "+"}

func gen(r *lib.RNG) caseT {
	var cs caseT
	if r.Chance(1, 25) {
		cs.Bad = true
		cs.Pat = lib.Pick(r, badPatterns)
	} else {
		cs.Pat = genPattern(r)
	}
	cs.Subj = genSubject(r, r.Chance(1, 6))
	cs.Repl = lib.Pick(r, []string{"", "X", "xy", "a", "--"})
	n := len([]rune(cs.Subj))
	cs.Pos = 1
	if n > 0 && r.Chance(1, 2) {
		cs.Pos = r.Range(1, n)
	}
	cs.Occ = lib.Pick(r, []int{1, 1, 1, 2, 2, 3, 4})
	cs.MT = lib.Pick(r, []string{"", "", "c", "i", "i"})
	return cs
}

// ---------- running ----------

func mtArg(mt string) string {
	if mt == "" {
		return ""
	}
	return ", " + q(mt)
}

func isASCII(s string) bool {
	for i := 0; i < len(s); i++ {
		if s[i] >= 0x80 {
			return false
		}
	}
	return true
}

func asStr(v interface{}) (string, bool) {
	switch x := v.(type) {
	case nil:
		return "", false
	case string:
		return x, true
	case []byte:
		return string(x), true
	}
	return fmt.Sprint(v), true
}

func asInt(v interface{}) int {
	switch x := v.(type) {
	case int32:
		return int(x)
	case int64:
		return int(x)
	case int8:
		return int(x)
	case int:
		return x
	}
	return -999
}

// matches asks the implementation for every match from position pos: offsets relative to the search start.
func matches(s *eng.S, cs caseT, pos int) ([][2]int, error) {
	var out [][2]int
	for base := 1; base < 200; base += 8 {
		var cols []string
		for k := base; k < base+8; k++ {
			cols = append(cols, fmt.Sprintf("REGEXP_INSTR(%s, %s, %d, %d, 0%s), REGEXP_INSTR(%s, %s, %d, %d, 1%s)",
				q(cs.Subj), q(cs.Pat), pos, k, mtArg(cs.MT), q(cs.Subj), q(cs.Pat), pos, k, mtArg(cs.MT)))
		}
		r := s.Query("SELECT " + strings.Join(cols, ", "))
		if r.Err != nil {
			return nil, r.Err
		}
		for k := 0; k < 8; k++ {
			a, b := asInt(r.Rows[0][2*k]), asInt(r.Rows[0][2*k+1])
			if a == 0 {
				return out, nil
			}
			out = append(out, [2]int{a - pos, b - pos})
		}
	}
	return out, nil
}

func coqLocs(l [][2]int) string {
	return lib.CoqListOf(l, func(p [2]int) string { return fmt.Sprintf("(%d, %d)", p[0], p[1]) })
}

func run(c *lib.Ctx, s *eng.S, cs caseT) {
	S, P := q(cs.Subj), q(cs.Pat)
	mt := mtArg(cs.MT)
	stmts := []string{
		fmt.Sprintf("SELECT REGEXP_LIKE(%s, %s%s)", S, P, mt),
		fmt.Sprintf("SELECT REGEXP_INSTR(%s, %s, %d, %d, 0%s)", S, P, cs.Pos, cs.Occ, mt),
		fmt.Sprintf("SELECT REGEXP_INSTR(%s, %s, %d, %d, 1%s)", S, P, cs.Pos, cs.Occ, mt),
		fmt.Sprintf("SELECT REGEXP_SUBSTR(%s, %s, %d, %d%s)", S, P, cs.Pos, cs.Occ, mt),
		fmt.Sprintf("SELECT REGEXP_REPLACE(%s, %s, %s, %d, %d%s)", S, P, q(cs.Repl), cs.Pos, cs.Occ, mt),
		fmt.Sprintf("SELECT REGEXP_REPLACE(%s, %s, %s, %d, 0%s)", S, P, q(cs.Repl), cs.Pos, mt),
	}
	vals := make([]interface{}, len(stmts))
	nerr := 0
	firstErr := ""
	for i, st := range stmts {
		r := s.Query(st)
		if r.Err != nil {
			nerr++
			if firstErr == "" {
				firstErr = r.Err.Error()
			}
			continue
		}
		vals[i] = r.Rows[0][0]
	}
	c.PredChecked()
	if cs.Bad {
		c.Count("invalid_pattern")
		cs.Err = firstErr
		id := c.CaseNoModel(cs, "")
		if nerr != len(stmts) {
			c.PredFail(id, "invalid-pattern-accepted", fmt.Sprintf("pattern %q is invalid but %d of 6 REGEXP_* calls succeeded", cs.Pat, len(stmts)-nerr), cs)
		}
		return
	}
	if nerr > 0 {
		cs.Err = firstErr
		id := c.CaseNoModel(cs, "")
		c.PredFail(id, "valid-pattern-rejected", fmt.Sprintf("pattern %q subject %q pos %d occ %d: %d of 6 calls failed: %s", cs.Pat, cs.Subj, cs.Pos, cs.Occ, nerr, firstErr), cs)
		return
	}
	like := asInt(vals[0]) == 1
	cs.Like = fmt.Sprint(vals[0])
	cs.Instr0, cs.Instr1 = asInt(vals[1]), asInt(vals[2])
	if sub, ok := asStr(vals[3]); ok {
		cs.Substr = &sub
	}
	cs.ReplK, _ = asStr(vals[4])
	cs.Repl0, _ = asStr(vals[5])
	var err error
	if cs.LocsPos, err = matches(s, cs, cs.Pos); err == nil {
		cs.Locs1, err = matches(s, cs, 1)
	}
	if err != nil {
		cs.Err = err.Error()
		id := c.CaseNoModel(cs, "")
		c.PredFail(id, "valid-pattern-rejected", "REGEXP_INSTR failed while enumerating matches: "+err.Error(), cs)
		return
	}

	ascii := isASCII(cs.Subj) && isASCII(cs.Repl)
	key := fmt.Sprintf("%q|%q|%d|%d|%s", cs.Pat, cs.Subj, cs.Pos, cs.Occ, cs.MT)
	if len(cs.Locs1) == 0 {
		key = ""
		c.Count("no_match")
	} else {
		c.Count(fmt.Sprintf("matches_%d", len(cs.LocsPos)))
	}
	var id int
	if ascii {
		sub := "None"
		if cs.Substr != nil {
			sub = "(Some " + lib.CoqStr(*cs.Substr) + ")"
		}
		ast := "None"
		if cs.MT == "" || cs.MT == "c" {
			if t := coqPattern(cs.Pat); t != "" {
				ast = "(Some " + t + ")"
				c.Count("reference_matcher_compared")
			}
		}
		term := fmt.Sprintf("(mkCase %s %s %d %d %s %s %s %d %d %s %s %s %s)", lib.CoqStr(cs.Subj), lib.CoqStr(cs.Repl), cs.Pos, cs.Occ,
			coqLocs(cs.Locs1), coqLocs(cs.LocsPos), lib.CoqBool(like), cs.Instr0, cs.Instr1, sub, lib.CoqStr(cs.ReplK), lib.CoqStr(cs.Repl0), ast)
		id = c.Case(term, cs, key)
	} else {
		c.Count("non_ascii_subject")
		id = c.CaseNoModel(cs, key)
	}

	// ----- agreement laws on the implementation results (units = runes; all generated runes are in the BMP) -----
	u := []rune(cs.Subj)
	fail := func(sig, what string) {
		c.PredFail(id, sig, fmt.Sprintf("pattern %q subject %q pos %d occ %d match_type %q: %s", cs.Pat, cs.Subj, cs.Pos, cs.Occ, cs.MT, what), cs)
	}
	first := 0
	if len(cs.Locs1) > 0 {
		first = cs.Locs1[0][0] + 1
	}
	if like != (first > 0) {
		fail("like-vs-instr", fmt.Sprintf("REGEXP_LIKE = %v but REGEXP_INSTR(...,1,1) = %d", like, first))
		return
	}
	if (cs.Instr0 > 0) != (cs.Substr != nil) {
		fail("instr-vs-substr", fmt.Sprintf("REGEXP_INSTR = %d but REGEXP_SUBSTR null = %v", cs.Instr0, cs.Substr == nil))
		return
	}
	inRange := func(a, b int) bool { return 1 <= a && a <= b && b <= len(u)+1 }
	if cs.Instr0 > 0 {
		if !inRange(cs.Instr0, cs.Instr1) {
			fail("instr-out-of-range", fmt.Sprintf("REGEXP_INSTR start %d end %d outside the subject", cs.Instr0, cs.Instr1))
			return
		}
		if string(u[cs.Instr0-1:cs.Instr1-1]) != *cs.Substr {
			fail("substr-not-at-instr", fmt.Sprintf("REGEXP_SUBSTR = %q but the subject holds %q at [%d,%d)", *cs.Substr, string(u[cs.Instr0-1:cs.Instr1-1]), cs.Instr0, cs.Instr1))
			return
		}
		if want := string(u[:cs.Instr0-1]) + cs.Repl + string(u[cs.Instr1-1:]); want != cs.ReplK {
			if cs.Subj == "" && cs.ReplK == "" && cs.Instr0 == 1 && cs.Instr1 == 1 {
				fail("replace-ignores-empty-match-in-empty-subject", fmt.Sprintf("REGEXP_INSTR = 1 and REGEXP_SUBSTR = '' (an empty match) but REGEXP_REPLACE = '' instead of %q", want))
				return
			}
			fail("replace-kth-not-at-instr", fmt.Sprintf("REGEXP_REPLACE(occurrence %d) = %q, the span reported by REGEXP_INSTR gives %q", cs.Occ, cs.ReplK, want))
			return
		}
	} else if cs.ReplK != cs.Subj {
		fail("replace-without-match", fmt.Sprintf("no occurrence %d but REGEXP_REPLACE = %q", cs.Occ, cs.ReplK))
		return
	}
	// all occurrences: gaps verbatim, every reported match replaced
	okLocs := true
	var sb strings.Builder
	sb.WriteString(string(u[:cs.Pos-1]))
	p := cs.Pos - 1
	for _, m := range cs.LocsPos {
		a, b := m[0]+cs.Pos-1, m[1]+cs.Pos-1
		if a < p || b < a || b > len(u) {
			okLocs = false
			break
		}
		sb.WriteString(string(u[p:a]))
		sb.WriteString(cs.Repl)
		p = b
	}
	if !okLocs {
		fail("matches-not-ascending", fmt.Sprintf("successive REGEXP_INSTR results %v are not ascending / non-overlapping / in range", cs.LocsPos))
		return
	}
	sb.WriteString(string(u[p:]))
	if sb.String() != cs.Repl0 {
		if cs.Subj == "" && cs.Repl0 == "" && len(cs.LocsPos) == 1 && cs.LocsPos[0] == [2]int{0, 0} {
			fail("replace-ignores-empty-match-in-empty-subject", fmt.Sprintf("REGEXP_INSTR reports the empty match at 1 but REGEXP_REPLACE(all) = '' instead of %q", sb.String()))
			return
		}
		fail("replace-all-not-the-reported-matches", fmt.Sprintf("REGEXP_REPLACE(all) = %q, replacing the matches %v reported by REGEXP_INSTR gives %q", cs.Repl0, cs.LocsPos, sb.String()))
		return
	}
	// occurrence consistency: REGEXP_INSTR(pos, occ) is the occ-th reported match
	if cs.Occ <= len(cs.LocsPos) {
		m := cs.LocsPos[cs.Occ-1]
		if m[0]+cs.Pos != cs.Instr0 || m[1]+cs.Pos != cs.Instr1 {
			fail("occurrence-inconsistent", fmt.Sprintf("REGEXP_INSTR = [%d,%d) but match list %v", cs.Instr0, cs.Instr1, cs.LocsPos))
			return
		}
	} else if cs.Instr0 != 0 {
		fail("occurrence-inconsistent", fmt.Sprintf("REGEXP_INSTR = %d but only %d matches", cs.Instr0, len(cs.LocsPos)))
		return
	}

	// ----- reference engine on the common subset -----
	flags := ""
	if cs.MT == "i" {
		flags = "(?i)"
	}
	re, rerr := regexp.Compile(flags + cs.Pat)
	if rerr != nil {
		c.Count("reference_rejects_pattern")
		return
	}
	if !isASCII(cs.Subj) {
		c.Count("reference_skipped_non_ascii_subject") // ICU's \\w \\d \\s and case folding are Unicode-aware, Go's are ASCII
		return
	}
	if re.MatchString("") {
		c.Count("reference_skipped_empty_matching_pattern")
		return
	}
	if nullableLoopBody(cs.Pat) {
		// (x*|y)* and the like: backtracking engines (ICU, Perl) end the loop at the first empty iteration, RE2/Go
		// explores further alternatives; both are legal readings, so such patterns are outside the common subset
		c.Count("reference_skipped_nullable_loop_body")
		return
	}
	if cs.Pos > 1 && strings.ContainsAny(cs.Pat, "^$") {
		c.Count("reference_skipped_anchor_with_position")
		return
	}
	c.Count("reference_compared")
	tail := string(u[cs.Pos-1:])
	var ref [][2]int
	for _, m := range re.FindAllStringIndex(tail, -1) {
		ref = append(ref, [2]int{len([]rune(tail[:m[0]])), len([]rune(tail[:m[1]]))})
	}
	if fmt.Sprint(ref) != fmt.Sprint(cs.LocsPos) {
		fail("matches-differ-from-reference", fmt.Sprintf("matches %v, Go regexp finds %v", cs.LocsPos, ref))
	}
}

// ---------- pattern -> Coq AST for the reference matcher (layer 2) ----------

type reParser struct {
	s   string
	i   int
	err bool
}

func coqSeq(a, b string) string {
	if a == "Eps" {
		return b
	}
	if b == "Eps" {
		return a
	}
	return "(Seq " + a + " " + b + ")"
}

func (p *reParser) alt() string {
	l := p.seq()
	for p.i < len(p.s) && p.s[p.i] == '|' {
		p.i++
		r := p.seq()
		l = "(Alt " + l + " " + r + ")"
	}
	return l
}

func (p *reParser) seq() string {
	out := "Eps"
	var parts []string
	for p.i < len(p.s) && p.s[p.i] != '|' && p.s[p.i] != ')' {
		parts = append(parts, p.piece())
		if p.err {
			return "Eps"
		}
	}
	for k := len(parts) - 1; k >= 0; k-- {
		out = coqSeq(parts[k], out)
	}
	return out
}

func rep(a string, n int) string {
	out := "Eps"
	for k := 0; k < n; k++ {
		out = coqSeq(a, out)
	}
	return out
}

func (p *reParser) piece() string {
	a := p.atom()
	if p.err || p.i >= len(p.s) {
		return a
	}
	switch p.s[p.i] {
	case '*':
		p.i++
		return "(Star " + a + ")"
	case '+':
		p.i++
		return "(Plus " + a + ")"
	case '?':
		p.i++
		return "(Opt " + a + ")"
	case '{':
		j := strings.IndexByte(p.s[p.i:], '}')
		if j < 0 {
			p.err = true
			return a
		}
		body := p.s[p.i+1 : p.i+j]
		p.i += j + 1
		var lo, hi int
		switch {
		case strings.HasSuffix(body, ","):
			if _, e := fmt.Sscanf(body, "%d,", &lo); e != nil {
				p.err = true
				return a
			}
			return coqSeq(rep(a, lo), "(Star "+a+")")
		case strings.Contains(body, ","):
			if _, e := fmt.Sscanf(body, "%d,%d", &lo, &hi); e != nil || hi < lo {
				p.err = true
				return a
			}
			opt := "Eps"
			for k := 0; k < hi-lo; k++ {
				opt = "(Opt " + coqSeq(a, opt) + ")"
			}
			return coqSeq(rep(a, lo), opt)
		default:
			if _, e := fmt.Sscanf(body, "%d", &lo); e != nil {
				p.err = true
				return a
			}
			return rep(a, lo)
		}
	}
	return a
}

func (p *reParser) atom() string {
	ch := p.s[p.i]
	switch ch {
	case '(':
		p.i++
		r := p.alt()
		if p.i >= len(p.s) || p.s[p.i] != ')' {
			p.err = true
			return "Eps"
		}
		p.i++
		return r
	case '.':
		p.i++
		return "Any"
	case '^':
		p.i++
		return "Bol"
	case '$':
		p.i++
		return "Eol"
	case '\\':
		if p.i+1 >= len(p.s) {
			p.err = true
			return "Eps"
		}
		p.i += 2
		switch p.s[p.i-1] {
		case 'd':
			return "(Cls false [(48, 57)])"
		case 'w':
			return "(Cls false [(48, 57); (65, 90); (95, 95); (97, 122)])"
		case 's':
			return "(Cls false [(9, 13); (32, 32)])"
		}
		p.err = true
		return "Eps"
	case '[':
		j := strings.IndexByte(p.s[p.i:], ']')
		if j < 0 {
			p.err = true
			return "Eps"
		}
		body := p.s[p.i+1 : p.i+j]
		p.i += j + 1
		neg := "false"
		if strings.HasPrefix(body, "^") {
			neg = "true"
			body = body[1:]
		}
		var rs []string
		for k := 0; k < len(body); k++ {
			if body[k] == '\\' || body[k] == '[' {
				p.err = true
				return "Eps"
			}
			if k+2 < len(body) && body[k+1] == '-' {
				rs = append(rs, fmt.Sprintf("(%d, %d)", body[k], body[k+2]))
				k += 2
			} else {
				rs = append(rs, fmt.Sprintf("(%d, %d)", body[k], body[k]))
			}
		}
		return "(Cls " + neg + " " + lib.CoqList(rs) + ")"
	case '*', '+', '?', '{', '}', ')', '|', ']':
		p.err = true
		return "Eps"
	}
	if ch >= 0x80 {
		p.err = true
		return "Eps"
	}
	p.i++
	return fmt.Sprintf("(Chr %d)", ch)
}

// coqPattern returns the Coq term of the pattern, or "" when it is outside the subset of the reference matcher.
func coqPattern(pat string) string {
	if pat == "" || nullableLoopBody(pat) {
		return ""
	}
	p := &reParser{s: pat}
	r := p.alt()
	if p.err || p.i != len(pat) {
		return ""
	}
	return r
}

// ---------- table-driven evaluation: arguments in columns / uncorrelated subqueries, several rows per query ----------

type groupT struct {
	Rows  []caseT `json:"rows"`
	Query string  `json:"query"`
	Shape string  `json:"shape"`
	Row   int     `json:"row_index"`
	Got   string  `json:"table_result"`
	Want  string  `json:"literal_result"`
	Lit   string  `json:"literal_statement"`
}

func swapCase(s string) string {
	b := []byte(s)
	for i, ch := range b {
		switch {
		case ch >= 'a' && ch <= 'z':
			b[i] = ch - 32
		case ch >= 'A' && ch <= 'Z':
			b[i] = ch + 32
		}
	}
	return string(b)
}

// genGroup: rows 0..2 share one pattern string (match types c, i, c; subjects differ in case), row 3 is independent.
func genGroup(r *lib.RNG) []caseT {
	var base caseT
	for try := 0; ; try++ {
		base = gen(r)
		if base.Bad || !isASCII(base.Subj) || len(base.Subj) < 2 {
			continue
		}
		// prefer a base whose result depends on the match type: matches as written, not with the case swapped
		re, err := regexp.Compile(base.Pat)
		if try > 60 || (err == nil && re.MatchString(base.Subj) && !re.MatchString(swapCase(base.Subj))) {
			break
		}
	}
	base.Pos, base.Occ = 1, 1
	if r.Bool() {
		base.Pos = r.Range(1, 2)
		base.Occ = r.Range(1, 2)
	}
	rows := make([]caseT, 4)
	for i := range rows {
		rows[i] = base
	}
	rows[0].MT, rows[1].MT, rows[2].MT = "c", "i", "c"
	if r.Bool() {
		rows[0].MT, rows[1].MT, rows[2].MT = "i", "c", "i"
	}
	rows[1].Subj = swapCase(base.Subj)
	if r.Chance(1, 5) {
		rows[1].Subj = base.Subj
	}
	rows[2].Subj = swapCase(base.Subj) + "ab"
	for {
		o := gen(r)
		if !o.Bad && isASCII(o.Subj) && len(o.Subj) >= 2 {
			o.Pos, o.Occ = base.Pos, base.Occ
			if o.MT == "" {
				o.MT = "c"
			}
			rows[3] = o
			break
		}
	}
	return rows
}

func cell(v interface{}) string { return eng.Val(v) }

// groupCheck evaluates the REGEXP functions over a table holding the rows (arguments in columns, or an uncorrelated
// scalar subquery as an argument) and compares every row with the same call written with literals.
func groupCheck(c *lib.Ctx, s *eng.S, rows []caseT) {
	s.MustExec("DELETE FROM rx", "DELETE FROM settings")
	for i, r := range rows {
		s.MustExec(fmt.Sprintf("INSERT INTO rx VALUES (%d, %s, %s, %s, %d, %d, %s)", i, q(r.Subj), q(r.Pat), q(r.MT), r.Pos, r.Occ, q(r.Repl)))
	}
	p0 := rows[0]
	s.MustExec(fmt.Sprintf("INSERT INTO settings VALUES (%d, %s, %s)", p0.Pos, q(p0.Pat), q(p0.MT)))
	type col struct {
		shape string
		tab   string                 // expression over rx
		lit   func(r caseT) string   // the same call with the row's values as literals
		rows  int                    // number of leading rows it applies to
	}
	P := q(p0.Pat)
	cols := []col{
		{"like/pattern+flags-columns", "REGEXP_LIKE(subj, pat, mt)", func(r caseT) string { return fmt.Sprintf("REGEXP_LIKE(%s, %s, %s)", q(r.Subj), q(r.Pat), q(r.MT)) }, 4},
		{"like/flags-column", "REGEXP_LIKE(subj, " + P + ", mt)", func(r caseT) string { return fmt.Sprintf("REGEXP_LIKE(%s, %s, %s)", q(r.Subj), P, q(r.MT)) }, 3},
		{"like/pattern-column", "REGEXP_LIKE(subj, pat, " + q(p0.MT) + ")", func(r caseT) string { return fmt.Sprintf("REGEXP_LIKE(%s, %s, %s)", q(r.Subj), q(r.Pat), q(p0.MT)) }, 4},
		{"instr/all-columns", "REGEXP_INSTR(subj, pat, pos, occ, 0, mt)", func(r caseT) string {
			return fmt.Sprintf("REGEXP_INSTR(%s, %s, %d, %d, 0, %s)", q(r.Subj), q(r.Pat), r.Pos, r.Occ, q(r.MT))
		}, 4},
		{"instr-end/all-columns", "REGEXP_INSTR(subj, pat, pos, occ, 1, mt)", func(r caseT) string {
			return fmt.Sprintf("REGEXP_INSTR(%s, %s, %d, %d, 1, %s)", q(r.Subj), q(r.Pat), r.Pos, r.Occ, q(r.MT))
		}, 4},
		{"substr/all-columns", "REGEXP_SUBSTR(subj, pat, pos, occ, mt)", func(r caseT) string {
			return fmt.Sprintf("REGEXP_SUBSTR(%s, %s, %d, %d, %s)", q(r.Subj), q(r.Pat), r.Pos, r.Occ, q(r.MT))
		}, 4},
		{"replace/all-columns", "REGEXP_REPLACE(subj, pat, repl, pos, occ, mt)", func(r caseT) string {
			return fmt.Sprintf("REGEXP_REPLACE(%s, %s, %s, %d, %d, %s)", q(r.Subj), q(r.Pat), q(r.Repl), r.Pos, r.Occ, q(r.MT))
		}, 4},
		{"instr/flags-column", "REGEXP_INSTR(subj, " + P + ", 1, 1, 0, mt)", func(r caseT) string { return fmt.Sprintf("REGEXP_INSTR(%s, %s, 1, 1, 0, %s)", q(r.Subj), P, q(r.MT)) }, 3},
		{"substr/flags-column", "REGEXP_SUBSTR(subj, " + P + ", 1, 1, mt)", func(r caseT) string { return fmt.Sprintf("REGEXP_SUBSTR(%s, %s, 1, 1, %s)", q(r.Subj), P, q(r.MT)) }, 3},
		{"instr/subquery-position", "REGEXP_INSTR(subj, " + P + ", (SELECT pos FROM settings))", func(r caseT) string { return fmt.Sprintf("REGEXP_INSTR(%s, %s, %d)", q(r.Subj), P, p0.Pos) }, 3},
		{"substr/subquery-position", "REGEXP_SUBSTR(subj, " + P + ", (SELECT pos FROM settings))", func(r caseT) string { return fmt.Sprintf("REGEXP_SUBSTR(%s, %s, %d)", q(r.Subj), P, p0.Pos) }, 3},
		{"replace/subquery-position", "REGEXP_REPLACE(subj, " + P + ", 'X', (SELECT pos FROM settings))", func(r caseT) string { return fmt.Sprintf("REGEXP_REPLACE(%s, %s, 'X', %d)", q(r.Subj), P, p0.Pos) }, 3},
		{"like/subquery-pattern", "REGEXP_LIKE(subj, (SELECT pat FROM settings))", func(r caseT) string { return fmt.Sprintf("REGEXP_LIKE(%s, %s)", q(r.Subj), P) }, 4},
		{"like/subquery-flags", "REGEXP_LIKE(subj, pat, (SELECT mt FROM settings))", func(r caseT) string { return fmt.Sprintf("REGEXP_LIKE(%s, %s, %s)", q(r.Subj), q(r.Pat), q(p0.MT)) }, 4},
		{"instr/subject-column-only", "REGEXP_INSTR(subj, " + P + ")", func(r caseT) string { return fmt.Sprintf("REGEXP_INSTR(%s, %s)", q(r.Subj), P) }, 3},
	}
	for _, cl := range cols {
		c.Count("table:" + cl.shape)
		c.PredChecked()
		query := fmt.Sprintf("SELECT id, %s FROM rx WHERE id < %d ORDER BY id", cl.tab, cl.rows)
		tr := s.Query(query)
		for i := 0; i < cl.rows; i++ {
			lit := "SELECT " + cl.lit(rows[i])
			lr := s.Query(lit)
			var got, want string
			switch {
			case tr.Err != nil:
				got = "error: " + tr.Err.Error()
			case i >= len(tr.Rows):
				got = "missing row"
			default:
				got = cell(tr.Rows[i][1])
			}
			if lr.Err != nil {
				want = "error: " + lr.Err.Error()
				if tr.Err != nil {
					continue // a failing row makes the whole table statement fail: nothing to compare
				}
			} else {
				want = cell(lr.Rows[0][0])
			}
			if tr.Err != nil && lr.Err == nil {
				// the table statement may fail because of ANOTHER row; only report if no row fails literally
				anyLitErr := false
				for j := 0; j < cl.rows; j++ {
					if s.Query("SELECT "+cl.lit(rows[j])).Err != nil {
						anyLitErr = true
					}
				}
				if anyLitErr {
					break
				}
			}
			if got != want {
				g := groupT{Rows: rows, Query: query, Shape: cl.shape, Row: i, Got: got, Want: want, Lit: lit}
				id := c.CaseNoModel(g, "")
				c.PredFail(id, "row-evaluation-differs/"+cl.shape, fmt.Sprintf("%s over rows %v: row %d gives %s, but %s gives %s",
					query, rowsBrief(rows[:cl.rows]), i, got, lit, want), g)
				break
			}
		}
	}
}

func rowsBrief(rows []caseT) []string {
	out := make([]string, len(rows))
	for i, r := range rows {
		out[i] = fmt.Sprintf("(%q,%q,%q,%d,%d)", r.Subj, r.Pat, r.MT, r.Pos, r.Occ)
	}
	return out
}

// nullableLoopBody reports whether the (generated, escape-free for parentheses) pattern contains a group that is
// repeated by * + or {m,n} and whose body can match the empty string.
func nullableLoopBody(pat string) bool {
	for i := 0; i < len(pat); i++ {
		if pat[i] != '(' {
			continue
		}
		depth, j := 0, i
		for ; j < len(pat); j++ {
			if pat[j] == '(' {
				depth++
			} else if pat[j] == ')' {
				depth--
				if depth == 0 {
					break
				}
			}
		}
		if j >= len(pat)-1 {
			continue
		}
		if q := pat[j+1]; q != '*' && q != '+' && q != '{' {
			continue
		}
		body, err := regexp.Compile("^(?:" + pat[i+1:j] + ")$")
		if err == nil && body.MatchString("") {
			return true
		}
	}
	return false
}

func main() {
	lib.Main("C33", func(c *lib.Ctx) {
		c.Header = "From Coq Require Import List NArith.\nImport ListNotations.\nFrom GMS Require Import Sys.C33Matcher Corr.C33.\nOpen Scope N_scope."
		c.CaseType = "C33.case"
		c.MismatchFn = "C33.mismatches"
		c.SetRule("patterns from the common RE2/ICU subset (literals, '.', classes, \\d \\w \\s, groups, alternation, * + ? {m,n}, 1/12 ^ and $), " +
			"1/25 invalid patterns; subjects of 0-10 symbols over {a,b,c,1,space,A,B} (1/6 with non-ASCII BMP symbols, checked by the predicate only); " +
			"position 1 or random inside the subject; occurrence 1-4; match type none/c/i; replacement from a small pool. " +
			"Non-trivial = the pattern matches somewhere; distinct = distinct (pattern, subject, pos, occ, match type).")
		e := eng.New("db")
		s := e.Session()
		s.MustExec("CREATE TABLE rx (id INT PRIMARY KEY, subj VARCHAR(100), pat VARCHAR(100), mt VARCHAR(8), pos INT, occ INT, repl VARCHAR(20))",
			"CREATE TABLE settings (pos INT, pat VARCHAR(100), mt VARCHAR(8))")
		if c.ReplayFile != "" {
			var g groupT
			lib.LoadReplay(c.ReplayFile, &g)
			if len(g.Rows) > 0 {
				groupCheck(c, s, g.Rows)
				return
			}
			var cs caseT
			lib.LoadReplay(c.ReplayFile, &cs)
			run(c, s, cs)
			return
		}
		corpus := []caseT{
			{Pat: "ab", Subj: "xabyabab", Repl: "Z", Pos: 1, Occ: 2},
			{Pat: "a+", Subj: "baaac aa", Repl: "", Pos: 3, Occ: 1},
			{Pat: "[a-c]{2}", Subj: "abcabc", Repl: "--", Pos: 2, Occ: 2},
			{Pat: "b|ab", Subj: "abab", Repl: "X", Pos: 1, Occ: 1, MT: "i"},
			{Pat: "a", Subj: "AbA", Repl: "x", Pos: 1, Occ: 2, MT: "i"},
			{Pat: "a", Subj: "AbA", Repl: "x", Pos: 1, Occ: 1, MT: "c"},
			{Pat: "x", Subj: "", Repl: "y", Pos: 1, Occ: 1},
			{Pat: "a*", Subj: "", Repl: "X", Pos: 1, Occ: 1}, // finding: empty match in the empty subject
			{Pat: "a*", Subj: "baaac", Repl: "-", Pos: 1, Occ: 1},
			{Pat: "^a", Subj: "aab", Repl: "X", Pos: 2, Occ: 1},
			{Pat: "b", Subj: "éb日b", Repl: "X", Pos: 2, Occ: 2},
			{Pat: "(", Subj: "a", Repl: "X", Pos: 1, Occ: 1, Bad: true},
			{Pat: "a{2,1}", Subj: "aa", Repl: "X", Pos: 1, Occ: 1, Bad: true},
		}
		for _, cs := range corpus {
			run(c, s, cs)
		}
		fixedGroup := []caseT{
			{Pat: "[a-z]+", Subj: "abc DEF", Repl: "X", Pos: 1, Occ: 1, MT: "c"},
			{Pat: "[a-z]+", Subj: "ABC DEF", Repl: "X", Pos: 1, Occ: 1, MT: "i"},
			{Pat: "[a-z]+", Subj: "ABC defab", Repl: "X", Pos: 1, Occ: 1, MT: "c"},
			{Pat: "[0-9]+", Subj: "ab12 345", Repl: "Y", Pos: 1, Occ: 1, MT: "c"},
		}
		for _, cs := range fixedGroup {
			run(c, s, cs)
		}
		groupCheck(c, s, fixedGroup)
		for i := len(corpus) + len(fixedGroup); i < c.N; {
			r := c.R.Fork()
			if r.Chance(1, 12) {
				g := genGroup(r)
				for _, cs := range g {
					run(c, s, cs)
				}
				groupCheck(c, s, g)
				i += len(g)
				continue
			}
			run(c, s, gen(r))
			i++
		}
	})
}
