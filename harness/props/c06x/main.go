package main

import (
	"bufio"
	"fmt"
	"os"
	"strings"

	"github.com/dolthub/go-mysql-server/sql"
	"verifharness/lib/eng"
)

func main() {
	e := eng.New("db")
	s := e.Session()
	sc := bufio.NewScanner(os.Stdin)
	sc.Buffer(make([]byte, 1<<20), 1<<20)
	for sc.Scan() {
		q := strings.TrimSpace(sc.Text())
		if q == "" {
			continue
		}
		if strings.HasPrefix(q, "PLAN ") {
			ctx := s.Ctx
			n, err := e.Engine.AnalyzeQuery(ctx, q[5:])
			if err != nil {
				fmt.Println("PLAN ERR", err)
			} else {
				fmt.Println(sql.DebugString(ctx, n))
			}
			continue
		}
		r := s.Query(q)
		if strings.HasPrefix(q, "SELECT") || r.Err != nil {
			fmt.Println(q, "=>", eng.Rows(r.Rows), r.Err)
		}
	}
}
