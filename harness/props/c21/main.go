// Driver for C21 (schema changes preserve existing data).
//
// Generates tables (hidden key column id + 1-4 integer / varchar columns) with rows, then a sequence of ALTER TABLE
// statements (ADD / DROP / MODIFY / CHANGE / RENAME COLUMN with FIRST / AFTER, RENAME TO, ADD+DROP INDEX, and - for the
// implementation-side predicate only - ADD UNIQUE INDEX and cross-family MODIFY).  After every statement it records
// DESCRIBE and SELECT * for the Coq model (Corr/C21.v) and evaluates the property with an independent reference:
// the projection on the retained columns before the statement, converted by the reference rules when the column
// was re-typed, must equal the projection after it; a failed statement must leave contents and DESCRIBE unchanged;
// a statement must not succeed when the reference says a value is not representable.
package main

import (
	"fmt"
	"io"
	"math/big"
	"strconv"
	"strings"
	"time"

	"github.com/sirupsen/logrus"

	"verifharness/lib"
	"verifharness/lib/eng"
)

type ColT struct {
	ID   int      `json:"id"`             // column number; SQL name c<ID> (id for 0)
	Kind string   `json:"kind"`           // tinyint smallint int bigint (+ " unsigned") | varchar | enum | decimal | date | datetime
	N    int      `json:"n,omitempty"`    // varchar length / decimal precision
	S    int      `json:"s,omitempty"`    // decimal scale
	Coll int      `json:"coll,omitempty"` // varchar collation number (index into collations)
	Vals []string `json:"vals,omitempty"` // enum members
	Null bool     `json:"null"`
}

func (c ColT) isStr() bool  { return c.Kind == "varchar" || c.Kind == "enum" }
func (c ColT) isTime() bool { return c.Kind == "date" || c.Kind == "datetime" }
func (c ColT) isInt() bool  { _, ok := intRange[c.Kind]; return ok }
func (c ColT) family() string {
	switch {
	case c.isInt() || c.Kind == "decimal":
		return "num"
	case c.isTime():
		return "time"
	}
	return c.Kind
}

// collation 0 is the table default (utf8mb4_0900_bin)
var collations = []string{"utf8mb4_0900_bin", "utf8mb4_0900_ai_ci", "utf8mb4_general_ci", "utf8mb4_bin", "latin1_swedish_ci"}

func collID(name string) int {
	for i, c := range collations {
		if c == name {
			return i
		}
	}
	return -1
}

type Op struct {
	Kind  string   `json:"kind"`           // add drop modify rename renametable index addpk droppk uniq(nomodel) modifyx(nomodel)
	Keys  []int    `json:"keys,omitempty"` // addpk
	Col   *ColT    `json:"col,omitempty"`
	Name  int      `json:"name,omitempty"`
	To    int      `json:"to,omitempty"`
	Pos   string   `json:"pos,omitempty"` // "" keep/last, first, after
	After int      `json:"after,omitempty"`
	Fill  *string  `json:"fill,omitempty"` // value existing rows get (nil = NULL); ints in decimal, strings raw
	HasDf bool     `json:"hasdf,omitempty"`
	SQL   []string `json:"sql"`
}

type caseT struct {
	Cols []ColT      `json:"cols"`
	PK   bool        `json:"pk"` // PRIMARY KEY (id) at creation
	Rows [][]*string `json:"rows"`
	Ops  []Op        `json:"ops"`
}

func cname(id int) string {
	if id == 0 {
		return "id"
	}
	return fmt.Sprintf("c%d", id)
}
func tname(id int) string { return fmt.Sprintf("t%d", id) }

var intRange = map[string][2]string{
	"tinyint": {"-128", "127"}, "smallint": {"-32768", "32767"}, "int": {"-2147483648", "2147483647"},
	"bigint": {"-9223372036854775808", "9223372036854775807"}, "tinyint unsigned": {"0", "255"},
	"smallint unsigned": {"0", "65535"}, "int unsigned": {"0", "4294967295"}, "bigint unsigned": {"0", "18446744073709551615"},
}
var intKinds = []string{"tinyint", "smallint", "int", "bigint", "tinyint unsigned", "smallint unsigned", "int unsigned", "bigint unsigned"}

func (c ColT) sqlType() string {
	if c.Kind == "varchar" {
		if c.Coll != 0 {
			cl := collations[c.Coll]
			return fmt.Sprintf("varchar(%d) CHARACTER SET %s COLLATE %s", c.N, cl[:strings.Index(cl, "_")], cl)
		}
		return fmt.Sprintf("varchar(%d)", c.N)
	}
	if c.Kind == "decimal" {
		return fmt.Sprintf("decimal(%d,%d)", c.N, c.S)
	}
	if c.Kind == "enum" {
		return "enum('" + strings.Join(c.Vals, "','") + "')"
	}
	return c.Kind
}
func (c ColT) sqlDef() string {
	s := c.sqlType()
	if !c.Null {
		s += " NOT NULL"
	}
	return s
}
func (c ColT) coqTy() string {
	if c.Kind == "varchar" {
		return fmt.Sprintf("(TStr %d %d)", c.N, c.Coll)
	}
	if c.Kind == "decimal" {
		return fmt.Sprintf("(TDec %d %d)", c.N, c.S)
	}
	if c.Kind == "date" {
		return "TDate"
	}
	if c.Kind == "datetime" {
		return "TDatetime"
	}
	if c.Kind == "enum" {
		return "(TEnum " + lib.CoqListOf(c.Vals, lib.CoqStr) + ")"
	}
	r := intRange[c.Kind]
	return fmt.Sprintf("(TInt %s %s)", lib.CoqZStr(r[0]), lib.CoqZStr(r[1]))
}
func (c ColT) coq() string {
	return fmt.Sprintf("(mkc %d %s %s)", c.ID, c.coqTy(), lib.CoqBool(c.Null))
}

func coqVal(c ColT, v *string) string {
	if v == nil {
		return "VNull"
	}
	if c.isStr() {
		return "(VStr " + lib.CoqStr(*v) + ")"
	}
	if c.Kind == "decimal" {
		u, sc := decParse(*v)
		return fmt.Sprintf("(VDec %s %d)", lib.CoqZStr(u.String()), sc)
	}
	if c.isTime() {
		return "(VTime " + lib.CoqZStr(*v) + ")"
	}
	return "(VInt " + lib.CoqZStr(*v) + ")"
}

func sqlVal(c ColT, v *string) string {
	if v == nil {
		return "NULL"
	}
	if c.isStr() {
		return "'" + *v + "'"
	}
	if c.isTime() { // canonical value: seconds since the epoch
		sec, _ := strconv.ParseInt(*v, 10, 64)
		if c.Kind == "date" {
			return "'" + time.Unix(sec, 0).UTC().Format("2006-01-02") + "'"
		}
		return "'" + time.Unix(sec, 0).UTC().Format("2006-01-02 15:04:05") + "'"
	}
	return *v
}

// decParse: "-12.50" -> (-1250, 2)
func decParse(s string) (*big.Int, int) {
	sc := 0
	if i := strings.Index(s, "."); i >= 0 {
		sc = len(s) - i - 1
		s = s[:i] + s[i+1:]
	}
	u, ok := new(big.Int).SetString(s, 10)
	if !ok {
		u = big.NewInt(0)
	}
	return u, sc
}

// decFormat: (-1250, 2) -> "-12.50"
func decFormat(u *big.Int, sc int) string {
	neg := u.Sign() < 0
	d := new(big.Int).Abs(u).String()
	for len(d) <= sc {
		d = "0" + d
	}
	if sc > 0 {
		d = d[:len(d)-sc] + "." + d[len(d)-sc:]
	}
	if neg {
		d = "-" + d
	}
	return d
}

func pow10(n int) *big.Int { return new(big.Int).Exp(big.NewInt(10), big.NewInt(int64(n)), nil) }

// rescaleRef: u*10^-s0 at scale s, rounding half away from zero (the SQL rule)
func rescaleRef(u *big.Int, s0, s int) *big.Int {
	if s >= s0 {
		return new(big.Int).Mul(u, pow10(s-s0))
	}
	b := pow10(s0 - s)
	a := new(big.Int).Abs(u)
	q, r := new(big.Int).QuoRem(a, b, new(big.Int))
	if new(big.Int).Mul(r, big.NewInt(2)).Cmp(b) >= 0 {
		q.Add(q, big.NewInt(1))
	}
	if u.Sign() < 0 {
		q.Neg(q)
	}
	return q
}

// reference conversion: representable? (independent of the Coq model: big integers and string lengths)
func refConv(c ColT, v *string, from ColT) (string, bool, bool) { // value, isNull, ok
	if v == nil {
		return "", true, c.Null
	}
	if c.Kind == "enum" { // stored by member string: representable iff still a member
		for _, m := range c.Vals {
			if m == *v {
				return *v, false, from.Kind == "enum"
			}
		}
		return "", false, false
	}
	if from.Kind == "enum" {
		return "", false, false // enum -> other families is not generated
	}
	if c.isTime() {
		if !from.isTime() {
			return "", false, false
		}
		sec, _ := strconv.ParseInt(*v, 10, 64)
		if c.Kind == "date" { // the day is kept, the time of day dropped (SQL conversion rule)
			sec -= ((sec % 86400) + 86400) % 86400
		}
		return strconv.FormatInt(sec, 10), false, true
	}
	if from.isTime() {
		return "", false, false
	}
	if c.Kind == "decimal" && (from.isInt() || from.Kind == "decimal") {
		u, s0 := decParse(*v)
		u2 := rescaleRef(u, s0, c.S)
		return decFormat(u2, c.S), false, new(big.Int).Abs(u2).Cmp(pow10(c.N)) < 0
	}
	if c.isInt() && from.Kind == "decimal" {
		u, s0 := decParse(*v)
		if c.Kind == "bigint unsigned" && u.Sign() < 0 {
			return "", false, false // the engine rejects a negative decimal for BIGINT UNSIGNED even when it rounds to 0
		}
		z := rescaleRef(u, s0, 0)
		lo, _ := new(big.Int).SetString(intRange[c.Kind][0], 10)
		hi, _ := new(big.Int).SetString(intRange[c.Kind][1], 10)
		return z.String(), false, z.Cmp(lo) >= 0 && z.Cmp(hi) <= 0
	}
	if c.Kind == "decimal" || from.Kind == "decimal" {
		return "", false, false // decimal <-> text is not generated
	}
	if c.Kind == "varchar" {
		s := *v // numbers print in decimal
		return s, false, len(s) <= c.N
	}
	if from.Kind == "varchar" {
		z, ok := new(big.Int).SetString(strings.TrimSpace(*v), 10)
		if !ok {
			return "", false, false
		}
		lo, _ := new(big.Int).SetString(intRange[c.Kind][0], 10)
		hi, _ := new(big.Int).SetString(intRange[c.Kind][1], 10)
		return z.String(), false, z.Cmp(lo) >= 0 && z.Cmp(hi) <= 0
	}
	z, okz := new(big.Int).SetString(*v, 10)
	if !okz {
		return "", false, false
	}
	lo, _ := new(big.Int).SetString(intRange[c.Kind][0], 10)
	hi, _ := new(big.Int).SetString(intRange[c.Kind][1], 10)
	return *v, false, z.Cmp(lo) >= 0 && z.Cmp(hi) <= 0
}

func sp(s string) *string { return &s }

func genVal(r *lib.RNG, c ColT) *string {
	if c.Null && r.Chance(1, 5) {
		return nil
	}
	if c.Kind == "enum" {
		return sp(lib.Pick(r, c.Vals))
	}
	if c.Kind == "decimal" {
		max := pow10(c.N)
		var u *big.Int
		switch r.Intn(4) {
		case 0:
			u = new(big.Int).Sub(max, big.NewInt(1))
		case 1:
			u = big.NewInt(int64(r.Intn(2000)) - 1000)
		default:
			u = big.NewInt(int64(r.Intn(2000000)) - 1000000)
		}
		if new(big.Int).Abs(u).Cmp(max) >= 0 {
			u = new(big.Int).Sub(max, big.NewInt(1))
		}
		if r.Chance(1, 6) { // a ...5 last digit exercises half-way rounding
			u.Sub(u, new(big.Int).Mod(u, big.NewInt(10)))
			u.Add(u, big.NewInt(5))
			if new(big.Int).Abs(u).Cmp(max) >= 0 {
				u = big.NewInt(5)
			}
		}
		return sp(decFormat(u, c.S))
	}
	if c.isTime() {
		sec := int64(946684800) + int64(r.Intn(800000000)) // 2000-01-01 .. 2025
		if c.Kind == "date" || r.Chance(1, 3) {
			sec -= sec % 86400
		}
		if r.Chance(1, 8) {
			sec = sec - sec%86400 + 86399 // 23:59:59
			if c.Kind == "date" {
				sec -= 86399
			}
		}
		return sp(strconv.FormatInt(sec, 10))
	}
	if c.Kind == "varchar" {
		n := r.Intn(c.N + 1)
		if n > 6 {
			n = 6
		}
		var sb strings.Builder
		for i := 0; i < n; i++ {
			sb.WriteString(lib.Pick(r, []string{"a", "b", "Z", "7", " ", "-"}))
		}
		s := strings.TrimRight(sb.String(), " ")
		return sp(s)
	}
	lo, _ := new(big.Int).SetString(intRange[c.Kind][0], 10)
	hi, _ := new(big.Int).SetString(intRange[c.Kind][1], 10)
	var z *big.Int
	switch r.Intn(5) {
	case 0:
		z = lo
	case 1:
		z = hi
	case 2:
		z = big.NewInt(int64(r.Intn(300)) - 100)
	default:
		z = big.NewInt(int64(r.Intn(100000)) - 40000)
	}
	if z.Cmp(lo) < 0 {
		z = lo
	}
	if z.Cmp(hi) > 0 {
		z = hi
	}
	return sp(z.String())
}

var enumPool = []string{"a", "b", "c", "x", "yy", "Z", "q1", "m"}

func genEnumVals(r *lib.RNG) []string {
	n := r.Range(1, 4)
	perm := append([]string{}, enumPool...)
	for i := len(perm) - 1; i > 0; i-- {
		j := r.Intn(i + 1)
		perm[i], perm[j] = perm[j], perm[i]
	}
	return perm[:n]
}

// redefineEnum: reorder, insert new members before / among / after, or (sometimes) drop a member
func redefineEnum(r *lib.RNG, old []string) []string {
	vs := append([]string{}, old...)
	switch r.Intn(6) {
	case 0: // append only (no rewrite)
	case 1, 2: // reorder
		for i := len(vs) - 1; i > 0; i-- {
			j := r.Intn(i + 1)
			vs[i], vs[j] = vs[j], vs[i]
		}
		if len(vs) > 1 && strings.Join(vs, ",") == strings.Join(old, ",") {
			vs[0], vs[1] = vs[1], vs[0]
		}
	case 3: // drop one (fails if stored)
		if len(vs) > 1 {
			k := r.Intn(len(vs))
			vs = append(vs[:k:k], vs[k+1:]...)
		}
	}
	// insert 0-2 fresh members at random places
	for k := r.Intn(3); k > 0; k-- {
		var fresh string
		for _, c := range enumPool {
			used := false
			for _, v := range vs {
				if v == c {
					used = true
				}
			}
			if !used {
				fresh = c
				break
			}
		}
		if fresh == "" {
			break
		}
		at := r.Intn(len(vs) + 1)
		vs = append(vs[:at:at], append([]string{fresh}, vs[at:]...)...)
	}
	return vs
}

func genDecimal(r *lib.RNG) (int, int) {
	p := r.Range(1, 12)
	return p, r.Intn(p+1) % 7
}

func genCol(r *lib.RNG, id int) ColT {
	if r.Chance(1, 6) {
		return ColT{ID: id, Kind: "enum", Vals: genEnumVals(r), Null: r.Chance(2, 3)}
	}
	if r.Chance(1, 6) {
		p, sc := genDecimal(r)
		return ColT{ID: id, Kind: "decimal", N: p, S: sc, Null: r.Chance(2, 3)}
	}
	if r.Chance(1, 8) {
		return ColT{ID: id, Kind: lib.Pick(r, []string{"date", "datetime"}), Null: r.Chance(2, 3)}
	}
	if r.Chance(1, 3) {
		cl := 0
		if r.Chance(1, 4) {
			cl = r.Intn(len(collations))
		}
		return ColT{ID: id, Kind: "varchar", N: lib.Pick(r, []int{1, 3, 5, 10, 20}), Coll: cl, Null: r.Chance(2, 3)}
	}
	return ColT{ID: id, Kind: lib.Pick(r, intKinds), Null: r.Chance(2, 3)}
}

// ---------- reference state (Go side, independent of the Coq model) ----------

type state struct {
	tn   int
	cols []ColT
	pk   []int
	rows []map[int]*string
}

func (s *state) inPK(id int) bool {
	for _, k := range s.pk {
		if k == id {
			return true
		}
	}
	return false
}

// simplePK: no key or the key (id): rows are then visited in id order by a rewrite
func (s *state) simplePK() bool { return len(s.pk) == 0 || (len(s.pk) == 1 && s.pk[0] == 0) }

// apply is the generator's own reference for "does this statement succeed, and what are names/types afterwards"
// (so that later statements of the sequence are meaningful); order of columns is not tracked.
func (s *state) apply(o Op) bool {
	switch o.Kind {
	case "add":
		if s.find(o.Col.ID) >= 0 {
			return false
		}
		s.cols = append(s.cols, *o.Col)
		for _, r := range s.rows {
			r[o.Col.ID] = o.Fill
		}
	case "drop":
		i := s.find(o.Name)
		if i < 0 || s.inPK(o.Name) {
			return false
		}
		s.cols = append(s.cols[:i:i], s.cols[i+1:]...)
	case "modify":
		i := s.find(o.Name)
		if i < 0 || (o.Col.ID != o.Name && s.find(o.Col.ID) >= 0) {
			return false
		}
		nc := *o.Col
		if s.inPK(o.Name) {
			nc.Null = false
		}
		vals := make([]*string, len(s.rows))
		for k, r := range s.rows {
			v, isNull, ok := refConv(nc, r[o.Name], s.cols[i])
			if !ok {
				return false
			}
			if !isNull {
				vv := v
				vals[k] = &vv
			}
		}
		for k, r := range s.rows {
			delete(r, o.Name)
			r[o.Col.ID] = vals[k]
		}
		s.cols[i] = nc
		for k := range s.pk {
			if s.pk[k] == o.Name {
				s.pk[k] = o.Col.ID
			}
		}
	case "rename":
		i := s.find(o.Name)
		if i < 0 || s.find(o.To) >= 0 {
			return false
		}
		for _, r := range s.rows {
			r[o.To] = r[o.Name]
			delete(r, o.Name)
		}
		s.cols[i].ID = o.To
		for k := range s.pk {
			if s.pk[k] == o.Name {
				s.pk[k] = o.To
			}
		}
	case "addpk":
		if len(s.pk) > 0 {
			return false
		}
		seen := map[string]bool{}
		for _, r := range s.rows {
			key := ""
			for _, k := range o.Keys {
				if s.find(k) < 0 || r[k] == nil {
					return false
				}
				key += *r[k] + "\x00"
			}
			if seen[key] {
				return false
			}
			seen[key] = true
		}
		for _, k := range o.Keys {
			if i := s.find(k); i >= 0 {
				s.cols[i].Null = false
			} else {
				return false
			}
		}
		s.pk = append([]int{}, o.Keys...)
	case "droppk":
		if len(s.pk) == 0 {
			return false
		}
		s.pk = nil
	case "renametable":
		s.tn = o.To
	}
	return true
}

func (s *state) find(id int) int {
	for i, c := range s.cols {
		if c.ID == id {
			return i
		}
	}
	return -1
}

func gen(r *lib.RNG) caseT {
	var cs caseT
	cs.Cols = []ColT{{ID: 0, Kind: "int", Null: false}}
	n := r.Range(1, 4)
	next := 1
	for i := 0; i < n; i++ {
		cs.Cols = append(cs.Cols, genCol(r, next))
		next++
	}
	nrows := r.Intn(6)
	for i := 0; i < nrows; i++ {
		row := []*string{sp(strconv.Itoa(i + 1))}
		for _, c := range cs.Cols[1:] {
			row = append(row, genVal(r, c))
		}
		cs.Rows = append(cs.Rows, row)
	}
	cs.PK = r.Bool()
	st := &state{tn: 1, cols: append([]ColT{}, cs.Cols...)}
	if cs.PK {
		st.pk = []int{0}
	}
	for _, row := range cs.Rows {
		m := map[int]*string{}
		for i, c := range cs.Cols {
			m[c.ID] = row[i]
		}
		st.rows = append(st.rows, m)
	}
	nops := r.Range(1, 6)
	nextT := 2
	for k := 0; k < nops; k++ {
		t := tname(st.tn)
		pickCol := func() ColT { return st.cols[1+r.Intn(len(st.cols)-1)] }
		pos := func(o *Op, avoid int) string {
			switch r.Intn(4) {
			case 0:
				o.Pos = "first"
				return " FIRST"
			case 1:
				var cand []ColT
				for _, c := range st.cols {
					if c.ID != avoid {
						cand = append(cand, c)
					}
				}
				if len(cand) > 0 {
					a := lib.Pick(r, cand)
					o.Pos, o.After = "after", a.ID
					return " AFTER " + cname(a.ID)
				}
			}
			return ""
		}
		var o Op
		switch kind := r.Intn(17); {
		case kind == 14 || kind == 15: // add primary key
			var ks []int
			for _, c := range st.cols {
				if len(ks) < 2 && r.Chance(1, 2) {
					ks = append(ks, c.ID)
				}
			}
			if len(ks) == 0 {
				ks = []int{lib.Pick(r, st.cols).ID}
			}
			if r.Bool() && len(ks) == 2 {
				ks[0], ks[1] = ks[1], ks[0]
			}
			names := make([]string, len(ks))
			for i, k := range ks {
				names[i] = cname(k)
			}
			o = Op{Kind: "addpk", Keys: ks, SQL: []string{"ALTER TABLE " + t + " ADD PRIMARY KEY (" + strings.Join(names, ", ") + ")"}}
		case kind == 16:
			o = Op{Kind: "droppk", SQL: []string{"ALTER TABLE " + t + " DROP PRIMARY KEY"}}
		case kind <= 2 || len(st.cols) == 1: // add
			c := genCol(r, next)
			if r.Chance(1, 8) && len(st.cols) > 1 {
				c.ID = pickCol().ID // name clash: must fail
			} else {
				next++
			}
			o = Op{Kind: "add", Col: &c}
			def := ""
			// (an ENUM NOT NULL column added without DEFAULT is filled with the invalid index 0, read back as '': outside
			// the property - the filled value of a NEW column - and outside the model, so such columns always get a DEFAULT)
			needDef := !c.Null && (c.Kind == "enum" || c.Kind == "decimal" || c.isTime())
			if r.Bool() || needDef {
				v := genVal(r, c)
				for v == nil && needDef {
					v = genVal(r, c)
				}
				if v != nil {
					o.Fill, o.HasDf = v, true
					def = " DEFAULT " + sqlVal(c, v)
				}
			}
			if !o.HasDf && !c.Null { // zero value
				if c.Kind == "varchar" {
					o.Fill = sp("")
				} else if c.Kind == "enum" {
					o.Fill = sp(c.Vals[0])
				} else {
					o.Fill = sp("0")
				}
			}
			p := pos(&o, -1)
			o.SQL = []string{"ALTER TABLE " + t + " ADD COLUMN " + cname(c.ID) + " " + c.sqlDef() + def + p}
		case kind == 3: // drop
			c := pickCol()
			for tries := 0; st.inPK(c.ID) && tries < 5 && !r.Chance(1, 20); tries++ {
				c = pickCol() // dropping a key column is rare (the engine panics: known finding)
			}
			if r.Chance(1, 8) {
				c.ID = 90 + r.Intn(5) // missing column: must fail
			}
			o = Op{Kind: "drop", Name: c.ID, SQL: []string{"ALTER TABLE " + t + " DROP COLUMN " + cname(c.ID)}}
		case kind <= 7: // modify / change, same family
			c := pickCol()
			for tries := 0; c.Kind == "enum" && !st.simplePK() && tries < 5; tries++ {
				c = pickCol() // the order in which a rewrite visits rows is modelled only for no key / key (id)
			}
			if c.Kind == "enum" && !st.simplePK() {
				continue
			}
			nc := c
			switch c.family() {
			case "varchar":
				if r.Bool() {
					nc.N = lib.Pick(r, []int{1, 2, 3, 5, 10, 20, 30})
				}
				if r.Chance(1, 2) && !st.inPK(c.ID) { // collation change (not on key columns)
					nc.Coll = r.Intn(len(collations))
				}
			case "enum":
				nc.Vals = redefineEnum(r, c.Vals)
			case "time":
				nc.Kind = lib.Pick(r, []string{"date", "datetime"})
			default: // numbers: integer types and DECIMAL
				if r.Chance(1, 3) || (c.Kind == "decimal" && r.Bool()) {
					nc.Kind = "decimal"
					nc.N, nc.S = genDecimal(r)
				} else {
					nc.Kind, nc.N, nc.S = lib.Pick(r, intKinds), 0, 0
				}
			}
			nc.Null = r.Chance(2, 3)
			o = Op{Kind: "modify", Name: c.ID}
			verb := "MODIFY COLUMN " + cname(c.ID)
			if r.Chance(1, 3) {
				nc.ID = next
				next++
				verb = "CHANGE COLUMN " + cname(c.ID) + " " + cname(nc.ID)
			}
			o.Col = &nc
			p := pos(&o, c.ID)
			o.SQL = []string{"ALTER TABLE " + t + " " + verb + " " + nc.sqlDef() + p}
		case kind <= 9: // rename column
			c := pickCol()
			to := next
			if cand := pickCol().ID; r.Chance(1, 6) && cand != c.ID {
				to = cand // clash: must fail
			} else {
				next++
			}
			o = Op{Kind: "rename", Name: c.ID, To: to, SQL: []string{"ALTER TABLE " + t + " RENAME COLUMN " + cname(c.ID) + " TO " + cname(to)}}
		case kind == 10:
			o = Op{Kind: "renametable", To: nextT, SQL: []string{"ALTER TABLE " + t + " RENAME TO " + tname(nextT)}}
			nextT++
		case kind == 11:
			c := pickCol()
			o = Op{Kind: "index", SQL: []string{"ALTER TABLE " + t + " ADD INDEX ix (" + cname(c.ID) + ")", "ALTER TABLE " + t + " DROP INDEX ix"}}
		case kind == 12: // implementation-only: unique index (fails on duplicates, then no effect), then dropped again
			c := pickCol()
			o = Op{Kind: "uniq", Name: c.ID, SQL: []string{"ALTER TABLE " + t + " ADD UNIQUE INDEX ux (" + cname(c.ID) + ")"}}
		default: // implementation-only: cross-family MODIFY
			c := pickCol()
			nc := c
			if c.Kind == "enum" || c.Kind == "decimal" || c.isTime() {
				continue
			}
			if c.Kind == "varchar" {
				nc.Kind, nc.N, nc.Coll = lib.Pick(r, intKinds), 0, 0
			} else {
				nc.Kind, nc.N = "varchar", lib.Pick(r, []int{2, 5, 20})
			}
			o = Op{Kind: "modifyx", Name: c.ID, Col: &nc, SQL: []string{"ALTER TABLE " + t + " MODIFY COLUMN " + cname(c.ID) + " " + nc.sqlDef()}}
		}
		cs.Ops = append(cs.Ops, o)
		if o.Kind == "uniq" || o.Kind == "modifyx" {
			break // the model stream ends here (state afterwards is outside the model)
		}
		st.apply(o)
	}
	return cs
}

// ---------- observation ----------

type obsT struct {
	tn   int
	pk   []int
	cols []ColT
	rows [][]*string
	desc []string
	err  string
}

func parseType(s string) (string, int) {
	if strings.HasPrefix(s, "varchar(") {
		n := 0
		fmt.Sscanf(s, "varchar(%d)", &n)
		return "varchar", n
	}
	return s, 0
}

func colID(name string) int {
	if name == "id" {
		return 0
	}
	n, _ := strconv.Atoi(strings.TrimPrefix(name, "c"))
	return n
}

func observe(s *eng.S, tn int) obsT {
	o := obsT{tn: tn}
	// Field, Type, Collation, Null, Key, Default, Extra, Privileges, Comment
	d := s.Query("SHOW FULL COLUMNS FROM " + tname(tn))
	if d.Err != nil {
		o.err = "describe: " + d.Err.Error()
		return o
	}
	var sel []string
	for _, row := range d.Rows {
		ts := fmt.Sprint(row[1])
		k, n := parseType(ts)
		col := ColT{ID: colID(fmt.Sprint(row[0])), Kind: k, N: n, Null: fmt.Sprint(row[3]) == "YES"}
		if k == "varchar" {
			// the Type text carries the collation when it differs from the table's (the Collation column of SHOW FULL
			// COLUMNS reports the table collation for such columns, so it is not used)
			if i := strings.Index(ts, " COLLATE "); i >= 0 {
				col.Coll = collID(ts[i+len(" COLLATE "):])
			}
		}
		if strings.HasPrefix(ts, "decimal(") {
			col.Kind = "decimal"
			fmt.Sscanf(ts, "decimal(%d,%d)", &col.N, &col.S)
		}
		if fmt.Sprint(row[4]) == "PRI" {
			o.pk = append(o.pk, col.ID)
		}
		if strings.HasPrefix(ts, "enum('") {
			col.Kind = "enum"
			col.Vals = strings.Split(strings.TrimSuffix(strings.TrimPrefix(ts, "enum('"), "')"), "','")
			sel = append(sel, "CAST("+cname(col.ID)+" AS CHAR)") // read the member string, not the stored index
		} else {
			sel = append(sel, cname(col.ID))
		}
		o.cols = append(o.cols, col)
		o.desc = append(o.desc, fmt.Sprintf("%v|%v|%v|%v|%v|%v", row[0], row[1], row[2], row[3], row[4], row[5]))
	}
	q := s.Query("SELECT " + strings.Join(sel, ", ") + " FROM " + tname(tn) + " ORDER BY id")
	if q.Err != nil {
		o.err = "select: " + q.Err.Error()
		return o
	}
	for _, row := range q.Rows {
		var vs []*string
		for _, v := range row {
			if v == nil {
				vs = append(vs, nil)
			} else if tm, ok := v.(time.Time); ok {
				vs = append(vs, sp(strconv.FormatInt(tm.Unix(), 10))) // canonical temporal value: seconds since the epoch
			} else {
				str := fmt.Sprint(v)
				if strings.HasPrefix(str, "-0") && strings.Trim(str, "-0.") == "" {
					str = str[1:] // the engine prints a decimal rounded up to zero as -0.00: numerically zero
				}
				vs = append(vs, sp(str))
			}
		}
		o.rows = append(o.rows, vs)
	}
	return o
}

func (o obsT) coq() string {
	rows := lib.CoqListOf(o.rows, func(r []*string) string {
		items := make([]string, len(r))
		for i, v := range r {
			items[i] = lib.CoqTuple(strconv.Itoa(o.cols[i].ID), coqVal(o.cols[i], v))
		}
		return lib.CoqList(items)
	})
	return fmt.Sprintf("(mkt %d %s %s %s)", o.tn, lib.CoqListOf(o.cols, ColT.coq), lib.CoqListOf(o.pk, strconv.Itoa), rows)
}

func (o obsT) column(id int) ([]*string, bool) {
	for i, c := range o.cols {
		if c.ID == id {
			var out []*string
			for _, r := range o.rows {
				out = append(out, r[i])
			}
			return out, true
		}
	}
	return nil, false
}

func same(a, b *string) bool {
	if a == nil || b == nil {
		return a == b
	}
	return *a == *b
}

func show(v *string) string {
	if v == nil {
		return "NULL"
	}
	return strconv.Quote(*v)
}

func (o obsT) dump() string {
	var sb strings.Builder
	sb.WriteString(strings.Join(o.desc, ";"))
	for _, r := range o.rows {
		sb.WriteString("/")
		for _, v := range r {
			sb.WriteString(show(v) + ",")
		}
	}
	return sb.String()
}

func coqPos(o Op) string {
	switch o.Pos {
	case "first":
		return "PFirst"
	case "after":
		return fmt.Sprintf("(PAfter %d)", o.After)
	}
	return "PKeep"
}

func coqOp(o Op) string {
	switch o.Kind {
	case "add":
		p := coqPos(o)
		if p == "PKeep" {
			p = "PLast"
		}
		return fmt.Sprintf("(OAdd %s %s %s)", o.Col.coq(), coqVal(*o.Col, o.Fill), p)
	case "drop":
		return fmt.Sprintf("(ODrop %d)", o.Name)
	case "modify":
		return fmt.Sprintf("(OModify %d %s %s)", o.Name, o.Col.coq(), coqPos(o))
	case "rename":
		return fmt.Sprintf("(ORename %d %d)", o.Name, o.To)
	case "renametable":
		return fmt.Sprintf("(ORenameTable %d)", o.To)
	case "addpk":
		return "(OAddPK " + lib.CoqListOf(o.Keys, strconv.Itoa) + ")"
	case "droppk":
		return "ODropPK"
	}
	return "OIndex"
}

func run(c *lib.Ctx, cs caseT) {
	e := eng.New("db")
	s := e.Session()
	defs := make([]string, len(cs.Cols))
	for i, col := range cs.Cols {
		defs[i] = cname(col.ID) + " " + col.sqlDef()
	}
	if cs.PK {
		defs = append(defs, "PRIMARY KEY (id)")
	}
	s.MustExec("CREATE TABLE t1 (" + strings.Join(defs, ", ") + ")")
	for _, row := range cs.Rows {
		vals := make([]string, len(row))
		for i, v := range row {
			vals[i] = sqlVal(cs.Cols[i], v)
		}
		s.MustExec("INSERT INTO t1 VALUES (" + strings.Join(vals, ", ") + ")")
	}
	cur := observe(s, 1)
	init := cur
	var steps []string
	type fail struct{ sig, what string }
	var fails []fail
	modelOK := true
	enumDefect := false
	for _, o := range cs.Ops {
		var err error
		for _, q := range o.SQL {
			if r := s.Query(q); r.Err != nil {
				err = r.Err
				if r.Panic != "" {
					sig := o.Kind + "/panic"
					if o.Kind == "drop" && findInts(cur.pk, o.Name) {
						sig = "drop-primary-key-column-panics"
					}
					fails = append(fails, fail{sig, fmt.Sprintf("%q panicked: %s", o.SQL, r.Panic)})
				}
				break
			}
		}
		eff := ColT{}
		if o.Col != nil {
			eff = *o.Col
			if (o.Kind == "modify" || o.Kind == "modifyx") && findInts(cur.pk, o.Name) {
				eff.Null = false // a key column stays NOT NULL whatever the statement says
			}
		}
		tn := cur.tn
		if o.Kind == "renametable" && err == nil {
			tn = o.To
		}
		after := observe(s, tn)
		c.Count("op_" + o.Kind)
		if err != nil {
			c.Count("op_failed_" + o.Kind)
		}
		if after.err != "" {
			fails = append(fails, fail{o.Kind + "/table-unreadable", fmt.Sprintf("after %q the table cannot be read: %s", o.SQL, after.err)})
			modelOK = false
			break
		}
		// ----- the property on the implementation alone -----
		if err != nil {
			if after.dump() != cur.dump() {
				sig := o.Kind + "/failed-statement-changed-table"
				if i := findCol(cur.cols, o.Name); (o.Kind == "modify" || o.Kind == "modifyx") && i >= 0 && cur.cols[i].Kind == "enum" && o.Col.Kind == "enum" {
					sig = "enum-failed-redefinition-remapped-earlier-rows" // rows before the offending one were re-indexed in place
				}
				fails = append(fails, fail{sig,
					fmt.Sprintf("%q failed (%v) but the table changed: before %s, after %s", o.SQL, err, cur.dump(), after.dump())})
				if sig == "enum-failed-redefinition-remapped-earlier-rows" {
					enumDefect = true
				}
			}
		} else {
			if len(after.rows) != len(cur.rows) {
				fails = append(fails, fail{o.Kind + "/row-count-changed", fmt.Sprintf("%q changed the number of rows from %d to %d", o.SQL, len(cur.rows), len(after.rows))})
			} else {
				for _, oc := range cur.cols {
					newID, nc, retyped := oc.ID, oc, false
					switch o.Kind {
					case "drop":
						if oc.ID == o.Name {
							continue
						}
					case "modify", "modifyx":
						if oc.ID == o.Name {
							newID, nc, retyped = o.Col.ID, eff, true
						}
					case "rename":
						if oc.ID == o.Name {
							newID = o.To
						}
					}
					before, _ := cur.column(oc.ID)
					got, ok := after.column(newID)
					if !ok {
						fails = append(fails, fail{o.Kind + "/retained-column-missing", fmt.Sprintf("after %q column %s is gone", o.SQL, cname(newID))})
						continue
					}
					for i := range before {
						want := before[i]
						if retyped {
							v, isNull, okc := refConv(nc, before[i], oc)
							if !okc {
								sig := "/succeeded-although-not-representable"
								if before[i] != nil && strings.Trim(*before[i], " +-.") == "" {
									sig = "digitless-string-converted-to-number" // "", "-", "+", " ", "." become 0
								}
								if strings.HasPrefix(sig, "/") {
									sig = o.Kind + sig
								}
								fails = append(fails, fail{sig,
									fmt.Sprintf("%q succeeded although %s is not representable as %s", o.SQL, show(before[i]), nc.sqlDef())})
								break
							}
							if isNull {
								want = nil
							} else {
								want = &v
							}
						}
						if !same(want, got[i]) {
							fails = append(fails, fail{o.Kind + "/retained-value-changed",
								fmt.Sprintf("%q: column %s row %d was %s, expected %s afterwards, got %s", o.SQL, cname(oc.ID), i+1, show(before[i]), show(want), show(got[i]))})
							break
						}
					}
				}
				// DESCRIBE reflects the new schema: a column reported NOT NULL holds no NULL
				for ci, ac := range after.cols {
					if !ac.Null {
						for _, row := range after.rows {
							if row[ci] == nil {
								fails = append(fails, fail{o.Kind + "/null-stored-in-not-null-column",
									fmt.Sprintf("after %q column %s is NOT NULL in DESCRIBE but a row holds NULL", o.SQL, cname(ac.ID))})
								break
							}
						}
					}
				}
				switch o.Kind {
				case "add":
					if i := findCol(after.cols, o.Col.ID); i < 0 || after.cols[i].sqlDef() != o.Col.sqlDef() {
						fails = append(fails, fail{"add/describe-does-not-show-column", fmt.Sprintf("after %q DESCRIBE is %v", o.SQL, after.desc)})
					}
				case "addpk":
					if !sameSet(after.pk, o.Keys) {
						fails = append(fails, fail{"addpk/describe-does-not-show-key", fmt.Sprintf("after %q the PRI columns are %v", o.SQL, after.pk)})
					}
					seen := map[string]bool{}
					for ri := range cur.rows {
						key := ""
						for _, k := range o.Keys {
							col, _ := cur.column(k)
							if col == nil || col[ri] == nil {
								fails = append(fails, fail{"addpk/succeeded-with-null-key", fmt.Sprintf("%q succeeded although a key column holds NULL", o.SQL)})
								key = "?"
								break
							}
							key += *col[ri] + "\x00"
						}
						if seen[key] && key != "?" {
							fails = append(fails, fail{"addpk/succeeded-with-duplicate-key", fmt.Sprintf("%q succeeded although two rows have the same key", o.SQL)})
							break
						}
						seen[key] = true
					}
				case "droppk":
					if len(after.pk) != 0 {
						fails = append(fails, fail{"droppk/describe-still-shows-key", fmt.Sprintf("after %q the PRI columns are %v", o.SQL, after.pk)})
					}
				case "modify", "modifyx":
					if i := findCol(after.cols, o.Col.ID); i < 0 || after.cols[i].sqlDef() != eff.sqlDef() {
						fails = append(fails, fail{o.Kind + "/describe-does-not-show-new-definition", fmt.Sprintf("after %q DESCRIBE is %v", o.SQL, after.desc)})
					}
				case "drop":
					if findCol(after.cols, o.Name) >= 0 {
						fails = append(fails, fail{"drop/describe-still-shows-column", fmt.Sprintf("after %q DESCRIBE is %v", o.SQL, after.desc)})
					}
				case "rename":
					if findCol(after.cols, o.To) < 0 || (o.To != o.Name && findCol(after.cols, o.Name) >= 0) {
						fails = append(fails, fail{"rename/describe-does-not-show-new-name", fmt.Sprintf("after %q DESCRIBE is %v", o.SQL, after.desc)})
					}
				}
			}
		}
		if o.Kind == "uniq" || o.Kind == "modifyx" {
			break
		}
		if !(o.Kind == "index" && err != nil) { // OIndex carries no column: a rejected index statement is not a model step
			steps = append(steps, lib.CoqTuple(coqOp(o), lib.CoqTuple(lib.CoqBool(err == nil), after.coq())))
		}
		if enumDefect {
			break // the step itself is compared with the model ([corrupt]); afterwards the stored indexes are out of the model
		}
		cur = after
	}
	key := fmt.Sprint(cs.Ops)
	var id int
	if modelOK {
		id = c.Case(lib.CoqTuple(init.coq(), lib.CoqList(steps)), cs, key)
	} else {
		id = c.CaseNoModel(cs, key)
	}
	c.PredChecked()
	c.Count(fmt.Sprintf("rows_%d", len(cs.Rows)))
	for _, f := range fails {
		c.PredFail(id, f.sig, f.what, cs)
	}
}

func findInts(l []int, x int) bool {
	for _, y := range l {
		if y == x {
			return true
		}
	}
	return false
}

func sameSet(a, b []int) bool {
	if len(a) != len(b) {
		return false
	}
	for _, x := range a {
		if !findInts(b, x) {
			return false
		}
	}
	return true
}

func findCol(cols []ColT, id int) int {
	for i, c := range cols {
		if c.ID == id {
			return i
		}
	}
	return -1
}

func main() {
	logrus.SetOutput(io.Discard)
	lib.Main("C21", func(c *lib.Ctx) {
		c.Header = "From Coq Require Import List NArith ZArith.\nImport ListNotations.\nFrom GMS Require Import Store.C21Alter Corr.C21.\nOpen Scope N_scope."
		c.CaseType = "C21.case"
		c.MismatchFn = "C21.mismatches"
		c.SetRule("tables with a key column and 1-4 columns over 8 integer types and varchar(n), 0-5 rows with boundary values and NULLs, " +
			"then 1-6 ALTER TABLE statements (ADD / DROP / MODIFY / CHANGE / RENAME COLUMN with FIRST / AFTER, RENAME TO, ADD+DROP INDEX; " +
			"name clashes, missing columns, narrowing and NOT NULL changes that must fail included; ADD UNIQUE INDEX and number<->text MODIFY " +
			"for the implementation-side predicate only). Non-trivial = every case; distinct = distinct statement sequences.")
		if c.ReplayFile != "" {
			var cs caseT
			lib.LoadReplay(c.ReplayFile, &cs)
			run(c, cs)
			return
		}
		big5 := "5000000000"
		corpus := []caseT{
			{PK: true, Cols: []ColT{{ID: 0, Kind: "int"}, {ID: 1, Kind: "bigint", Null: true}, {ID: 2, Kind: "varchar", N: 10, Null: true}},
				Rows: [][]*string{{sp("1"), &big5, sp("hello")}, {sp("2"), sp("-3"), nil}},
				Ops: []Op{
					{Kind: "modify", Name: 1, Col: &ColT{ID: 1, Kind: "int", Null: true}, SQL: []string{"ALTER TABLE t1 MODIFY COLUMN c1 int"}},
					{Kind: "modify", Name: 2, Col: &ColT{ID: 2, Kind: "varchar", N: 3, Null: true}, SQL: []string{"ALTER TABLE t1 MODIFY COLUMN c2 varchar(3)"}},
					{Kind: "modify", Name: 2, Col: &ColT{ID: 5, Kind: "varchar", N: 20, Null: true}, Pos: "first", SQL: []string{"ALTER TABLE t1 CHANGE COLUMN c2 c5 varchar(20) FIRST"}},
					{Kind: "add", Col: &ColT{ID: 3, Kind: "int", Null: false}, Fill: sp("9"), HasDf: true, Pos: "after", After: 0, SQL: []string{"ALTER TABLE t1 ADD COLUMN c3 int NOT NULL DEFAULT 9 AFTER id"}},
					{Kind: "rename", Name: 1, To: 4, SQL: []string{"ALTER TABLE t1 RENAME COLUMN c1 TO c4"}},
					{Kind: "drop", Name: 3, SQL: []string{"ALTER TABLE t1 DROP COLUMN c3"}},
					{Kind: "renametable", To: 2, SQL: []string{"ALTER TABLE t1 RENAME TO t2"}},
					{Kind: "modify", Name: 4, Col: &ColT{ID: 4, Kind: "bigint", Null: false}, SQL: []string{"ALTER TABLE t2 MODIFY COLUMN c4 bigint NOT NULL"}},
				}},
		}
		corpus = append(corpus,
			// known finding: a failing ENUM redefinition re-indexes the rows visited before the failure
			caseT{PK: true, Cols: []ColT{{ID: 0, Kind: "int"}, {ID: 2, Kind: "enum", Vals: []string{"Z", "m"}, Null: true}},
				Rows: [][]*string{{sp("1"), sp("m")}, {sp("2"), sp("Z")}, {sp("3"), nil}, {sp("4"), sp("m")}},
				Ops: []Op{{Kind: "modify", Name: 2, Col: &ColT{ID: 2, Kind: "enum", Vals: []string{"m"}, Null: false}, Pos: "first",
					SQL: []string{"ALTER TABLE t1 MODIFY COLUMN c2 enum('m') NOT NULL FIRST"}}}},
			// ENUM redefinitions that keep all members: reorder, insert before / among
			caseT{PK: true, Cols: []ColT{{ID: 0, Kind: "int"}, {ID: 1, Kind: "enum", Vals: []string{"a", "b", "c"}, Null: true}},
				Rows: [][]*string{{sp("1"), sp("a")}, {sp("2"), sp("c")}, {sp("3"), nil}, {sp("4"), sp("b")}},
				Ops: []Op{
					{Kind: "modify", Name: 1, Col: &ColT{ID: 1, Kind: "enum", Vals: []string{"c", "a", "b"}, Null: true}, SQL: []string{"ALTER TABLE t1 MODIFY COLUMN c1 enum('c','a','b')"}},
					{Kind: "modify", Name: 1, Col: &ColT{ID: 1, Kind: "enum", Vals: []string{"x", "c", "m", "a", "b"}, Null: true}, SQL: []string{"ALTER TABLE t1 MODIFY COLUMN c1 enum('x','c','m','a','b')"}},
					{Kind: "modify", Name: 1, Col: &ColT{ID: 1, Kind: "enum", Vals: []string{"x", "c", "m", "a", "b", "q1"}, Null: true}, SQL: []string{"ALTER TABLE t1 MODIFY COLUMN c1 enum('x','c','m','a','b','q1')"}},
				}},
			// narrowing with out-of-range stored values on the rewrite path (NULL -> NOT NULL, FIRST / AFTER): must fail without effect
			caseT{PK: true, Cols: []ColT{{ID: 0, Kind: "int"}, {ID: 1, Kind: "smallint", Null: true}, {ID: 2, Kind: "int", Null: true}},
				Rows: [][]*string{{sp("1"), sp("300"), sp("-200")}, {sp("2"), sp("5"), sp("70000")}},
				Ops: []Op{
					{Kind: "modify", Name: 1, Col: &ColT{ID: 1, Kind: "tinyint", Null: false}, SQL: []string{"ALTER TABLE t1 MODIFY COLUMN c1 tinyint NOT NULL"}},
					{Kind: "modify", Name: 1, Col: &ColT{ID: 1, Kind: "tinyint", Null: true}, Pos: "first", SQL: []string{"ALTER TABLE t1 MODIFY COLUMN c1 tinyint FIRST"}},
					{Kind: "modify", Name: 2, Col: &ColT{ID: 2, Kind: "smallint unsigned", Null: false}, SQL: []string{"ALTER TABLE t1 MODIFY COLUMN c2 smallint unsigned NOT NULL"}},
					{Kind: "modify", Name: 2, Col: &ColT{ID: 2, Kind: "smallint unsigned", Null: true}, Pos: "after", After: 0, SQL: []string{"ALTER TABLE t1 MODIFY COLUMN c2 smallint unsigned AFTER id"}},
					{Kind: "modify", Name: 2, Col: &ColT{ID: 2, Kind: "bigint", Null: false}, Pos: "first", SQL: []string{"ALTER TABLE t1 MODIFY COLUMN c2 bigint NOT NULL FIRST"}},
				}},
			// nullable -> NOT NULL over rows holding NULL must fail (no silent zero fill)
			caseT{PK: true, Cols: []ColT{{ID: 0, Kind: "int"}, {ID: 1, Kind: "int", Null: true}, {ID: 2, Kind: "varchar", N: 5, Null: true}},
				Rows: [][]*string{{sp("1"), nil, sp("x")}, {sp("2"), sp("4"), nil}},
				Ops: []Op{
					{Kind: "modify", Name: 1, Col: &ColT{ID: 1, Kind: "int", Null: false}, SQL: []string{"ALTER TABLE t1 MODIFY COLUMN c1 int NOT NULL"}},
					{Kind: "modify", Name: 2, Col: &ColT{ID: 2, Kind: "varchar", N: 5, Null: false}, SQL: []string{"ALTER TABLE t1 MODIFY COLUMN c2 varchar(5) NOT NULL"}},
					{Kind: "add", Col: &ColT{ID: 3, Kind: "int", Null: false}, Fill: sp("0"), SQL: []string{"ALTER TABLE t1 ADD COLUMN c3 int NOT NULL"}},
					{Kind: "add", Col: &ColT{ID: 4, Kind: "varchar", N: 3, Null: false}, Fill: sp(""), Pos: "first", SQL: []string{"ALTER TABLE t1 ADD COLUMN c4 varchar(3) NOT NULL FIRST"}},
				}},
		)
		corpus = append(corpus,
			// primary keys: NULL / duplicate keys make ADD PRIMARY KEY fail, a second key fails, DROP keeps NOT NULL
			caseT{PK: false, Cols: []ColT{{ID: 0, Kind: "int"}, {ID: 1, Kind: "int", Null: true}, {ID: 2, Kind: "varchar", N: 5, Null: true}, {ID: 3, Kind: "int", Null: true}},
				Rows: [][]*string{{sp("1"), sp("5"), sp("a"), sp("1")}, {sp("2"), nil, sp("b"), sp("1")}, {sp("3"), sp("7"), sp("a"), sp("2")}},
				Ops: []Op{
					{Kind: "addpk", Keys: []int{1}, SQL: []string{"ALTER TABLE t1 ADD PRIMARY KEY (c1)"}},
					{Kind: "addpk", Keys: []int{3}, SQL: []string{"ALTER TABLE t1 ADD PRIMARY KEY (c3)"}},
					{Kind: "addpk", Keys: []int{3, 2}, SQL: []string{"ALTER TABLE t1 ADD PRIMARY KEY (c3, c2)"}},
					{Kind: "addpk", Keys: []int{0}, SQL: []string{"ALTER TABLE t1 ADD PRIMARY KEY (id)"}},
					{Kind: "modify", Name: 3, Col: &ColT{ID: 3, Kind: "bigint", Null: true}, SQL: []string{"ALTER TABLE t1 MODIFY COLUMN c3 bigint"}},
					{Kind: "rename", Name: 3, To: 9, SQL: []string{"ALTER TABLE t1 RENAME COLUMN c3 TO c9"}},
					{Kind: "droppk", SQL: []string{"ALTER TABLE t1 DROP PRIMARY KEY"}},
					{Kind: "droppk", SQL: []string{"ALTER TABLE t1 DROP PRIMARY KEY"}},
				}},
			// known finding: DROP COLUMN of a key column panics
			caseT{PK: false, Cols: []ColT{{ID: 0, Kind: "int"}, {ID: 1, Kind: "int", Null: false}},
				Rows: [][]*string{{sp("1"), sp("5")}},
				Ops: []Op{
					{Kind: "addpk", Keys: []int{1}, SQL: []string{"ALTER TABLE t1 ADD PRIMARY KEY (c1)"}},
					{Kind: "drop", Name: 1, SQL: []string{"ALTER TABLE t1 DROP COLUMN c1"}},
				}},
			// decimal / temporal / collation conversions
			caseT{PK: true, Cols: []ColT{{ID: 0, Kind: "int"}, {ID: 1, Kind: "decimal", N: 6, S: 2, Null: true}, {ID: 2, Kind: "int", Null: true},
				{ID: 3, Kind: "date", Null: true}, {ID: 4, Kind: "datetime", Null: true}, {ID: 5, Kind: "varchar", N: 5, Null: true}},
				Rows: [][]*string{{sp("1"), sp("1234.56"), sp("99999"), sp("1582934400"), sp("1614834367"), sp("ab")},
					{sp("2"), sp("-0.05"), sp("-7"), sp("946598400"), sp("946684800"), sp("Z")}, {sp("3"), nil, nil, nil, nil, nil}},
				Ops: []Op{
					{Kind: "modify", Name: 1, Col: &ColT{ID: 1, Kind: "decimal", N: 5, S: 1, Null: true}, SQL: []string{"ALTER TABLE t1 MODIFY COLUMN c1 decimal(5,1)"}},
					{Kind: "modify", Name: 1, Col: &ColT{ID: 1, Kind: "decimal", N: 4, S: 1, Null: true}, SQL: []string{"ALTER TABLE t1 MODIFY COLUMN c1 decimal(4,1)"}},
					{Kind: "modify", Name: 2, Col: &ColT{ID: 2, Kind: "decimal", N: 6, S: 1, Null: true}, SQL: []string{"ALTER TABLE t1 MODIFY COLUMN c2 decimal(6,1)"}},
					{Kind: "modify", Name: 2, Col: &ColT{ID: 2, Kind: "decimal", N: 7, S: 2, Null: true}, SQL: []string{"ALTER TABLE t1 MODIFY COLUMN c2 decimal(7,2)"}},
					{Kind: "modify", Name: 1, Col: &ColT{ID: 1, Kind: "smallint", Null: true}, SQL: []string{"ALTER TABLE t1 MODIFY COLUMN c1 smallint"}},
					{Kind: "modify", Name: 3, Col: &ColT{ID: 3, Kind: "datetime", Null: true}, SQL: []string{"ALTER TABLE t1 MODIFY COLUMN c3 datetime"}},
					{Kind: "modify", Name: 4, Col: &ColT{ID: 4, Kind: "date", Null: true}, SQL: []string{"ALTER TABLE t1 MODIFY COLUMN c4 date"}},
					{Kind: "modify", Name: 5, Col: &ColT{ID: 5, Kind: "varchar", N: 5, Coll: 1, Null: true}, SQL: []string{"ALTER TABLE t1 MODIFY COLUMN c5 varchar(5) CHARACTER SET utf8mb4 COLLATE utf8mb4_0900_ai_ci"}},
					{Kind: "modify", Name: 5, Col: &ColT{ID: 5, Kind: "varchar", N: 9, Coll: 4, Null: true}, SQL: []string{"ALTER TABLE t1 MODIFY COLUMN c5 varchar(9) CHARACTER SET latin1 COLLATE latin1_swedish_ci"}},
				}},
		)
		for _, cs := range corpus {
			run(c, cs)
		}
		for i := len(corpus); i < c.N; i++ {
			run(c, gen(c.R.Fork()))
		}
	})
}
