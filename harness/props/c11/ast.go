// C02 driver, part 1: the query AST shared by the SQL printer, the Coq printer, the reference interpreter
// and the generator.  It mirrors coq/Rel/C02Logical.v (expr / query) constructor by constructor.
package main

import (
	"encoding/json"
	"fmt"
	"strings"

	"verifharness/lib"
)

// Val is a literal / table cell: K = "null" | "int" | "dec" | "str".  A decimal is I * 10^-S.
type Val struct {
	K   string `json:"k"`
	I   int64  `json:"i,omitempty"`
	S   int    `json:"s,omitempty"`
	Str string `json:"str,omitempty"`
}

// Expr: Op = const | col | cmp | arith | and | or | not | isnull | in | exists | inq | scalar
type Expr struct {
	Op string  `json:"op"`
	V  *Val    `json:"v,omitempty"`
	D  int     `json:"d,omitempty"` // col: scope depth
	I  int     `json:"i,omitempty"` // col: position
	O  string  `json:"o,omitempty"` // cmp: = <> < <= > >= ; arith: + - *
	A  *Expr   `json:"a,omitempty"`
	B  *Expr   `json:"b,omitempty"`
	L  []*Expr `json:"l,omitempty"`
	Q  *Query  `json:"q,omitempty"`
	// not over in/inq/exists: print "a NOT IN (..)" / "NOT EXISTS" instead of "NOT (a IN (..))"
	NotSyntax bool `json:"notsyntax,omitempty"`
}

type Agg struct {
	F string `json:"f"` // count* count countd sum min max avg
	E *Expr  `json:"e"`
}

type OKey struct {
	I    int  `json:"i"`
	Desc bool `json:"desc,omitempty"`
}

// Query: K = table | join | select | group | setop | order
type Query struct {
	K  string `json:"k"`
	T  int    `json:"t,omitempty"`
	JK string `json:"jk,omitempty"` // inner left right cross
	L  *Query `json:"l,omitempty"`
	R  *Query `json:"r,omitempty"`
	On *Expr  `json:"on,omitempty"`

	Src  *Query  `json:"src,omitempty"`
	Wh   *Expr   `json:"wh,omitempty"`
	Proj []*Expr `json:"proj,omitempty"`
	Dist bool    `json:"dist,omitempty"`
	Keys []*Expr `json:"keys,omitempty"`
	Aggs []Agg   `json:"aggs,omitempty"`
	Hav  *Expr   `json:"hav,omitempty"`

	SOp string `json:"sop,omitempty"` // union intersect except
	All bool   `json:"all,omitempty"`

	Q      *Query `json:"q,omitempty"`
	OKeys  []OKey `json:"okeys,omitempty"`
	ByName bool   `json:"byname,omitempty"` // print ORDER BY c<i> instead of ORDER BY <i+1>
	HasLim bool   `json:"haslim,omitempty"`
	Lim    int    `json:"lim,omitempty"`
	Off    int    `json:"off,omitempty"`
}

type Table struct {
	Types []string `json:"types"` // int dec str
	Idx   []int    `json:"idx,omitempty"`
	PK    int      `json:"pk"` // -1: none
	Rows  [][]Val  `json:"rows"`
}

type Case struct {
	Tables  []Table `json:"tables"`
	Q       *Query  `json:"query"`
	Ordered bool    `json:"ordered"`
	SQL     string  `json:"sql,omitempty"`
	Setup   []string `json:"setup,omitempty"`
	Engine  []string `json:"engine,omitempty"`
	Ref     []string `json:"reference,omitempty"`
}

func cloneCase(c *Case) *Case {
	b, _ := json.Marshal(c)
	var d Case
	if err := json.Unmarshal(b, &d); err != nil {
		panic(err)
	}
	return &d
}

func null() *Val              { return &Val{K: "null"} }
func intv(i int64) *Val       { return &Val{K: "int", I: i} }
func konst(v *Val) *Expr      { return &Expr{Op: "const", V: v} }
func isTrueConst(e *Expr) bool { return e != nil && e.Op == "const" && e.V.K == "int" && e.V.I == 1 }

// ---------- SQL text ----------

func sqlVal(v *Val) string {
	switch v.K {
	case "null":
		return "NULL"
	case "int":
		if v.I < 0 {
			return fmt.Sprintf("(%d)", v.I)
		}
		return fmt.Sprintf("%d", v.I)
	case "dec":
		return decText(v.I, v.S, true)
	default:
		return "'" + strings.ReplaceAll(v.Str, "'", "''") + "'"
	}
}

func decText(m int64, s int, paren bool) string {
	neg := m < 0
	if neg {
		m = -m
	}
	d := fmt.Sprintf("%0*d", s+1, m)
	t := d[:len(d)-s] + "." + d[len(d)-s:]
	if s == 0 {
		t = d
	}
	if neg {
		t = "-" + t
		if paren {
			t = "(" + t + ")"
		}
	}
	return t
}

// printer state: fresh aliases; a scope is the list of SQL texts of the columns of one environment row
type printer struct {
	n     int
	flags map[string]bool // shapes only visible once names are assigned (see triggers.go)
}

// indexedNames: names of the indexed columns of the base tables of a FROM tree
func indexedNames(q *Query, tables []Table, acc map[string]bool) {
	if q == nil {
		return
	}
	switch q.K {
	case "table":
		if q.T < len(tables) {
			t := tables[q.T]
			if t.PK >= 0 {
				acc[fmt.Sprintf("c%d", t.PK)] = true
			}
			for _, i := range t.Idx {
				acc[fmt.Sprintf("c%d", i)] = true
			}
		}
	case "join":
		indexedNames(q.L, tables, acc)
		indexedNames(q.R, tables, acc)
	}
}

// outerNames: names (the part after the alias) of the outer columns a filter references directly
func outerNames(e *Expr, sc [][]string, acc map[string]bool) {
	if e == nil {
		return
	}
	if e.Op == "col" && e.D >= 1 && e.D < len(sc) && e.I < len(sc[e.D]) {
		t := sc[e.D][e.I]
		if i := strings.LastIndex(t, "."); i >= 0 && !strings.ContainsAny(t, "( ") {
			acc[t[i+1:]] = true
		}
	}
	outerNames(e.A, sc, acc)
	outerNames(e.B, sc, acc)
	for _, l := range e.L {
		outerNames(l, sc, acc)
	}
}

func (p *printer) alias() string { p.n++; return fmt.Sprintf("x%d", p.n-1) }

func (p *printer) expr(e *Expr, sc [][]string) string {
	switch e.Op {
	case "const":
		return sqlVal(e.V)
	case "col":
		if e.D < len(sc) && e.I < len(sc[e.D]) {
			return sc[e.D][e.I]
		}
		return fmt.Sprintf("BAD_COL_%d_%d", e.D, e.I)
	case "cmp", "arith":
		return "(" + p.expr(e.A, sc) + " " + e.O + " " + p.expr(e.B, sc) + ")"
	case "and":
		return "(" + p.expr(e.A, sc) + " AND " + p.expr(e.B, sc) + ")"
	case "or":
		return "(" + p.expr(e.A, sc) + " OR " + p.expr(e.B, sc) + ")"
	case "not":
		if e.NotSyntax {
			switch e.A.Op {
			case "in":
				return "(" + p.expr(e.A.A, sc) + " NOT IN (" + p.exprs(e.A.L, sc) + "))"
			case "inq":
				return "(" + p.expr(e.A.A, sc) + " NOT IN (" + p.query(e.A.Q, sc) + "))"
			case "exists":
				return "(NOT EXISTS (" + p.query(e.A.Q, sc) + "))"
			}
		}
		return "(NOT " + p.expr(e.A, sc) + ")"
	case "isnull":
		return "(" + p.expr(e.A, sc) + " IS NULL)"
	case "in":
		return "(" + p.expr(e.A, sc) + " IN (" + p.exprs(e.L, sc) + "))"
	case "exists":
		return "(EXISTS (" + p.query(e.Q, sc) + "))"
	case "inq":
		return "(" + p.expr(e.A, sc) + " IN (" + p.query(e.Q, sc) + "))"
	case "scalar":
		return "(" + p.query(e.Q, sc) + ")"
	}
	return "BAD_EXPR"
}

func (p *printer) exprs(es []*Expr, sc [][]string) string {
	parts := make([]string, len(es))
	for i, e := range es {
		parts[i] = p.expr(e, sc)
	}
	return strings.Join(parts, ", ")
}

func push(row []string, sc [][]string) [][]string {
	return append([][]string{row}, sc...)
}

// from prints a FROM item and returns the SQL texts of its columns.
func (p *printer) from(q *Query, outer [][]string, tables []Table) (string, []string) {
	switch q.K {
	case "table":
		a := p.alias()
		var cols []string
		if q.T < len(tables) {
			for i := range tables[q.T].Types {
				cols = append(cols, fmt.Sprintf("%s.c%d", a, i))
			}
		}
		return fmt.Sprintf("t%d AS %s", q.T, a), cols
	case "join":
		lt, lc := p.from(q.L, outer, tables)
		rt, rc := p.from(q.R, outer, tables)
		cols := append(append([]string{}, lc...), rc...)
		switch q.JK {
		case "cross":
			return "(" + lt + " CROSS JOIN " + rt + ")", cols
		default:
			return "(" + lt + " " + strings.ToUpper(q.JK) + " JOIN " + rt + " ON " + p.expr(q.On, push(cols, outer)) + ")", cols
		}
	default:
		a := p.alias()
		w := width(q, tables)
		var cols []string
		for i := 0; i < w; i++ {
			cols = append(cols, fmt.Sprintf("%s.c%d", a, i))
		}
		return "(" + p.queryT(q, outer, tables) + ") AS " + a, cols
	}
}

var curTables []Table // tables of the case being printed (printer.query needs widths of base tables)

func (p *printer) query(q *Query, outer [][]string) string { return p.queryT(q, outer, curTables) }

func aggText(f, arg string) string {
	switch f {
	case "count*":
		return "COUNT(*)"
	case "count":
		return "COUNT(" + arg + ")"
	case "countd":
		return "COUNT(DISTINCT " + arg + ")"
	default:
		return strings.ToUpper(f) + "(" + arg + ")"
	}
}

func (p *printer) queryT(q *Query, outer [][]string, tables []Table) string {
	switch q.K {
	case "table", "join":
		// a bare FROM item used as a query: SELECT * over it
		ft, cols := p.from(q, outer, tables)
		parts := make([]string, len(cols))
		for i, c := range cols {
			parts[i] = fmt.Sprintf("%s AS c%d", c, i)
		}
		return "SELECT " + strings.Join(parts, ", ") + " FROM " + ft
	case "select", "group":
		ft, cols := p.from(q.Src, outer, tables)
		sc := push(cols, outer)
		if p.flags != nil && len(outer) > 0 {
			idx, out := map[string]bool{}, map[string]bool{}
			indexedNames(q.Src, tables, idx)
			outerNames(q.Wh, sc, out)
			for n := range out {
				if idx[n] {
					p.flags["outer-column-named-like-inner-indexed-column"] = true
				}
			}
		}
		var sb strings.Builder
		sb.WriteString("SELECT ")
		if q.Dist {
			sb.WriteString("DISTINCT ")
		}
		psc := sc
		var keyTexts []string
		if q.K == "group" {
			var grow []string
			for _, k := range q.Keys {
				t := p.expr(k, sc)
				keyTexts = append(keyTexts, t)
				grow = append(grow, t)
			}
			for _, a := range q.Aggs {
				grow = append(grow, aggText(a.F, p.expr(a.E, sc)))
			}
			psc = push(grow, outer)
		}
		for i, e := range q.Proj {
			if i > 0 {
				sb.WriteString(", ")
			}
			fmt.Fprintf(&sb, "%s AS c%d", p.expr(e, psc), i)
		}
		sb.WriteString(" FROM " + ft)
		if !isTrueConst(q.Wh) {
			sb.WriteString(" WHERE " + p.expr(q.Wh, sc))
		}
		if q.K == "group" {
			if len(keyTexts) > 0 {
				sb.WriteString(" GROUP BY " + strings.Join(keyTexts, ", "))
			}
			if !isTrueConst(q.Hav) {
				sb.WriteString(" HAVING " + p.expr(q.Hav, psc))
			}
		}
		return sb.String()
	case "setop":
		op := strings.ToUpper(q.SOp)
		if q.All {
			op += " ALL"
		}
		return "(" + p.queryT(q.L, outer, tables) + ") " + op + " (" + p.queryT(q.R, outer, tables) + ")"
	case "order":
		var inner string
		if q.Q.K == "select" || q.Q.K == "group" || q.Q.K == "setop" {
			inner = p.queryT(q.Q, outer, tables)
		} else {
			inner = "(" + p.queryT(q.Q, outer, tables) + ")"
		}
		var ks []string
		for _, k := range q.OKeys {
			t := fmt.Sprintf("%d", k.I+1)
			if q.ByName {
				t = fmt.Sprintf("c%d", k.I)
			}
			if k.Desc {
				t += " DESC"
			}
			ks = append(ks, t)
		}
		if len(ks) > 0 {
			inner += " ORDER BY " + strings.Join(ks, ", ")
		}
		if q.HasLim {
			inner += fmt.Sprintf(" LIMIT %d OFFSET %d", q.Lim, q.Off)
		}
		return inner
	}
	return "BAD_QUERY"
}

func width(q *Query, tables []Table) int {
	switch q.K {
	case "table":
		if q.T < len(tables) {
			return len(tables[q.T].Types)
		}
		return 0
	case "join":
		return width(q.L, tables) + width(q.R, tables)
	case "select", "group":
		return len(q.Proj)
	case "setop":
		return width(q.L, tables)
	case "order":
		return width(q.Q, tables)
	}
	return 0
}

func caseSQL(c *Case) string {
	curTables = c.Tables
	p := &printer{}
	return p.queryT(c.Q, nil, c.Tables)
}

func setupSQL(c *Case) []string {
	var out []string
	for ti, t := range c.Tables {
		var cols []string
		for i, ty := range t.Types {
			d := map[string]string{"int": "INT", "dec": "DECIMAL(10,2)", "str": "VARCHAR(8)"}[ty]
			if i == t.PK {
				d += " NOT NULL PRIMARY KEY"
			}
			cols = append(cols, fmt.Sprintf("c%d %s", i, d))
		}
		for _, i := range t.Idx {
			cols = append(cols, fmt.Sprintf("KEY k%d (c%d)", i, i))
		}
		out = append(out, fmt.Sprintf("CREATE TABLE t%d (%s)", ti, strings.Join(cols, ", ")))
		if len(t.Rows) > 0 {
			var rows []string
			for _, r := range t.Rows {
				vs := make([]string, len(r))
				for i := range r {
					vs[i] = sqlVal(&r[i])
				}
				rows = append(rows, "("+strings.Join(vs, ", ")+")")
			}
			out = append(out, fmt.Sprintf("INSERT INTO t%d VALUES %s", ti, strings.Join(rows, ", ")))
		}
	}
	return out
}

// ---------- Coq terms ----------

func coqNat(n int) string { return fmt.Sprintf("%d%%nat", n) }

func coqVal(v *Val) string {
	switch v.K {
	case "null":
		return "VNull"
	case "int":
		return "(VInt " + lib.CoqZ(v.I) + ")"
	case "dec":
		return "(VDec " + lib.CoqZ(v.I) + " " + coqNat(v.S) + ")"
	default:
		return "(VStr " + coqStrN(v.Str) + ")"
	}
}

func coqStrN(s string) string {
	if s == "" {
		return "[]"
	}
	parts := make([]string, len(s))
	for i := 0; i < len(s); i++ {
		parts[i] = fmt.Sprintf("%d%%N", s[i])
	}
	return "[" + strings.Join(parts, ";") + "]"
}

var coqCmp = map[string]string{"=": "OEq", "<>": "ONe", "<": "OLt", "<=": "OLe", ">": "OGt", ">=": "OGe"}
var coqAr = map[string]string{"+": "APlus", "-": "AMinus", "*": "AMult"}
var coqAgg = map[string]string{"count*": "ACountStar", "count": "ACount", "countd": "ACountDistinct", "sum": "ASum", "min": "AMin", "max": "AMax", "avg": "AAvg"}
var coqJK = map[string]string{"inner": "JInner", "left": "JLeft", "right": "JRight", "cross": "JCross"}
var coqSOp = map[string]string{"union": "SUnion", "intersect": "SIntersect", "except": "SExcept"}

func coqExpr(e *Expr) string {
	switch e.Op {
	case "const":
		return "(EConst " + coqVal(e.V) + ")"
	case "col":
		return fmt.Sprintf("(ECol %s %s)", coqNat(e.D), coqNat(e.I))
	case "cmp":
		return "(ECmp " + coqCmp[e.O] + " " + coqExpr(e.A) + " " + coqExpr(e.B) + ")"
	case "arith":
		return "(EArith " + coqAr[e.O] + " " + coqExpr(e.A) + " " + coqExpr(e.B) + ")"
	case "and":
		return "(EAnd " + coqExpr(e.A) + " " + coqExpr(e.B) + ")"
	case "or":
		return "(EOr " + coqExpr(e.A) + " " + coqExpr(e.B) + ")"
	case "not":
		return "(ENot " + coqExpr(e.A) + ")"
	case "isnull":
		return "(EIsNull " + coqExpr(e.A) + ")"
	case "in":
		return "(EIn " + coqExpr(e.A) + " " + lib.CoqListOf(e.L, coqExpr) + ")"
	case "exists":
		return "(EExists " + coqQuery(e.Q) + ")"
	case "inq":
		return "(EInQ " + coqExpr(e.A) + " " + coqQuery(e.Q) + ")"
	case "scalar":
		return "(EScalar " + coqQuery(e.Q) + ")"
	}
	return "BAD"
}

func coqQuery(q *Query) string {
	switch q.K {
	case "table":
		return "(QTable " + coqNat(q.T) + ")"
	case "join":
		on := q.On
		if on == nil {
			on = konst(intv(1))
		}
		return "(QJoin " + coqJK[q.JK] + " " + coqQuery(q.L) + " " + coqQuery(q.R) + " " + coqExpr(on) + ")"
	case "select":
		return "(QSelect " + coqQuery(q.Src) + " " + coqExpr(q.Wh) + " " + lib.CoqListOf(q.Proj, coqExpr) + " " + lib.CoqBool(q.Dist) + ")"
	case "group":
		aggs := lib.CoqListOf(q.Aggs, func(a Agg) string { return "(" + coqAgg[a.F] + ", " + coqExpr(a.E) + ")" })
		return "(QGroup " + coqQuery(q.Src) + " " + coqExpr(q.Wh) + " " + lib.CoqListOf(q.Keys, coqExpr) + " " + aggs + " " +
			coqExpr(q.Hav) + " " + lib.CoqListOf(q.Proj, coqExpr) + " " + lib.CoqBool(q.Dist) + ")"
	case "setop":
		return "(QSetOp " + coqSOp[q.SOp] + " " + lib.CoqBool(q.All) + " " + coqQuery(q.L) + " " + coqQuery(q.R) + ")"
	case "order":
		keys := lib.CoqListOf(q.OKeys, func(k OKey) string { return "(" + coqNat(k.I) + ", " + lib.CoqBool(k.Desc) + ")" })
		lim := "None"
		if q.HasLim {
			lim = "(Some (" + coqNat(q.Lim) + ", " + coqNat(q.Off) + "))"
		}
		return "(QOrder " + coqQuery(q.Q) + " " + keys + " " + lim + ")"
	}
	return "BAD"
}

func coqDB(ts []Table) string {
	return lib.CoqListOf(ts, func(t Table) string {
		rows := lib.CoqListOf(t.Rows, func(r []Val) string {
			return lib.CoqListOf(r, func(v Val) string { return coqVal(&v) })
		})
		return "(" + coqNat(len(t.Types)) + ", " + rows + ")"
	})
}
