// Driver for C11 (repeated queries reflect the current data; no stale results): generates histories that
// interleave DML / DDL with repeated plain and prepared queries (same text re-used; joins, correlated and
// uncorrelated subqueries, so that CachedResults / HashLookup / Subquery caches are built) in 1-3 sessions,
// runs them on the real engine and records every query result for the Coq model (Phys/C11Cache.v).
// Property predicate on the implementation alone: each query result equals the result of a FRESH engine
// loaded with the table contents current at that moment (contents tracked by the driver itself).
package main

import (
	"fmt"
	"os"
	"sort"
	"strings"

	"verifharness/lib"
	"verifharness/lib/eng"
)

type Op struct {
	K    string  `json:"k"` // insert delete update clear recreate index query prepare execute fail
	Fail int     `json:"fail,omitempty"` // fail: 0 unknown column, 1 unknown table, 2 INSERT of the wrong arity
	T    int     `json:"t,omitempty"`
	Rows [][]Val `json:"rows,omitempty"`
	C    int     `json:"c,omitempty"`
	V    *Val    `json:"v,omitempty"`
	C2   int     `json:"c2,omitempty"`
	V2   *Val    `json:"v2,omitempty"`
	Sid  int     `json:"sid"`
	Name int     `json:"name,omitempty"`
	QI   int     `json:"qi,omitempty"`
	SQL  string  `json:"sql,omitempty"`
	Live []string `json:"engine,omitempty"`
	Want []string `json:"fresh_engine,omitempty"`
}

type History struct {
	Tables  []Table  `json:"tables"`
	Queries []*Query `json:"queries"`
	Ordered []bool   `json:"ordered"`
	NSess   int      `json:"sessions"`
	// Trig: table TrigT has the triggers  BEFORE INSERT: SET NEW.c<TrigC> = (SELECT MAX(x.c0) FROM t<LG> x)  and
	// AFTER INSERT: INSERT INTO t<LG> VALUES (NEW.c<TrigC> + 1); the log table t<LG> is the last table
	Trig  bool `json:"trig,omitempty"`
	TrigT int  `json:"trig_t,omitempty"`
	TrigC int  `json:"trig_c,omitempty"`
	Ops     []Op     `json:"ops"`
	Setup   []string `json:"setup,omitempty"`
	QSQL    []string `json:"query_sql,omitempty"`
}

func qsql(h *History, tables []Table, qi int) string {
	c := &Case{Tables: tables, Q: h.Queries[qi]}
	return caseSQL(c)
}

func eqVal(a, b RV) bool {
	if a.Kind == 0 || b.Kind == 0 {
		return false
	}
	c, err := rcmp(a, b)
	return err == nil && c == 0
}

// applyDML mirrors apply_dml of the Coq model on the driver's own copy of the table contents
func logMax(t *Table) (int64, bool) {
	var m int64
	ok := false
	for _, r := range t.Rows {
		if r[0].K == "int" && (!ok || r[0].I > m) {
			m, ok = r[0].I, true
		}
	}
	return m, ok
}

var curHist *History // the history being executed (applyDML needs its trigger description)

func applyDML(tables []Table, o *Op) {
	t := &tables[o.T]
	switch o.K {
	case "fail":
		return
	case "insert":
		if curHist != nil && curHist.Trig && o.T == curHist.TrigT {
			lg := &tables[len(tables)-1]
			for _, r := range o.Rows {
				nr := append([]Val{}, r...)
				m, ok := logMax(lg)
				if ok {
					nr[curHist.TrigC] = *intv(m)
					lg.Rows = append(lg.Rows, []Val{*intv(m + 1)})
				} else {
					nr[curHist.TrigC] = *null()
					lg.Rows = append(lg.Rows, []Val{*null()})
				}
				t.Rows = append(t.Rows, nr)
			}
			return
		}
		t.Rows = append(t.Rows, o.Rows...)
	case "delete":
		var keep [][]Val
		for _, r := range t.Rows {
			if !eqVal(rvOf(&r[o.C]), rvOf(o.V)) {
				keep = append(keep, r)
			}
		}
		t.Rows = keep
	case "update":
		for i, r := range t.Rows {
			if eqVal(rvOf(&r[o.C]), rvOf(o.V)) {
				nr := append([]Val{}, r...)
				nr[o.C2] = *o.V2
				t.Rows[i] = nr
			}
		}
	case "clear", "recreate":
		t.Rows = nil
	case "index":
		found := -1
		for i, c := range t.Idx {
			if c == o.C {
				found = i
			}
		}
		if found >= 0 {
			t.Idx = append(append([]int{}, t.Idx[:found]...), t.Idx[found+1:]...)
		} else {
			t.Idx = append(append([]int{}, t.Idx...), o.C)
		}
	}
}

func createSQL(ti int, t Table) string {
	c := &Case{Tables: make([]Table, ti+1)}
	c.Tables[ti] = Table{Types: t.Types, Idx: t.Idx, PK: -1}
	s := setupSQL(c)
	return s[len(s)-1]
}

func opSQL(h *History, tables []Table, o *Op) []string {
	switch o.K {
	case "insert":
		var rows []string
		for _, r := range o.Rows {
			vs := make([]string, len(r))
			for i := range r {
				vs[i] = sqlVal(&r[i])
			}
			rows = append(rows, "("+strings.Join(vs, ", ")+")")
		}
		return []string{fmt.Sprintf("INSERT INTO t%d VALUES %s", o.T, strings.Join(rows, ", "))}
	case "delete":
		return []string{fmt.Sprintf("DELETE FROM t%d WHERE c%d = %s", o.T, o.C, sqlVal(o.V))}
	case "update":
		return []string{fmt.Sprintf("UPDATE t%d SET c%d = %s WHERE c%d = %s", o.T, o.C2, sqlVal(o.V2), o.C, sqlVal(o.V))}
	case "clear":
		return []string{fmt.Sprintf("DELETE FROM t%d", o.T)}
	case "recreate":
		return []string{fmt.Sprintf("DROP TABLE t%d", o.T), createSQL(o.T, tables[o.T])}
	case "index":
		for _, c := range tables[o.T].Idx {
			if c == o.C {
				return []string{fmt.Sprintf("ALTER TABLE t%d DROP INDEX k%d", o.T, o.C)}
			}
		}
		return []string{fmt.Sprintf("ALTER TABLE t%d ADD INDEX k%d (c%d)", o.T, o.C, o.C)}
	case "fail":
		switch o.Fail {
		case 0:
			return []string{fmt.Sprintf("SELECT x.nosuchcol FROM t%d AS x", o.T)}
		case 1:
			return []string{fmt.Sprintf("SELECT x.c0 FROM t%d AS x INNER JOIN nosuchtable AS y ON 1", o.T)}
		}
		return []string{fmt.Sprintf("INSERT INTO t%d VALUES (%s)", o.T, strings.TrimSuffix(strings.Repeat("1, ", len(tables[o.T].Types)+1), ", "))}
	case "query":
		return []string{qsql(h, tables, o.QI)}
	case "prepare":
		return []string{fmt.Sprintf("PREPARE p%d FROM '%s'", o.Name, strings.ReplaceAll(qsql(h, tables, o.QI), "'", "''"))}
	case "execute":
		return []string{fmt.Sprintf("EXECUTE p%d", o.Name)}
	}
	return nil
}

type qres struct {
	rows [][]EV
	err  string
}

func runQ(s *eng.S, q string) qres {
	r := s.Query(q)
	if r.Err != nil {
		return qres{err: eng.ErrKind(r.Err) + ": " + firstLine(r.Err.Error())}
	}
	var out qres
	for _, row := range r.Rows {
		er := make([]EV, len(row))
		for i, v := range row {
			er[i] = evOf(v)
		}
		out.rows = append(out.rows, er)
	}
	return out
}

func firstLine(s string) string {
	if i := strings.IndexByte(s, '\n'); i >= 0 {
		s = s[:i]
	}
	if len(s) > 120 {
		s = s[:120]
	}
	return s
}

func canon(r qres, ordered bool) []string {
	if r.err != "" {
		return []string{"error " + strings.SplitN(r.err, ":", 2)[0]}
	}
	out := fmtEng(r.rows)
	if !ordered {
		sort.Strings(out)
	}
	return out
}

func fmtEng(rows [][]EV) []string {
	out := make([]string, len(rows))
	for i, r := range rows {
		ps := make([]string, len(r))
		for j, v := range r {
			ps[j] = v.String()
		}
		out[i] = strings.Join(ps, ",")
	}
	return out
}

func same(a, b []string) bool {
	if len(a) != len(b) {
		return false
	}
	for i := range a {
		if a[i] != b[i] {
			return false
		}
	}
	return true
}

func cloneTables(ts []Table) []Table {
	out := make([]Table, len(ts))
	for i, t := range ts {
		out[i] = Table{Types: t.Types, PK: -1, Idx: append([]int{}, t.Idx...), Rows: append([][]Val{}, t.Rows...)}
	}
	return out
}

type stepFail struct {
	op        int
	signature string
	what      string
}

type outcome struct {
	obs       []string // Coq observations of the query-like ops, in order
	fails     []stepFail
	deviation bool // some query result differs from the Go reference although the fresh engine agrees (a C02 matter)
	dmlError  string
	nq        int
}

// execute runs the history on one engine and evaluates the predicate after every query
func execute(h *History, record bool) *outcome {
	out := &outcome{}
	tables := cloneTables(h.Tables)
	e := eng.New("db")
	sess := make([]*eng.S, h.NSess)
	for i := range sess {
		sess[i] = e.Session()
	}
	sess[0].MustExec(setupSQL(&Case{Tables: tables})...)
	curHist = h
	if h.Trig {
		lg := len(tables) - 1
		sess[0].MustExec(
			fmt.Sprintf("CREATE TRIGGER trb BEFORE INSERT ON t%d FOR EACH ROW SET NEW.c%d = (SELECT MAX(x.c0) FROM t%d AS x)", h.TrigT, h.TrigC, lg),
			fmt.Sprintf("CREATE TRIGGER tra AFTER INSERT ON t%d FOR EACH ROW INSERT INTO t%d VALUES (NEW.c%d + 1)", h.TrigT, lg, h.TrigC))
	}
	prepared := map[[2]int]int{}  // (sid, name) -> query index
	preparedAt := map[[2]int]int{} // op index of the PREPARE
	lastWrite, lastWriteSid, lastWriteOp := "none", -1, -1
	for i := range h.Ops {
		o := &h.Ops[i]
		stmts := opSQL(h, tables, o)
		s := sess[o.Sid%h.NSess]
		switch o.K {
		case "query", "execute":
			qi := o.QI
			if o.K == "execute" {
				var ok bool
				if qi, ok = prepared[[2]int{o.Sid % h.NSess, o.Name}]; !ok {
					continue
				}
			}
			out.nq++
			// third oracle, independent of the engine's query evaluation: a plain scan in the querying session
			// returns exactly the contents the driver tracked
			for ti := range tables {
				got := canon(runQ(s, fmt.Sprintf("SELECT * FROM t%d", ti)), false)
				var want []string
				for _, r := range tables[ti].Rows {
					ps := make([]string, len(r))
					for j := range r {
						ps[j] = evOfRV(rvOf(&r[j])).String()
					}
					want = append(want, strings.Join(ps, ","))
				}
				sort.Strings(want)
				if !same(got, want) {
					rel := "other-session"
					if lastWriteSid == o.Sid%h.NSess {
						rel = "same-session"
					}
					out.fails = append(out.fails, stepFail{i, fmt.Sprintf("table-scan-not-current:after-%s:%s", lastWrite, rel),
						fmt.Sprintf("step %d: SELECT * FROM t%d in session %d returns %v, the statements executed so far leave %v", i, ti, o.Sid%h.NSess, got, want)})
					break
				}
			}
			live := runQ(s, stmts[0])
			text := qsql(h, tables, qi)
			// the oracle: a fresh engine loaded with the current contents
			fe := eng.New("db")
			fs := fe.Session()
			fs.MustExec(setupSQL(&Case{Tables: tables})...)
			fresh := runQ(fs, text)
			ordered := h.Ordered[qi]
			lc, fc := canon(live, ordered), canon(fresh, ordered)
			// second oracle (within-statement caches): the same data loaded in reverse physical order must give
			// the same bag; an unkeyed cache over a subtree that depends on the outer row makes the result
			// depend on which outer row came first
			rev := cloneTables(tables)
			for ti := range rev {
				rows := rev[ti].Rows
				for a, b := 0, len(rows)-1; a < b; a, b = a+1, b-1 {
					rows[a], rows[b] = rows[b], rows[a]
				}
			}
			re := eng.New("db")
			rs := re.Session()
			rs.MustExec(setupSQL(&Case{Tables: rev})...)
			rc := canon(runQ(rs, text), ordered)
			if same(lc, fc) && !same(fc, rc) {
				out.fails = append(out.fails, stepFail{i, "result-depends-on-physical-row-order:" + strings.Join(featuresOf(&Case{Tables: tables, Q: h.Queries[qi]}), "+"),
					fmt.Sprintf("step %d: a fresh engine returns %v, and %v when the same rows are loaded in reverse order, for %s", i, fc, rc, text)})
			}
			if record {
				o.SQL, o.Live, o.Want = stmts[0], lc, fc
			}
			if !same(lc, fc) {
				rel := "other-session"
				if lastWriteSid == o.Sid%h.NSess {
					rel = "same-session"
				}
				kind := "plain"
				if o.K == "execute" {
					kind = "prepared"
					if preparedAt[[2]int{o.Sid % h.NSess, o.Name}] < lastWriteOp {
						kind = "prepared-before-write"
					}
				}
				out.fails = append(out.fails, stepFail{i, fmt.Sprintf("stale:%s:after-%s:%s", kind, lastWrite, rel),
					fmt.Sprintf("step %d (%s in session %d): engine returns %v, a fresh engine on the current data returns %v for %s", i, o.K, o.Sid%h.NSess, lc, fc, text)})
			}
			// Coq observation + agreement with the reference interpreter (C02 matters are not C11's)
			in := &interp{tables: tables}
			ref, rerr := in.query(h.Queries[qi], nil)
			switch {
			case live.err != "":
				if strings.Contains(live.err, "more than 1 row") {
					out.obs = append(out.obs, "("+lib.CoqBool(ordered)+", OErrCard)")
					if rerr != errCard {
						out.deviation = true
					}
				} else {
					out.obs = append(out.obs, "("+lib.CoqBool(ordered)+", OErrOther)")
					out.deviation = true
				}
			default:
				out.obs = append(out.obs, "("+lib.CoqBool(ordered)+", "+coqObsRows(live.rows)+")")
				if rerr != nil || !rowsMatch(ordered, ref, live.rows) {
					out.deviation = true
				}
			}
		case "fail":
			if r := s.Query(stmts[0]); r.Err == nil {
				out.dmlError = fmt.Sprintf("step %d: %s was expected to fail", i, stmts[0])
				return out
			}
		case "prepare":
			r := s.Query(stmts[0])
			if r.Err != nil {
				out.dmlError = fmt.Sprintf("step %d: %s: %v", i, stmts[0], r.Err)
				return out
			}
			prepared[[2]int{o.Sid % h.NSess, o.Name}] = o.QI
			preparedAt[[2]int{o.Sid % h.NSess, o.Name}] = i
		default:
			for _, st := range stmts {
				if r := s.Query(st); r.Err != nil {
					out.dmlError = fmt.Sprintf("step %d: %s: %v", i, st, r.Err)
					return out
				}
			}
			applyDML(tables, o)
			lastWrite, lastWriteSid, lastWriteOp = o.K, o.Sid%h.NSess, i
		}
	}
	return out
}

// ---------- Coq term ----------
func coqOp(h *History, o *Op, nsess int) string {
	sid := coqNat(o.Sid % nsess)
	switch o.K {
	case "insert":
		rows := lib.CoqListOf(o.Rows, func(r []Val) string { return lib.CoqListOf(r, func(v Val) string { return coqVal(&v) }) })
		if h.Trig && o.T == h.TrigT {
			return "(OInsertLog " + coqNat(o.T) + " " + coqNat(h.TrigC) + " " + coqNat(len(h.Tables)-1) + " " + rows + ")"
		}
		return "(OInsert " + coqNat(o.T) + " " + rows + ")"
	case "fail":
		return "(OIndex " + coqNat(o.T) + ")"
	case "delete":
		return "(ODelete " + coqNat(o.T) + " " + coqNat(o.C) + " " + coqVal(o.V) + ")"
	case "update":
		return "(OUpdate " + coqNat(o.T) + " " + coqNat(o.C) + " " + coqVal(o.V) + " " + coqNat(o.C2) + " " + coqVal(o.V2) + ")"
	case "clear", "recreate":
		return "(OClear " + coqNat(o.T) + ")"
	case "index":
		return "(OIndex " + coqNat(o.T) + ")"
	case "query":
		return "(OQuery " + sid + " " + coqQuery(h.Queries[o.QI]) + ")"
	case "prepare":
		return "(OPrepare " + sid + " " + coqNat(o.Name) + " " + coqQuery(h.Queries[o.QI]) + ")"
	case "execute":
		return "(OExecute " + sid + " " + coqNat(o.Name) + ")"
	}
	return "BAD"
}

// ---------- generator ----------
func genHistory(r *lib.RNG) *History {
	g := &gen{r: r}
	g.genTables()
	for i := range g.tables {
		g.tables[i].PK = -1
	}
	h := &History{NSess: r.Range(1, 3)}
	if r.Chance(1, 3) {
		// a log table (last) and a pair of triggers on a table with an INT column
		var cands [][2]int
		for ti, t := range g.tables {
			for ci, ty := range t.Types {
				if ty == "int" {
					cands = append(cands, [2]int{ti, ci})
				}
			}
		}
		if len(cands) > 0 {
			p := lib.Pick(r, cands)
			h.Trig, h.TrigT, h.TrigC = true, p[0], p[1]
			g.tables = append(g.tables, Table{Types: []string{"int"}, PK: -1, Rows: [][]Val{{*intv(100)}}})
		}
	}
	h.Tables = g.tables
	curHist = h
	nq := r.Range(1, 3)
	for len(h.Queries) < nq {
		q, ts := g.queryT(nil, nil, 2, true)
		c := &Case{Tables: g.tables, Q: q}
		c.Ordered = q.K == "order" && len(q.OKeys) >= len(ts)
		if checkCase(c) != nil || len(triggers(c)) > 0 {
			continue
		}
		// queries that can use the caches: prefer joins / subqueries
		f := strings.Join(featuresOf(c), " ")
		if !strings.Contains(f, "join") && !strings.Contains(f, "sub") && r.Chance(2, 3) {
			continue
		}
		h.Queries = append(h.Queries, q)
		h.Ordered = append(h.Ordered, c.Ordered)
	}
	tables := cloneTables(h.Tables)
	n := r.Range(8, 22)
	prepared := [][3]int{} // sid, name, qi
	for len(h.Ops) < n {
		o := Op{Sid: r.Intn(h.NSess), T: r.Intn(len(tables))}
		if h.Trig && o.T == len(tables)-1 && r.Chance(1, 2) {
			o.T = h.TrigT
		}
		t := &tables[o.T]
		isLog := h.Trig && o.T == len(tables)-1
		pickVal := func(c int) *Val {
			var present []Val
			for _, row := range t.Rows {
				if row[c].K != "null" {
					present = append(present, row[c])
				}
			}
			if len(present) > 0 && r.Chance(3, 4) {
				v := lib.Pick(r, present)
				return &v
			}
			v := g.lit(tyOf(t.Types[c]))
			for v.K == "null" {
				v = g.lit(tyOf(t.Types[c]))
			}
			return v
		}
		switch k := r.Intn(100); {
		case k < 34:
			o.K, o.QI = "query", r.Intn(len(h.Queries))
		case k < 40:
			o.K, o.Fail = "fail", r.Intn(3)
		case k < 48:
			o.K, o.QI, o.Name = "prepare", r.Intn(len(h.Queries)), r.Intn(3)
			prepared = append(prepared, [3]int{o.Sid, o.Name, o.QI})
		case k < 60 && len(prepared) > 0:
			p := lib.Pick(r, prepared)
			o.K, o.Sid, o.Name = "execute", p[0], p[1]
		case k < 75:
			o.K = "insert"
			nins, maxRows := r.Range(1, 2), 7
			if h.Trig && o.T == h.TrigT {
				nins, maxRows = r.Range(2, 3), 10
			}
			for i := nins; i > 0 && len(t.Rows)+len(o.Rows) < maxRows; i-- {
				row := make([]Val, len(t.Types))
				for c, ty := range t.Types {
					row[c] = *g.lit(tyOf(ty))
					if r.Chance(1, 6) {
						row[c] = *null()
					}
				}
				o.Rows = append(o.Rows, row)
			}
			if len(o.Rows) == 0 {
				continue
			}
		case k < 84:
			o.K, o.C = "delete", r.Intn(len(t.Types))
			o.V = pickVal(o.C)
		case k < 93:
			o.K, o.C, o.C2 = "update", r.Intn(len(t.Types)), r.Intn(len(t.Types))
			o.V, o.V2 = pickVal(o.C), g.lit(tyOf(t.Types[o.C2]))
		case k < 95:
			o.K = "clear"
		case k < 97:
			o.K = "recreate"
		default:
			o.K, o.C = "index", r.Intn(len(t.Types))
		}
		if o.K == "" {
			continue
		}
		if isLog && o.K != "query" && o.K != "prepare" && o.K != "execute" && o.K != "fail" {
			continue // the log table is written by the triggers only
		}
		if h.Trig && o.T == h.TrigT && o.K == "recreate" {
			continue // DROP TABLE would drop the triggers
		}
		applyDML(tables, &o)
		h.Ops = append(h.Ops, o)
	}
	// end with every query once more, plain and (when prepared) executed
	for qi := range h.Queries {
		h.Ops = append(h.Ops, Op{K: "query", QI: qi, Sid: r.Intn(h.NSess)})
	}
	for _, p := range prepared {
		h.Ops = append(h.Ops, Op{K: "execute", Sid: p[0], Name: p[1]})
	}
	return h
}

func featuresOf(c *Case) []string {
	set := map[string]bool{}
	for _, p := range collect(c).qs {
		q := *p
		if q.K == "join" {
			set["join"] = true
		}
	}
	for _, p := range collect(c).es {
		e := *p
		switch e.Op {
		case "exists", "inq", "scalar":
			set["sub-"+e.Op] = true
			if escapesQ(e.Q, 0) {
				set["sub-correlated"] = true
			} else {
				set["sub-uncorrelated"] = true
			}
		}
	}
	var out []string
	for k := range set {
		out = append(out, k)
	}
	sort.Strings(out)
	return out
}

func run(c *lib.Ctx, h *History) {
	for i := range h.Ops {
		h.Ops[i].SQL, h.Ops[i].Live, h.Ops[i].Want = "", nil, nil
	}
	h.Setup = setupSQL(&Case{Tables: h.Tables})
	h.QSQL = nil
	for qi := range h.Queries {
		h.QSQL = append(h.QSQL, qsql(h, h.Tables, qi))
		for _, f := range featuresOf(&Case{Tables: h.Tables, Q: h.Queries[qi]}) {
			c.Count("query_has:" + f)
		}
	}
	o := execute(h, true)
	c.Count(fmt.Sprintf("sessions_%d", h.NSess))
	for _, op := range h.Ops {
		c.Count("op:" + op.K)
	}
	if o.dmlError != "" {
		c.Count("history_aborted_by_statement_error")
		if os.Getenv("C11_DEBUG") != "" {
			fmt.Fprintln(os.Stderr, o.dmlError)
		}
		c.CaseNoModel(h, "")
		return
	}
	key := ""
	if o.nq > 0 {
		key = strings.Join(h.QSQL, "|") + fmt.Sprint(h.Ops)
	}
	var id int
	if o.deviation && len(o.fails) == 0 {
		// some result differs from the SQL definition although a fresh engine agrees: C02's subject
		c.Count("history_with_c02_deviation_not_sent_to_model")
		id = c.CaseNoModel(h, key)
	} else {
		ops := make([]string, len(h.Ops))
		for i := range h.Ops {
			ops[i] = coqOp(h, &h.Ops[i], h.NSess)
		}
		id = c.Case(lib.CoqTuple(coqDB(h.Tables), lib.CoqList(ops), lib.CoqList(o.obs)), h, key)
	}
	c.PredChecked()
	if len(o.fails) > 0 {
		small := shrinkHistory(h, o.fails[0].signature)
		so := execute(small, true)
		what := o.fails[0].what
		if len(so.fails) > 0 {
			what = so.fails[0].what + "  history: " + strings.Join(historySQL(small), "; ")
		}
		c.PredFail(id, o.fails[0].signature, what, map[string]interface{}{"shrunk": small, "original": h})
	}
}

func historySQL(h *History) []string {
	curHist = h
	out := append([]string{}, setupSQL(&Case{Tables: h.Tables})...)
	if h.Trig {
		out = append(out, fmt.Sprintf("triggers on t%d: BEFORE INSERT SET NEW.c%d = (SELECT MAX(c0) FROM t%d); AFTER INSERT: INSERT INTO t%d VALUES (NEW.c%d + 1)", h.TrigT, h.TrigC, len(h.Tables)-1, len(h.Tables)-1, h.TrigC))
	}
	tables := cloneTables(h.Tables)
	for i := range h.Ops {
		o := &h.Ops[i]
		for _, s := range opSQL(h, tables, o) {
			out = append(out, fmt.Sprintf("[s%d] %s", o.Sid%h.NSess, s))
		}
		if o.K != "query" && o.K != "prepare" && o.K != "execute" {
			applyDML(tables, o)
		}
	}
	return out
}

func shrinkHistory(h *History, sig string) *History {
	cur := *h
	cur.Ops = append([]Op{}, h.Ops...)
	still := func(x *History) (ok bool) {
		defer func() {
			if recover() != nil {
				ok = false
			}
		}()
		o := execute(x, false)
		return o.dmlError == "" && len(o.fails) > 0 && o.fails[0].signature == sig
	}
	for i := len(cur.Ops) - 1; i >= 0; i-- {
		cand := cur
		cand.Ops = append(append([]Op{}, cur.Ops[:i]...), cur.Ops[i+1:]...)
		if still(&cand) {
			cur = cand
		}
	}
	return &cur
}

func main() {
	lib.Main("C11", func(c *lib.Ctx) {
		c.Header = "From Coq Require Import List ZArith NArith.\nImport ListNotations.\nFrom GMS Require Import Rel.C02Logical Corr.C02 Phys.C11Cache Corr.C11.\nOpen Scope N_scope."
		c.CaseType = "C11.case"
		c.MismatchFn = "C11.mismatches"
		c.SetRule("histories of 8-22 steps over 1-4 tables (INT/DECIMAL/VARCHAR, <= 7 rows, NULLs, secondary indexes) in 1-3 sessions: " +
			"INSERT / DELETE WHERE c = v / UPDATE SET c' = v' WHERE c = v / DELETE all / DROP+CREATE / ADD-DROP INDEX interleaved with " +
			"1-3 queries of the C02 grammar (joins, correlated and uncorrelated IN / EXISTS / scalar subqueries) re-issued with the same " +
			"text, plain and via PREPARE / EXECUTE; every history ends by re-running every query and every prepared statement. " +
			"Non-trivial = at least one query step; distinct = distinct (queries, ops).")
		if c.ReplayFile != "" {
			var rec struct {
				Shrunk *History `json:"shrunk"`
			}
			lib.LoadReplay(c.ReplayFile, &rec)
			if rec.Shrunk != nil {
				run(c, rec.Shrunk)
				return
			}
			var h History
			lib.LoadReplay(c.ReplayFile, &h)
			run(c, &h)
			return
		}
		n := 0
		for _, h := range corpus() {
			run(c, h)
			n++
		}
		for ; n < c.N; n++ {
			run(c, genHistory(c.R.Fork()))
		}
	})
}

// corpus: query / modify / re-query with an uncorrelated IN subquery, a join and a prepared statement
func corpus() []*History {
	iv := func(vs ...int) [][]Val {
		var out [][]Val
		for _, v := range vs {
			out = append(out, []Val{*intv(int64(v))})
		}
		return out
	}
	col := func(d, i int) *Expr { return &Expr{Op: "col", D: d, I: i} }
	tbl := func(t int) *Query { return &Query{K: "table", T: t} }
	sel := func(src *Query, wh *Expr, proj ...*Expr) *Query {
		return &Query{K: "select", Src: src, Wh: wh, Proj: proj}
	}
	inq := sel(tbl(0), &Expr{Op: "inq", A: col(0, 0), Q: sel(tbl(1), tru(), col(0, 0))}, col(0, 0))
	join := sel(&Query{K: "join", JK: "inner", L: tbl(0), R: tbl(1), On: &Expr{Op: "cmp", O: "=", A: col(0, 0), B: col(0, 1)}}, tru(), col(0, 0))
	scal := sel(tbl(0), tru(), col(0, 0), &Expr{Op: "scalar", Q: &Query{K: "group", Src: tbl(1), Wh: tru(), Aggs: []Agg{{F: "count*", E: tru()}}, Hav: tru(), Proj: []*Expr{col(0, 0)}}})
	tabs := []Table{{Types: []string{"int"}, PK: -1, Rows: iv(1, 2, 3)}, {Types: []string{"int"}, PK: -1, Rows: iv(1)}}
	two := intv(2)
	scan1 := sel(tbl(1), tru(), col(0, 0))
	iv2 := func(a, b int) []Val { return []Val{*intv(int64(a)), *intv(int64(b))} }
	trigTabs := []Table{{Types: []string{"int", "int"}, PK: -1, Rows: [][]Val{iv2(1, 0)}}, {Types: []string{"int"}, PK: -1, Rows: iv(100)}}
	return []*History{{
		// a statement that fails in session 0 after resolving t1, then another session commits a write to t1
		Tables: tabs, Queries: []*Query{scan1, inq}, Ordered: []bool{false, false}, NSess: 2,
		Ops: []Op{
			{K: "query", Sid: 0, QI: 0}, {K: "fail", Sid: 0, T: 1, Fail: 0}, {K: "insert", Sid: 1, T: 1, Rows: iv(2)}, {K: "query", Sid: 0, QI: 0},
			{K: "fail", Sid: 0, T: 1, Fail: 2}, {K: "insert", Sid: 1, T: 1, Rows: iv(3)}, {K: "query", Sid: 0, QI: 1},
			{K: "insert", Sid: 0, T: 0, Rows: iv(7)}, {K: "query", Sid: 1, QI: 0}, {K: "query", Sid: 1, QI: 1},
			{K: "fail", Sid: 1, T: 0, Fail: 1}, {K: "delete", Sid: 0, T: 1, C: 0, V: two}, {K: "query", Sid: 1, QI: 0},
		},
	}, {
		// triggers whose body holds an uncorrelated scalar subquery over data changed by the same statement
		Tables: trigTabs, Queries: []*Query{sel(tbl(0), tru(), col(0, 0), col(0, 1)), scan1}, Ordered: []bool{false, false}, NSess: 1,
		Trig: true, TrigT: 0, TrigC: 1,
		Ops: []Op{
			{K: "insert", T: 0, Rows: [][]Val{iv2(2, 0), iv2(3, 0), iv2(4, 0)}}, {K: "query", QI: 0}, {K: "query", QI: 1},
			{K: "insert", T: 0, Rows: [][]Val{iv2(5, 0), iv2(6, 0)}}, {K: "query", QI: 0}, {K: "query", QI: 1},
		},
	}, {
		Tables: tabs, Queries: []*Query{inq, join, scal}, Ordered: []bool{false, false, false}, NSess: 2,
		Ops: []Op{
			{K: "prepare", Sid: 0, Name: 0, QI: 0}, {K: "prepare", Sid: 1, Name: 1, QI: 2},
			{K: "query", Sid: 0, QI: 0}, {K: "query", Sid: 0, QI: 1}, {K: "query", Sid: 1, QI: 2},
			{K: "insert", Sid: 1, T: 1, Rows: iv(2)},
			{K: "query", Sid: 0, QI: 0}, {K: "execute", Sid: 0, Name: 0}, {K: "query", Sid: 0, QI: 1}, {K: "execute", Sid: 1, Name: 1},
			{K: "delete", Sid: 0, T: 0, C: 0, V: two},
			{K: "query", Sid: 1, QI: 0}, {K: "execute", Sid: 0, Name: 0}, {K: "query", Sid: 1, QI: 1},
			{K: "recreate", Sid: 1, T: 1},
			{K: "query", Sid: 0, QI: 0}, {K: "execute", Sid: 0, Name: 0}, {K: "query", Sid: 0, QI: 1}, {K: "execute", Sid: 1, Name: 1},
		},
	}}
}
