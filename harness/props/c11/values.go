// C11 driver: canonical engine values and comparison with reference values (same code as the C02 driver).

package main

import (
	"fmt"
	"math"
	"math/big"

	"github.com/cockroachdb/apd/v3"

	"verifharness/lib"
)

// EV: an engine value in canonical form. Kind 0 NULL, 1 exact number M*10^-S, 2 string, 3 float64, 9 unknown
type EV struct {
	Kind int
	M    *big.Int
	S    int
	Str  string
	F    float64
}

func evOf(v interface{}) EV {
	switch x := v.(type) {
	case nil:
		return EV{}
	case bool:
		if x {
			return EV{Kind: 1, M: big.NewInt(1)}
		}
		return EV{Kind: 1, M: big.NewInt(0)}
	case int:
		return EV{Kind: 1, M: big.NewInt(int64(x))}
	case int8:
		return EV{Kind: 1, M: big.NewInt(int64(x))}
	case int16:
		return EV{Kind: 1, M: big.NewInt(int64(x))}
	case int32:
		return EV{Kind: 1, M: big.NewInt(int64(x))}
	case int64:
		return EV{Kind: 1, M: big.NewInt(x)}
	case uint8:
		return EV{Kind: 1, M: big.NewInt(int64(x))}
	case uint16:
		return EV{Kind: 1, M: big.NewInt(int64(x))}
	case uint32:
		return EV{Kind: 1, M: big.NewInt(int64(x))}
	case uint64:
		return EV{Kind: 1, M: new(big.Int).SetUint64(x)}
	case uint:
		return EV{Kind: 1, M: new(big.Int).SetUint64(uint64(x))}
	case float32:
		return evFloat(float64(x))
	case float64:
		return evFloat(x)
	case string:
		return EV{Kind: 2, Str: x}
	case []byte:
		return EV{Kind: 2, Str: string(x)}
	case *apd.Decimal:
		if x == nil {
			return EV{}
		}
		return evDec(x)
	case apd.Decimal:
		return evDec(&x)
	}
	return EV{Kind: 9, Str: fmt.Sprintf("%T:%v", v, v)}
}

func evFloat(f float64) EV {
	if math.IsNaN(f) || math.IsInf(f, 0) {
		return EV{Kind: 9, Str: fmt.Sprint(f)}
	}
	return EV{Kind: 3, F: f}
}

func evDec(d *apd.Decimal) EV {
	if d.Form != apd.Finite {
		return EV{Kind: 9, Str: d.String()}
	}
	m := new(big.Int).Set(d.Coeff.MathBigInt())
	if d.Negative {
		m.Neg(m)
	}
	if d.Exponent > 0 {
		m.Mul(m, p10(int(d.Exponent)))
		return EV{Kind: 1, M: m}
	}
	return EV{Kind: 1, M: m, S: int(-d.Exponent)}
}

func (e EV) String() string {
	switch e.Kind {
	case 0:
		return "NULL"
	case 1:
		if e.S == 0 {
			return e.M.String()
		}
		return RV{Kind: 1, M: e.M, S: e.S}.String()
	case 2:
		return fmt.Sprintf("%q", e.Str)
	case 3:
		return fmt.Sprintf("float:%v", e.F)
	}
	return "?" + e.Str
}

func (v RV) String() string {
	switch v.Kind {
	case 0:
		return "NULL"
	case 2:
		return fmt.Sprintf("%q", v.Str)
	}
	if v.S == 0 {
		return v.M.String()
	}
	neg := v.M.Sign() < 0
	d := new(big.Int).Abs(v.M).String()
	for len(d) <= v.S {
		d = "0" + d
	}
	t := d[:len(d)-v.S] + "." + d[len(d)-v.S:]
	if neg {
		t = "-" + t
	}
	return t
}

// floatRound: f rounded to s decimals (exactly, halves away from zero), as an integer mantissa
func floatRound(f float64, s int) *big.Int {
	r := new(big.Rat).SetFloat64(f)
	r.Mul(r, new(big.Rat).SetInt(p10(s)))
	neg := r.Sign() < 0
	r.Abs(r)
	n := new(big.Int).Mul(r.Num(), big.NewInt(2))
	n.Add(n, r.Denom())
	n.Quo(n, new(big.Int).Mul(r.Denom(), big.NewInt(2)))
	if neg {
		n.Neg(n)
	}
	return n
}

var lenientText bool // accept a string that spells the expected number (classification of a known finding only)

func valMatches(v RV, e EV) bool {
	if lenientText && v.Kind == 1 && e.Kind == 2 {
		if r, ok := new(big.Rat).SetString(e.Str); ok {
			x := new(big.Rat).SetFrac(v.M, p10(v.S))
			return x.Cmp(r) == 0
		}
	}
	switch {
	case v.Kind == 0:
		return e.Kind == 0
	case v.Kind == 2:
		return e.Kind == 2 && e.Str == v.Str
	case e.Kind == 1:
		return v.key() == RV{Kind: 1, M: e.M, S: e.S}.key()
	case e.Kind == 3:
		return floatRound(e.F, v.S).Cmp(v.M) == 0
	}
	return false
}

func rowMatches(r []RV, e []EV) bool {
	if len(r) != len(e) {
		return false
	}
	for i := range r {
		if !valMatches(r[i], e[i]) {
			return false
		}
	}
	return true
}

func rowsMatch(ordered bool, ref [][]RV, got [][]EV) bool {
	if len(ref) != len(got) {
		return false
	}
	if ordered {
		for i := range ref {
			if !rowMatches(ref[i], got[i]) {
				return false
			}
		}
		return true
	}
	used := make([]bool, len(got))
outer:
	for _, r := range ref {
		for j, e := range got {
			if !used[j] && rowMatches(r, e) {
				used[j] = true
				continue outer
			}
		}
		return false
	}
	return true
}

// ---------- Coq printing of observations ----------

func coqOval(e EV) string {
	switch e.Kind {
	case 0:
		return "ONull"
	case 1:
		if e.S == 0 {
			return "(OInt " + lib.CoqZStr(e.M.String()) + ")"
		}
		return "(ODec " + lib.CoqZStr(e.M.String()) + " " + coqNat(e.S) + ")"
	case 2:
		return "(OStr " + coqStrN(e.Str) + ")"
	case 3:
		if e.F == 0 {
			return "(OFloat 0%Z 0%Z)"
		}
		fr, ex := math.Frexp(e.F)
		m := int64(fr * (1 << 53))
		return "(OFloat " + lib.CoqZ(m) + " " + lib.CoqZ(int64(ex-53)) + ")"
	}
	return "(OStr [255%N;255%N;255%N])"
}

func coqObsRows(rows [][]EV) string {
	return "(ORows " + lib.CoqListOf(rows, func(r []EV) string { return lib.CoqListOf(r, coqOval) }) + ")"
}

func evOfRV(v RV) EV {
	switch v.Kind {
	case 0:
		return EV{}
	case 2:
		return EV{Kind: 2, Str: v.Str}
	}
	return EV{Kind: 1, M: v.M, S: v.S}
}

func coqRefRows(rows [][]RV) string {
	es := make([][]EV, len(rows))
	for i, r := range rows {
		for _, v := range r {
			es[i] = append(es[i], evOfRV(v))
		}
	}
	return coqObsRows(es)
}

