// C02 driver, part 6: shapes that trigger the known findings (findings/C02.json), one per ROOT CAUSE.  The
// generator avoids them most of the time (so that they do not drown everything else) and a failing, shrunk case
// that still contains one of them gets that finding's signature, whatever data / aliases / surrounding clauses
// it was reached through.
package main

import (
	"encoding/json"
	"strings"
)

func peel(q *Query) *Query {
	for q != nil && q.K == "order" {
		q = q.Q
	}
	return q
}

// isConstant: no column references and no subqueries
func isConstant(e *Expr) bool {
	if e == nil {
		return true
	}
	if e.Op == "col" || e.Q != nil {
		return false
	}
	for _, l := range e.L {
		if !isConstant(l) {
			return false
		}
	}
	return isConstant(e.A) && isConstant(e.B)
}

// staticTruth: three-valued partial evaluation with unknown columns: 1 TRUE, 0 FALSE, -1 NULL, 2 unknown
func staticTruth(e *Expr) int {
	if e == nil {
		return 2
	}
	if isConstant(e) {
		v, err := (&interp{}).expr(e, nil)
		if err != nil {
			return 2
		}
		t, err := truth(v)
		if err != nil {
			return 2
		}
		return t
	}
	isNullLit := func(x *Expr) bool { return x != nil && x.Op == "const" && x.V.K == "null" }
	switch e.Op {
	case "cmp", "arith":
		if isNullLit(e.A) || isNullLit(e.B) {
			return -1
		}
	case "not":
		switch staticTruth(e.A) {
		case 1:
			return 0
		case 0:
			return 1
		case -1:
			return -1
		}
	case "and":
		a, b := staticTruth(e.A), staticTruth(e.B)
		switch {
		case a == 0 || b == 0:
			return 0
		case a == 1 && b == 1:
			return 1
		case (a == -1 || a == 1) && (b == -1 || b == 1):
			return -1
		}
	case "or":
		a, b := staticTruth(e.A), staticTruth(e.B)
		switch {
		case a == 1 || b == 1:
			return 1
		case a == 0 && b == 0:
			return 0
		case (a == -1 || a == 0) && (b == -1 || b == 0):
			return -1
		}
	}
	return 2
}

// constFalseish: a condition that is statically not TRUE (the engine folds it and prunes the join)
func constFalseish(e *Expr) bool {
	if e == nil {
		return false
	}
	if t := staticTruth(e); t == 0 || t == -1 {
		return true
	}
	switch e.Op {
	case "and":
		return constFalseish(e.A) || constFalseish(e.B)
	case "or":
		return constFalseish(e.A) && constFalseish(e.B)
	}
	return false
}

// emptyDerived: a derived table that is statically empty (WHERE folds to not-TRUE)
func emptyDerived(q *Query) bool {
	b := peel(q)
	return b != nil && b.K == "select" && constFalseish(b.Wh)
}

func hasFalseJoin(q *Query, outerOnly bool) bool {
	if q == nil || q.K != "join" {
		return false
	}
	here := q.JK != "cross" && constFalseish(q.On)
	if outerOnly && q.JK != "left" && q.JK != "right" {
		here = false
	}
	if (q.JK == "left" && emptyDerived(q.R)) || (q.JK == "right" && emptyDerived(q.L)) {
		here = true
	}
	return here || hasFalseJoin(q.L, outerOnly) || hasFalseJoin(q.R, outerOnly)
}

func hasOuterJoin(q *Query) bool {
	if q == nil || q.K != "join" {
		return false
	}
	return q.JK == "left" || q.JK == "right" || hasOuterJoin(q.L) || hasOuterJoin(q.R)
}

// falseJoinOverOuterJoin: an inner join with a statically false ON above an outer join
func falseJoinOverOuterJoin(q *Query) bool {
	if q == nil || q.K != "join" {
		return false
	}
	if q.JK == "inner" && constFalseish(q.On) && (hasOuterJoin(q.L) || hasOuterJoin(q.R)) {
		return true
	}
	return falseJoinOverOuterJoin(q.L) || falseJoinOverOuterJoin(q.R)
}

func hasAnti(e *Expr) bool {
	if e == nil {
		return false
	}
	if e.Op == "not" && (e.A.Op == "exists" || e.A.Op == "inq") {
		return true
	}
	return hasAnti(e.A) || hasAnti(e.B)
}

func hasSemi(e *Expr) bool {
	if e == nil {
		return false
	}
	if e.Op == "not" && (e.A.Op == "exists" || e.A.Op == "inq") {
		return false
	}
	if e.Op == "exists" || e.Op == "inq" {
		return true
	}
	return hasSemi(e.A) || hasSemi(e.B)
}

// hoistable: the filter contains an uncorrelated subquery predicate with no column operand (EXISTS (closed),
// const IN (closed)); the engine hoists it out of the enclosing subquery
func hoistable(e *Expr) bool {
	if e == nil {
		return false
	}
	switch e.Op {
	case "exists":
		return true
	case "inq":
		return isConstant(e.A)
	case "and", "or", "not":
		return hoistable(e.A) || hoistable(e.B)
	}
	return false
}

// resolveLeaf: the FROM leaf (base table or derived query) and its column that position pos of the row of src denotes
func resolveLeaf(src *Query, pos int, tables []Table) (*Query, int) {
	if src == nil {
		return nil, 0
	}
	if src.K == "join" {
		wl := width(src.L, tables)
		if pos < wl {
			return resolveLeaf(src.L, pos, tables)
		}
		return resolveLeaf(src.R, pos-wl, tables)
	}
	return src, pos
}

func indexedCol(leaf *Query, i int, tables []Table) bool {
	if leaf == nil || leaf.K != "table" || leaf.T >= len(tables) {
		return false
	}
	t := tables[leaf.T]
	if t.PK == i {
		return true
	}
	for _, j := range t.Idx {
		if j == i {
			return true
		}
	}
	return false
}

// equiJoinOnIndexes: some join of the tree has ON a = b with both columns indexed base-table columns
func equiJoinOnIndexes(root, q *Query, tables []Table) bool {
	if q == nil || q.K != "join" {
		return false
	}
	var find func(e *Expr) bool
	find = func(e *Expr) bool {
		if e == nil {
			return false
		}
		if e.Op == "cmp" && e.O == "=" && e.A.Op == "col" && e.B.Op == "col" && e.A.D == 0 && e.B.D == 0 {
			la, ia := resolveLeaf(q, e.A.I, tables)
			lb, ib := resolveLeaf(q, e.B.I, tables)
			if indexedCol(la, ia, tables) && indexedCol(lb, ib, tables) {
				return true
			}
		}
		if e.Op == "and" {
			return find(e.A) || find(e.B)
		}
		return false
	}
	return (q.JK != "cross" && find(q.On)) || equiJoinOnIndexes(root, q.L, tables) || equiJoinOnIndexes(root, q.R, tables)
}

// nullTypedSetopLeaf: a FROM leaf is a set operation with a column that is NULL-typed in exactly one branch
func nullTypedSetopLeaf(src *Query, tables []Table) bool {
	if src == nil {
		return false
	}
	if src.K == "join" {
		return nullTypedSetopLeaf(src.L, tables) || nullTypedSetopLeaf(src.R, tables)
	}
	p := peel(src)
	if p == nil || p.K != "setop" {
		return false
	}
	c := &checker{tables: tables}
	lt, err1 := c.query(p.L, nil)
	rt, err2 := c.query(p.R, nil)
	if err1 != nil || err2 != nil || len(lt) != len(rt) {
		return false
	}
	for i := range lt {
		if (lt[i] == tNull) != (rt[i] == tNull) {
			return true
		}
	}
	return false
}

func setopLeafWidth(src *Query, tables []Table) int {
	if src == nil {
		return 0
	}
	if src.K == "join" {
		a, b := setopLeafWidth(src.L, tables), setopLeafWidth(src.R, tables)
		if a > b {
			return a
		}
		return b
	}
	if p := peel(src); p != nil && p.K == "setop" {
		return width(src, tables)
	}
	return 0
}

var triggerOrder = []string{
	"in-subquery-projecting-null-literal",
	"int-in-decimal-subquery",
	"in-subquery-projecting-outer-column",
	"null-in-empty-correlated-subquery",
	"exists-over-global-aggregate",
	"in-subquery-over-global-aggregate",
	"exists-over-limit",
	"exists-over-outer-join-with-false-condition",
	"in-subquery-over-outer-join-with-false-condition",
	"correlated-subquery-with-hoistable-uncorrelated-filter",
	"null-literal-set-operation-column-in-scalar-subquery",
	"decimal-literal-compared-with-product",
	"distinct-order-by-position",
	"having-references-group-by-expression",
	"having-aggregate-over-join",
	"aggregates-differing-only-in-letter-case",
	"anti-join-over-empty-join",
	"semi-and-anti-join-in-one-filter",
	"false-inner-join-over-outer-join",
	"set-operation-order-by-limit-offset",
	"set-operation-null-literal-column-order-by",
	"order-by-desc-over-join-of-indexed-columns",
	"outer-column-named-like-inner-indexed-column",
	"indexed-int-column-compared-with-decimal",
}

// triggers returns the names of the known-finding shapes present in the case, in a fixed priority order.
func triggers(cs *Case) []string {
	found := map[string]bool{}
	s := collect(cs)
	for _, p := range s.qs {
		if q := *p; q.K == "join" && q.JK != "cross" && decLiteralVsProduct(q.On) {
			found["decimal-literal-compared-with-product"] = true
		}
	}
	for _, p := range s.es {
		e := *p
		if e.Op == "inq" && projectsNullLiteral(e.Q, 0, cs.Tables) {
			found["in-subquery-projecting-null-literal"] = true
		}
		if e.Op == "inq" {
			if b := peel(e.Q); b != nil && (b.K == "select" || b.K == "group") && len(b.Proj) > 0 && projOuterOnly(b) {
				found["in-subquery-projecting-outer-column"] = true
			}
			if e.A.Op == "const" && e.A.V.K == "null" && escapesQ(e.Q, 0) {
				found["null-in-empty-correlated-subquery"] = true
			}
		}
		if e.Op == "exists" || e.Op == "inq" || e.Op == "scalar" {
			b := peel(e.Q)
			if b != nil && b.K == "group" && len(b.Keys) == 0 {
				if e.Op == "exists" {
					found["exists-over-global-aggregate"] = true
				} else if e.Op == "inq" {
					found["in-subquery-over-global-aggregate"] = true
				}
			}
			if e.Op == "exists" && e.Q.K == "order" && e.Q.HasLim {
				found["exists-over-limit"] = true
			}
			if e.Op == "exists" && b != nil && (b.K == "select" || b.K == "group") && hasFalseJoin(b.Src, true) {
				found["exists-over-outer-join-with-false-condition"] = true
			}
			if e.Op == "inq" && b != nil && (b.K == "select" || b.K == "group") && hasFalseJoin(b.Src, true) {
				found["in-subquery-over-outer-join-with-false-condition"] = true
			}
			if b != nil && (b.K == "select" || b.K == "group") && escapesQ(e.Q, 0) && hoistable(b.Wh) {
				found["correlated-subquery-with-hoistable-uncorrelated-filter"] = true
			}
		}
	}
	for _, p := range s.qs {
		q := *p
		switch q.K {
		case "order":
			if len(q.OKeys) > 0 && !q.ByName && (q.Q.K == "select" || q.Q.K == "group") && q.Q.Dist {
				found["distinct-order-by-position"] = true
			}
			if q.HasLim && q.Off > 0 && q.Q.K == "setop" {
				found["set-operation-order-by-limit-offset"] = true
			}
			if len(q.OKeys) > 0 && q.Q.K == "setop" {
				for _, k := range q.OKeys {
					if projectsNullLiteral(q.Q, k.I, cs.Tables) {
						found["set-operation-null-literal-column-order-by"] = true
					}
				}
			}
			desc := false
			for _, k := range q.OKeys {
				desc = desc || k.Desc
			}
			if desc && (q.Q.K == "select" || q.Q.K == "group") && equiJoinOnIndexes(q.Q.Src, q.Q.Src, cs.Tables) {
				found["order-by-desc-over-join-of-indexed-columns"] = true
			}
		case "group":
			for i, k := range q.Keys {
				if k.Op != "col" && mentionsPos(q.Hav, i) {
					found["having-references-group-by-expression"] = true
				}
			}
			if q.Src.K == "join" && mentionsAgg(q.Hav, len(q.Keys)) {
				found["having-aggregate-over-join"] = true
			}
			for i := range q.Aggs {
				for j := i + 1; j < len(q.Aggs); j++ {
					a, _ := json.Marshal(q.Aggs[i])
					b, _ := json.Marshal(q.Aggs[j])
					if string(a) != string(b) && strings.EqualFold(string(a), string(b)) {
						found["aggregates-differing-only-in-letter-case"] = true
					}
				}
			}
		}
		if q.K == "select" || q.K == "group" {
			if hasFalseJoin(q.Src, false) && (hasAnti(q.Wh) || hasSemi(q.Wh)) {
				found["anti-join-over-empty-join"] = true
			}
			if hasSemi(q.Wh) && hasAnti(q.Wh) {
				found["semi-and-anti-join-in-one-filter"] = true
			}
			if falseJoinOverOuterJoin(q.Src) {
				found["false-inner-join-over-outer-join"] = true
			}
			// a scalar subquery, one of several select items, over a set-operation derived table in which a NULL-literal
			// column of one branch meets a typed column of the other (the engine adds a converting projection)
			if len(q.Proj) >= 2 {
				for _, pe := range q.Proj {
					if pe.Op != "scalar" {
						continue
					}
					if b := peel(pe.Q); b != nil && (b.K == "select" || b.K == "group") && nullTypedSetopLeaf(b.Src, cs.Tables) {
						found["null-literal-set-operation-column-in-scalar-subquery"] = true
					}
				}
			}
		}
	}
	c := &checker{tables: cs.Tables}
	c.query(cs.Q, nil)
	indexed := false
	for _, t := range cs.Tables {
		for i, ty := range t.Types {
			if ty != "int" {
				continue
			}
			if t.PK == i {
				indexed = true
			}
			for _, j := range t.Idx {
				indexed = indexed || j == i
			}
		}
	}
	if c.mixedIntDec && indexed {
		found["indexed-int-column-compared-with-decimal"] = true
	}
	if c.intInDecSubquery {
		found["int-in-decimal-subquery"] = true
	}
	curTables = cs.Tables
	pr := &printer{flags: map[string]bool{}}
	pr.queryT(cs.Q, nil, cs.Tables)
	for k := range pr.flags {
		found[k] = true
	}
	var out []string
	for _, n := range triggerOrder {
		if found[n] {
			out = append(out, n)
		}
	}
	return out
}

// projectsNullLiteral: does (a branch of) the query project a statically NULL expression at position pos?
func projectsNullLiteral(q *Query, pos int, tables []Table) bool {
	q = peel(q)
	if q == nil {
		return false
	}
	switch q.K {
	case "setop":
		return projectsNullLiteral(q.L, pos, tables) || projectsNullLiteral(q.R, pos, tables)
	case "select", "group":
		return len(q.Proj) > pos && staticNull(q.Proj[pos], q, tables)
	}
	return false
}

// staticNull: the NULL literal, MIN/MAX/SUM/AVG of it, a scalar subquery projecting it, or a column of a derived
// table that projects it
func staticNull(e *Expr, blk *Query, tables []Table) bool {
	switch e.Op {
	case "const":
		return e.V.K == "null"
	case "col":
		if blk == nil || e.D != 0 {
			return false
		}
		if blk.K == "group" {
			if e.I < len(blk.Keys) {
				return staticNull(blk.Keys[e.I], &Query{K: "select", Src: blk.Src}, tables)
			}
			if e.I-len(blk.Keys) < len(blk.Aggs) {
				a := blk.Aggs[e.I-len(blk.Keys)]
				return a.F != "count" && a.F != "countd" && a.F != "count*" && staticNull(a.E, &Query{K: "select", Src: blk.Src}, tables)
			}
			return false
		}
		if leaf, i := resolveLeaf(blk.Src, e.I, tables); leaf != nil && leaf.K != "table" {
			return projectsNullLiteral(leaf, i, tables)
		}
	case "scalar":
		return projectsNullLiteral(e.Q, 0, tables)
	}
	return false
}

// projOuterOnly: the first select expression of the block depends on outer columns only (directly, or as the
// argument of the aggregate it refers to)
func projOuterOnly(b *Query) bool {
	p := b.Proj[0]
	if b.K == "group" {
		if p.Op == "col" && p.D == 0 {
			if p.I < len(b.Keys) {
				p = b.Keys[p.I]
			} else if p.I-len(b.Keys) < len(b.Aggs) {
				p = b.Aggs[p.I-len(b.Keys)].E
			}
		} else if innerRef(p) {
			return false
		}
	}
	return escapesE(p, 1) && !innerRef(p)
}

// decLiteralVsProduct: a = b where one side is a DECIMAL literal and the other a product
func decLiteralVsProduct(e *Expr) bool {
	if e == nil {
		return false
	}
	if e.Op == "cmp" {
		lit := func(x *Expr) bool { return x.Op == "const" && x.V.K == "dec" }
		prod := func(x *Expr) bool { return x.Op == "arith" && x.O == "*" && !isConstant(x) }
		if (lit(e.A) && prod(e.B)) || (lit(e.B) && prod(e.A)) {
			return true
		}
	}
	if decLiteralVsProduct(e.A) || decLiteralVsProduct(e.B) {
		return true
	}
	for _, l := range e.L {
		if decLiteralVsProduct(l) {
			return true
		}
	}
	return false
}

// innerRef: does e (outside subqueries) reference a column of its own block (depth 0)?
func innerRef(e *Expr) bool {
	if e == nil {
		return false
	}
	if e.Op == "col" {
		return e.D == 0
	}
	if innerRef(e.A) || innerRef(e.B) {
		return true
	}
	for _, l := range e.L {
		if innerRef(l) {
			return true
		}
	}
	return false
}

func mentionsPos(e *Expr, pos int) bool {
	if e == nil {
		return false
	}
	if e.Op == "col" {
		return e.D == 0 && e.I == pos
	}
	if mentionsPos(e.A, pos) || mentionsPos(e.B, pos) {
		return true
	}
	for _, l := range e.L {
		if mentionsPos(l, pos) {
			return true
		}
	}
	return false
}
