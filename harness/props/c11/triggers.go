// C02 driver, part 6: shapes that trigger the known findings (findings/C02.json).  The generator avoids them
// most of the time (so that they do not drown everything else) and a failing, shrunk case that still
// contains one of them gets that finding's signature.
package main

import (
	"encoding/json"
	"strings"
)

func peel(q *Query) *Query {
	for q != nil && q.K == "order" {
		q = q.Q
	}
	return q
}

func constFalseish(e *Expr) bool {
	if e == nil {
		return false
	}
	switch e.Op {
	case "const":
		return e.V.K == "null" || (e.V.K == "int" && e.V.I == 0) || (e.V.K == "dec" && e.V.I == 0)
	case "and":
		return constFalseish(e.A) || constFalseish(e.B)
	case "or":
		return constFalseish(e.A) && constFalseish(e.B)
	}
	return false
}

func hasFalseJoin(q *Query, outerOnly bool) bool {
	if q == nil || q.K != "join" {
		return false
	}
	here := q.JK != "cross" && constFalseish(q.On)
	if outerOnly && q.JK != "left" && q.JK != "right" {
		here = false
	}
	return here || hasFalseJoin(q.L, outerOnly) || hasFalseJoin(q.R, outerOnly)
}

func hasAnti(e *Expr) bool {
	if e == nil {
		return false
	}
	if e.Op == "not" && (e.A.Op == "exists" || e.A.Op == "inq") {
		return true
	}
	return hasAnti(e.A) || hasAnti(e.B)
}

func hasSemi(e *Expr) bool {
	if e == nil {
		return false
	}
	if e.Op == "not" && (e.A.Op == "exists" || e.A.Op == "inq") {
		return false
	}
	if e.Op == "exists" || e.Op == "inq" {
		return true
	}
	return hasSemi(e.A) || hasSemi(e.B)
}

var triggerOrder = []string{
	"in-subquery-projecting-null-literal",
	"exists-over-global-aggregate",
	"in-subquery-over-global-aggregate",
	"exists-over-limit",
	"exists-over-outer-join-with-false-condition",
	"distinct-order-by-position",
	"having-references-group-by-expression",
	"having-aggregate-over-join",
	"aggregates-differing-only-in-letter-case",
	"anti-join-over-empty-join",
	"semi-and-anti-join-in-one-filter",
	"set-operation-order-by-limit-offset",
	"set-operation-null-literal-column-order-by",
	"outer-column-named-like-inner-indexed-column",
	"indexed-int-column-compared-with-decimal",
}

// triggers returns the names of the known-finding shapes present in the case, in a fixed priority order.
func triggers(cs *Case) []string {
	found := map[string]bool{}
	s := collect(cs)
	for _, p := range s.es {
		e := *p
		if e.Op == "inq" && projectsNullLiteral(e.Q, 0) {
			found["in-subquery-projecting-null-literal"] = true
		}
		if e.Op == "exists" || e.Op == "inq" {
			b := peel(e.Q)
			if b != nil && b.K == "group" && len(b.Keys) == 0 {
				if e.Op == "exists" {
					found["exists-over-global-aggregate"] = true
				} else {
					found["in-subquery-over-global-aggregate"] = true
				}
			}
			if e.Op == "exists" && e.Q.K == "order" && e.Q.HasLim {
				found["exists-over-limit"] = true
			}
			if e.Op == "exists" && b != nil && (b.K == "select" || b.K == "group") && hasFalseJoin(b.Src, true) {
				found["exists-over-outer-join-with-false-condition"] = true
			}
		}
	}
	for _, p := range s.qs {
		q := *p
		switch q.K {
		case "order":
			if len(q.OKeys) > 0 && !q.ByName && (q.Q.K == "select" || q.Q.K == "group") && q.Q.Dist {
				found["distinct-order-by-position"] = true
			}
			if q.HasLim && q.Off > 0 && q.Q.K == "setop" {
				found["set-operation-order-by-limit-offset"] = true
			}
			if len(q.OKeys) > 0 && q.Q.K == "setop" {
				for _, k := range q.OKeys {
					if projectsNullLiteral(q.Q, k.I) {
						found["set-operation-null-literal-column-order-by"] = true
					}
				}
			}
		case "group":
			for i, k := range q.Keys {
				if k.Op != "col" && mentionsPos(q.Hav, i) {
					found["having-references-group-by-expression"] = true
				}
			}
			if q.Src.K == "join" && mentionsAgg(q.Hav, len(q.Keys)) {
				found["having-aggregate-over-join"] = true
			}
			for i := range q.Aggs {
				for j := i + 1; j < len(q.Aggs); j++ {
					a, _ := json.Marshal(q.Aggs[i])
					b, _ := json.Marshal(q.Aggs[j])
					if string(a) != string(b) && strings.EqualFold(string(a), string(b)) {
						found["aggregates-differing-only-in-letter-case"] = true
					}
				}
			}
		}
		if (q.K == "select" || q.K == "group") && hasFalseJoin(q.Src, false) && hasAnti(q.Wh) {
			found["anti-join-over-empty-join"] = true
		}
		if (q.K == "select" || q.K == "group") && hasSemi(q.Wh) && hasAnti(q.Wh) {
			found["semi-and-anti-join-in-one-filter"] = true
		}
	}
	c := &checker{tables: cs.Tables}
	c.query(cs.Q, nil)
	indexed := false
	for _, t := range cs.Tables {
		for i, ty := range t.Types {
			if ty != "int" {
				continue
			}
			if t.PK == i {
				indexed = true
			}
			for _, j := range t.Idx {
				indexed = indexed || j == i
			}
		}
	}
	if c.mixedIntDec && indexed {
		found["indexed-int-column-compared-with-decimal"] = true
	}
	curTables = cs.Tables
	pr := &printer{flags: map[string]bool{}}
	pr.queryT(cs.Q, nil, cs.Tables)
	for k := range pr.flags {
		found[k] = true
	}
	var out []string
	for _, n := range triggerOrder {
		if found[n] {
			out = append(out, n)
		}
	}
	return out
}

// projectsNullLiteral: does (a branch of) the query project the NULL literal at position pos?
func projectsNullLiteral(q *Query, pos int) bool {
	q = peel(q)
	if q == nil {
		return false
	}
	switch q.K {
	case "setop":
		return projectsNullLiteral(q.L, pos) || projectsNullLiteral(q.R, pos)
	case "select", "group":
		return len(q.Proj) > pos && q.Proj[pos].Op == "const" && q.Proj[pos].V.K == "null"
	}
	return false
}

func mentionsPos(e *Expr, pos int) bool {
	if e == nil {
		return false
	}
	if e.Op == "col" {
		return e.D == 0 && e.I == pos
	}
	if mentionsPos(e.A, pos) || mentionsPos(e.B, pos) {
		return true
	}
	for _, l := range e.L {
		if mentionsPos(l, pos) {
			return true
		}
	}
	return false
}
