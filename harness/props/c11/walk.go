// C11 driver: AST traversal helpers (same code as the C02 driver).
package main

type slots struct {
	qs []**Query
	es []**Expr
}

func (s *slots) walkE(p **Expr) {
	e := *p
	if e == nil {
		return
	}
	s.es = append(s.es, p)
	s.walkE(&e.A)
	s.walkE(&e.B)
	for i := range e.L {
		s.walkE(&e.L[i])
	}
	if e.Q != nil {
		s.walkQ(&e.Q)
	}
}

func (s *slots) walkQ(p **Query) {
	q := *p
	if q == nil {
		return
	}
	s.qs = append(s.qs, p)
	s.walkQ(&q.L)
	s.walkQ(&q.R)
	s.walkE(&q.On)
	s.walkQ(&q.Src)
	s.walkE(&q.Wh)
	for i := range q.Proj {
		s.walkE(&q.Proj[i])
	}
	for i := range q.Keys {
		s.walkE(&q.Keys[i])
	}
	for i := range q.Aggs {
		s.walkE(&q.Aggs[i].E)
	}
	s.walkE(&q.Hav)
	s.walkQ(&q.Q)
}

func collect(c *Case) *slots {
	s := &slots{}
	s.walkQ(&c.Q)
	return s
}

func tru() *Expr { return konst(intv(1)) }
