// scratch SQL shell for exploration: reads statements (one per line) from stdin and prints results
package main

import (
	"bufio"
	"fmt"
	"os"
	"strings"

	"verifharness/lib/eng"
)

func main() {
	e := eng.New("db")
	s := e.Session()
	sc := bufio.NewScanner(os.Stdin)
	sc.Buffer(make([]byte, 1<<20), 1<<20)
	for sc.Scan() {
		q := strings.TrimSpace(sc.Text())
		if q == "" || strings.HasPrefix(q, "--") {
			continue
		}
		q = strings.ReplaceAll(q, "\\n", "\n")
		r := s.Query(q)
		fmt.Printf("> %s\n", q)
		if r.Err != nil {
			fmt.Printf("  ERR[%s]: %v\n", eng.ErrKind(r.Err), r.Err)
			continue
		}
		for _, row := range r.Rows {
			parts := []string{}
			for _, v := range row {
				parts = append(parts, fmt.Sprintf("%v", v))
			}
			fmt.Printf("  %s\n", strings.Join(parts, " | "))
		}
	}
}
