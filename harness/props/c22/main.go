// Driver for C22 (SHOW CREATE output recreates an identical object).
//
// Generates schemas in catalog-normal form (the form the engine stores), writes a CREATE TABLE statement for them
// in an independent surface syntax, runs it on the real engine, records SHOW CREATE TABLE's text for the Coq
// model printer/parser (Corr/C22.v), and evaluates the property on the implementation alone: drop the table,
// re-run the printed text, SHOW CREATE must be byte-identical and a behavioural probe (same inserts accepted /
// rejected, same rows stored, same DESCRIBE) must agree.  Views, triggers and procedures go through the same
// predicate (no model: the engine echoes the stored text).
package main

import (
	"fmt"
	"io"
	"sort"
	"strings"

	"github.com/sirupsen/logrus"

	"verifharness/lib"
	"verifharness/lib/eng"
)

// ---------- schema AST (mirror of Lang/ShowCreate.v) ----------

type Type struct {
	Kind string   `json:"kind"` // int bool decimal float double char varchar text binary varbinary blob date datetime timestamp time year enum set bit json
	Sub  string   `json:"sub,omitempty"`
	Uns  bool     `json:"uns,omitempty"`
	N    string   `json:"n,omitempty"`
	S    string   `json:"s,omitempty"`
	Prec int      `json:"prec,omitempty"`
	Coll string   `json:"coll,omitempty"` // "" = table collation
	Vals []string `json:"vals,omitempty"`
}

type Dflt struct {
	Kind string `json:"kind"`        // null quoted now expr bit hex
	S    string `json:"s,omitempty"` // quoted: value; expr: expression text as printed; bit: binary digits; hex: upper-case hex digits
	P    int    `json:"p,omitempty"`
	Raw  string `json:"raw,omitempty"` // how the generator writes it in SQL (may differ from S, e.g. unquoted number)
}

type Col struct {
	Name    string `json:"name"`
	Ty      Type   `json:"ty"`
	Null    bool   `json:"null"`
	Auto    bool   `json:"auto,omitempty"`
	Gen     *Gen   `json:"gen,omitempty"`
	Def     *Dflt  `json:"def,omitempty"`
	OnUpd   *int   `json:"onupd,omitempty"`
	Comment string `json:"comment,omitempty"`
}

// Gen: GENERATED ALWAYS AS (Expr) [STORED]; Expr is the text SHOW CREATE prints inside the parentheses, SQL how it is written
type Gen struct {
	Expr   string `json:"expr"`
	SQL    string `json:"sql"`
	Stored bool   `json:"stored"`
}

type Check struct {
	Name     string `json:"name"`
	Expr     string `json:"expr"` // as printed inside CHECK (...)
	SQL      string `json:"sql"`
	Enforced bool   `json:"enforced"`
}

type ICol struct {
	Name string `json:"name"`
	Len  string `json:"len,omitempty"`
}

type Index struct {
	Uniq    bool   `json:"uniq,omitempty"`
	Name    string `json:"name"`
	Cols    []ICol `json:"cols"`
	Comment string `json:"comment,omitempty"`
}

type FK struct {
	Name   string   `json:"name"`
	Cols   []string `json:"cols"`
	PTable string   `json:"ptable"`
	PCols  []string `json:"pcols"`
	OnDel  string   `json:"ondel,omitempty"`
	OnUpd  string   `json:"onupd,omitempty"`
}

type Table struct {
	Name    string   `json:"name"`
	Cols    []Col    `json:"cols"`
	PK      []string `json:"pk,omitempty"`
	Idx     []Index  `json:"idx,omitempty"`
	FKs     []FK     `json:"fks,omitempty"`
	Checks  []Check  `json:"checks,omitempty"`
	Temp    bool     `json:"temp,omitempty"` // never generated: the memory database rejects TEMPORARY tables
	AutoInc string   `json:"autoinc,omitempty"`
	Coll    string   `json:"coll"`
	Comment string   `json:"comment,omitempty"`
}

type caseT struct {
	Kind    string   `json:"kind"` // table | object
	T       *Table   `json:"table,omitempty"`
	Setup   []string `json:"setup,omitempty"`  // statements run before (parents, base tables)
	Create  string   `json:"create,omitempty"` // the CREATE statement
	Show    string   `json:"show,omitempty"`   // SHOW CREATE ... statement
	Drop    string   `json:"drop,omitempty"`
	Col     int      `json:"col,omitempty"` // result column holding the statement text
	Probes  []string `json:"probes,omitempty"`
	Tag     string   `json:"tag,omitempty"`
	ObjName string   `json:"objname,omitempty"` // view / trigger / procedure name
	ObjText string   `json:"objtext,omitempty"` // view: the text after AS
	NoModel bool     `json:"nomodel,omitempty"` // behaviour outside the Coq model (implementation-side predicate only)
	Obs     string   `json:"observed,omitempty"`
}

// ---------- Coq printers ----------

var collCoq = map[string]string{
	"utf8mb4_0900_bin": "C_utf8mb4_0900_bin", "utf8mb4_0900_ai_ci": "C_utf8mb4_0900_ai_ci",
	"utf8mb4_general_ci": "C_utf8mb4_general_ci", "utf8mb4_bin": "C_utf8mb4_bin", "utf8mb4_unicode_ci": "C_utf8mb4_unicode_ci",
	"latin1_swedish_ci": "C_latin1_swedish_ci", "latin1_bin": "C_latin1_bin", "ascii_general_ci": "C_ascii_general_ci",
	"ascii_bin": "C_ascii_bin", "utf8mb3_general_ci": "C_utf8mb3_general_ci",
}
var collNames = []string{"utf8mb4_0900_bin", "utf8mb4_0900_ai_ci", "utf8mb4_general_ci", "utf8mb4_bin", "utf8mb4_unicode_ci",
	"latin1_swedish_ci", "latin1_bin", "ascii_general_ci", "ascii_bin", "utf8mb3_general_ci"}

func charsetOf(coll string) string { return coll[:strings.Index(coll, "_")] }

func coqOptColl(c string) string {
	if c == "" {
		return "None"
	}
	return "(Some " + collCoq[c] + ")"
}

var ikindCoq = map[string]string{"tinyint": "ITiny", "smallint": "ISmall", "mediumint": "IMedium", "int": "IInt", "bigint": "IBig"}
var tkindCoq = map[string]string{"tiny": "KTiny", "": "KNorm", "medium": "KMedium", "long": "KLong"}

func coqType(t Type) string {
	switch t.Kind {
	case "int":
		return fmt.Sprintf("(TyInt %s %s)", ikindCoq[t.Sub], lib.CoqBool(t.Uns))
	case "bool":
		return "TyBool"
	case "decimal":
		return fmt.Sprintf("(TyDecimal %s %s)", lib.CoqStr(t.N), lib.CoqStr(t.S))
	case "float":
		return "TyFloat"
	case "double":
		return "TyDouble"
	case "char":
		return fmt.Sprintf("(TyChar %s %s)", lib.CoqStr(t.N), coqOptColl(t.Coll))
	case "varchar":
		return fmt.Sprintf("(TyVarchar %s %s)", lib.CoqStr(t.N), coqOptColl(t.Coll))
	case "text":
		return fmt.Sprintf("(TyText %s %s)", tkindCoq[t.Sub], coqOptColl(t.Coll))
	case "binary":
		return fmt.Sprintf("(TyBinary %s)", lib.CoqStr(t.N))
	case "varbinary":
		return fmt.Sprintf("(TyVarbinary %s)", lib.CoqStr(t.N))
	case "blob":
		return fmt.Sprintf("(TyBlob %s)", tkindCoq[t.Sub])
	case "date":
		return "TyDate"
	case "datetime":
		return fmt.Sprintf("(TyDatetime %d)", t.Prec)
	case "timestamp":
		return fmt.Sprintf("(TyTimestamp %d)", t.Prec)
	case "time":
		return "TyTime"
	case "year":
		return "TyYear"
	case "enum":
		return fmt.Sprintf("(TyEnum %s %s)", lib.CoqListOf(t.Vals, lib.CoqStr), coqOptColl(t.Coll))
	case "set":
		return fmt.Sprintf("(TySet %s %s)", lib.CoqListOf(t.Vals, lib.CoqStr), coqOptColl(t.Coll))
	case "bit":
		return fmt.Sprintf("(TyBit %s)", lib.CoqStr(t.N))
	case "json":
		return "TyJson"
	}
	panic("type " + t.Kind)
}

func coqDef(d *Dflt) string {
	if d == nil {
		return "None"
	}
	switch d.Kind {
	case "null":
		return "(Some DNull)"
	case "quoted":
		return "(Some (DQuoted " + lib.CoqStr(d.S) + "))"
	case "now":
		return fmt.Sprintf("(Some (DNow %d))", d.P)
	case "expr":
		return "(Some (DExpr " + lib.CoqStr(d.S) + "))"
	case "bit":
		return "(Some (DBit " + lib.CoqStr(d.S) + "))"
	case "hex":
		return "(Some (DHex " + lib.CoqStr(d.S) + "))"
	}
	panic("dflt")
}

func coqCol(c Col) string {
	ou := "None"
	if c.OnUpd != nil {
		ou = fmt.Sprintf("(Some %d)", *c.OnUpd)
	}
	gen := "None"
	if c.Gen != nil {
		gen = "(Some " + lib.CoqTuple(lib.CoqStr(c.Gen.Expr), lib.CoqBool(c.Gen.Stored)) + ")"
	}
	return fmt.Sprintf("(mkcol %s %s %s %s %s %s %s %s)", lib.CoqStr(c.Name), coqType(c.Ty), lib.CoqBool(c.Null), lib.CoqBool(c.Auto),
		gen, coqDef(c.Def), ou, lib.CoqStr(c.Comment))
}

func coqIdx(i Index) string {
	cols := lib.CoqListOf(i.Cols, func(c ICol) string {
		return lib.CoqTuple(lib.CoqStr(c.Name), lib.CoqOpt(c.Len != "", lib.CoqStr(c.Len)))
	})
	return fmt.Sprintf("(mkidx %s %s %s %s)", lib.CoqBool(i.Uniq), lib.CoqStr(i.Name), cols, lib.CoqStr(i.Comment))
}

var actCoq = map[string]string{"CASCADE": "ACascade", "SET NULL": "ASetNull", "SET DEFAULT": "ASetDefault", "RESTRICT": "ARestrict", "NO ACTION": "ANoAction"}

func coqAct(a string) string {
	if a == "" {
		return "None"
	}
	return "(Some " + actCoq[a] + ")"
}

func coqFK(f FK) string {
	return fmt.Sprintf("(mkfk %s %s %s %s %s %s)", lib.CoqStr(f.Name), lib.CoqListOf(f.Cols, lib.CoqStr), lib.CoqStr(f.PTable),
		lib.CoqListOf(f.PCols, lib.CoqStr), coqAct(f.OnDel), coqAct(f.OnUpd))
}

func coqTable(t *Table) string {
	cks := lib.CoqListOf(t.Checks, func(k Check) string {
		return fmt.Sprintf("(mkchk %s %s %s)", lib.CoqStr(k.Name), lib.CoqStr(k.Expr), lib.CoqBool(k.Enforced))
	})
	return fmt.Sprintf("(mktable %s %s %s %s %s %s %s %s %s %s)", lib.CoqBool(t.Temp), lib.CoqStr(t.Name), lib.CoqListOf(t.Cols, coqCol),
		lib.CoqListOf(t.PK, lib.CoqStr), lib.CoqListOf(t.Idx, coqIdx), lib.CoqListOf(t.FKs, coqFK), cks,
		lib.CoqOpt(t.AutoInc != "", lib.CoqStr(t.AutoInc)), collCoq[t.Coll], lib.CoqStr(t.Comment))
}

// ---------- SQL writer (independent surface syntax: upper-case type names, BOOLEAN, unquoted numeric defaults,
// inline PRIMARY KEY, INDEX instead of KEY, its own string escaping) ----------

func qid(s string) string { return "`" + strings.ReplaceAll(s, "`", "``") + "`" }

func qstr(s string) string {
	var sb strings.Builder
	sb.WriteByte('\'')
	for i := 0; i < len(s); i++ {
		switch s[i] {
		case '\'':
			sb.WriteString("\\'")
		case '\\':
			sb.WriteString("\\\\")
		case '\n':
			sb.WriteString("\\n")
		case '\r':
			sb.WriteString("\\r")
		case 0:
			sb.WriteString("\\0")
		default:
			sb.WriteByte(s[i])
		}
	}
	sb.WriteByte('\'')
	return sb.String()
}

func sqlType(t Type) string {
	coll := ""
	if t.Coll != "" {
		coll = " CHARACTER SET " + charsetOf(t.Coll) + " COLLATE " + t.Coll
	}
	vals := func() string {
		qs := make([]string, len(t.Vals))
		for i, v := range t.Vals {
			qs[i] = qstr(v)
		}
		return "(" + strings.Join(qs, ", ") + ")"
	}
	switch t.Kind {
	case "int":
		s := strings.ToUpper(t.Sub)
		if t.Sub == "int" {
			s = "INTEGER"
		}
		if t.Uns {
			s += " UNSIGNED"
		}
		return s
	case "bool":
		return "BOOLEAN"
	case "decimal":
		return "DECIMAL(" + t.N + ", " + t.S + ")"
	case "float":
		return "FLOAT"
	case "double":
		return "DOUBLE"
	case "char", "varchar":
		return strings.ToUpper(t.Kind) + "(" + t.N + ")" + coll
	case "text":
		return strings.ToUpper(t.Sub) + "TEXT" + coll
	case "binary", "varbinary", "bit":
		return strings.ToUpper(t.Kind) + "(" + t.N + ")"
	case "blob":
		return strings.ToUpper(t.Sub) + "BLOB"
	case "date", "year", "json":
		return strings.ToUpper(t.Kind)
	case "time":
		return "TIME"
	case "datetime", "timestamp":
		if t.Prec > 0 {
			return fmt.Sprintf("%s(%d)", strings.ToUpper(t.Kind), t.Prec)
		}
		return strings.ToUpper(t.Kind)
	case "enum":
		return "ENUM" + vals() + coll
	case "set":
		return "SET" + vals() + coll
	}
	panic("sqltype")
}

func sqlNow(p int) string {
	if p == 0 {
		return "NOW()"
	}
	return fmt.Sprintf("CURRENT_TIMESTAMP(%d)", p)
}

func sqlCreate(t *Table, r *lib.RNG) string {
	var items []string
	inlinePK := len(t.PK) == 1 && r.Bool()
	for _, c := range t.Cols {
		s := qid(c.Name) + " " + sqlType(c.Ty)
		if !c.Null {
			s += " NOT NULL"
		} else if r.Chance(1, 4) {
			s += " NULL"
		}
		if c.Gen != nil {
			s += " GENERATED ALWAYS AS (" + c.Gen.SQL + ")"
			if c.Gen.Stored {
				s += " STORED"
			} else if r.Bool() {
				s += " VIRTUAL"
			}
		}
		if c.Def != nil {
			switch c.Def.Kind {
			case "null":
				s += " DEFAULT NULL"
			case "now":
				s += " DEFAULT " + sqlNow(c.Def.P)
			default:
				if c.Def.Raw != "" {
					s += " DEFAULT " + c.Def.Raw
				} else {
					s += " DEFAULT " + qstr(c.Def.S)
				}
			}
		}
		if c.OnUpd != nil {
			s += " ON UPDATE " + sqlNow(*c.OnUpd)
		}
		if c.Auto {
			s += " AUTO_INCREMENT"
		}
		if inlinePK && c.Name == t.PK[0] {
			s += " PRIMARY KEY"
		}
		if c.Comment != "" {
			s += " COMMENT " + qstr(c.Comment)
		}
		items = append(items, s)
	}
	var tail []string
	if len(t.PK) > 0 && !inlinePK {
		qs := make([]string, len(t.PK))
		for i, c := range t.PK {
			qs[i] = qid(c)
		}
		tail = append(tail, "PRIMARY KEY ("+strings.Join(qs, ", ")+")")
	}
	for _, ix := range t.Idx {
		qs := make([]string, len(ix.Cols))
		for i, c := range ix.Cols {
			qs[i] = qid(c.Name)
			if c.Len != "" {
				qs[i] += "(" + c.Len + ")"
			}
		}
		s := "INDEX "
		if ix.Uniq {
			s = "UNIQUE INDEX "
		}
		s += qid(ix.Name) + " (" + strings.Join(qs, ", ") + ")"
		if ix.Comment != "" {
			s += " COMMENT " + qstr(ix.Comment)
		}
		tail = append(tail, s)
	}
	// declaration order of keys is irrelevant to the catalog: shuffle
	for i := len(tail) - 1; i > 0; i-- {
		j := r.Intn(i + 1)
		tail[i], tail[j] = tail[j], tail[i]
	}
	for _, f := range t.FKs {
		qs := func(l []string) string {
			o := make([]string, len(l))
			for i, c := range l {
				o[i] = qid(c)
			}
			return strings.Join(o, ", ")
		}
		s := "CONSTRAINT " + qid(f.Name) + " FOREIGN KEY (" + qs(f.Cols) + ") REFERENCES " + qid(f.PTable) + " (" + qs(f.PCols) + ")"
		if f.OnUpd != "" {
			s += " ON UPDATE " + f.OnUpd
		}
		if f.OnDel != "" {
			s += " ON DELETE " + f.OnDel
		}
		tail = append(tail, s)
	}
	for _, k := range t.Checks {
		ck := "CONSTRAINT " + qid(k.Name) + " CHECK (" + k.SQL + ")"
		if !k.Enforced {
			ck += " NOT ENFORCED"
		}
		tail = append(tail, ck)
	}
	items = append(items, tail...)
	s := "CREATE TABLE " + qid(t.Name) + " (\n  " + strings.Join(items, ",\n  ") + "\n)"
	if t.AutoInc != "" {
		s += " AUTO_INCREMENT=" + t.AutoInc
	}
	s += " CHARACTER SET " + charsetOf(t.Coll) + " COLLATE " + t.Coll
	if t.Comment != "" {
		s += " COMMENT=" + qstr(t.Comment)
	}
	return s
}

// ---------- generator ----------

var idAlphabet = []string{"a", "b", "c", "x", "y", "_", "1", "A", "Z", " ", "`", "é", "日", "-", "'", "\"", ".", "$"}
var keywords = []string{"select", "table", "key", "order", "group", "from", "index", "primary", "default", "NULL", "comment"}
var txtAlphabet = []string{"a", "b", "z", " ", "'", "\\", "\"", "\n", "\r", "\x00", "é", "日", "%", "_", ",", ")", "`", "0"}

func randFrom(r *lib.RNG, alpha []string, lo, hi int) string {
	n := r.Range(lo, hi)
	var sb strings.Builder
	for i := 0; i < n; i++ {
		sb.WriteString(lib.Pick(r, alpha))
	}
	return sb.String()
}

type namer struct {
	r    *lib.RNG
	used map[string]bool
}

func (n *namer) fresh(prefix string) string {
	for {
		var s string
		switch n.r.Intn(6) {
		case 0:
			s = lib.Pick(n.r, keywords)
		case 1, 2:
			s = prefix + randFrom(n.r, idAlphabet, 1, 6)
		default:
			s = prefix + randFrom(n.r, []string{"a", "b", "c", "d", "k", "x", "_", "2"}, 1, 5)
		}
		s = strings.TrimRight(s, " ")
		if s == "" || n.used[strings.ToLower(s)] {
			continue
		}
		n.used[strings.ToLower(s)] = true
		return s
	}
}

func randText(r *lib.RNG, max int) string {
	if r.Chance(1, 3) {
		return randFrom(r, []string{"a", "b", "c", " ", "d"}, 1, max)
	}
	return randFrom(r, txtAlphabet, 1, max)
}

var csDefault = map[string]string{"utf8mb4": "utf8mb4_0900_ai_ci", "latin1": "latin1_swedish_ci", "ascii": "ascii_general_ci", "utf8mb3": "utf8mb3_general_ci"}

func otherColl(r *lib.RNG, tc string) string {
	if !r.Chance(1, 3) {
		return ""
	}
	if r.Bool() { // same character set as the table: its default collation if the table uses another one, else a sibling
		if d := csDefault[charsetOf(tc)]; d != tc && r.Chance(2, 3) {
			return d
		}
		var sib []string
		for _, c := range collNames {
			if c != tc && charsetOf(c) == charsetOf(tc) {
				sib = append(sib, c)
			}
		}
		if len(sib) > 0 {
			return lib.Pick(r, sib)
		}
	}
	for {
		c := lib.Pick(r, collNames)
		if c != tc {
			return c
		}
	}
}

func itoa(n int) string { return fmt.Sprintf("%d", n) }

// genType returns a type and whether it may be indexed without a prefix / needs a prefix / cannot be indexed.
func genType(r *lib.RNG, tc string) (Type, string) {
	switch r.Intn(22) {
	case 0, 1, 2:
		return Type{Kind: "int", Sub: lib.Pick(r, []string{"tinyint", "smallint", "mediumint", "int", "bigint"}), Uns: r.Chance(1, 3)}, "plain"
	case 3:
		return Type{Kind: "bool"}, "plain"
	case 4:
		p := r.Range(1, 30)
		return Type{Kind: "decimal", N: itoa(p), S: itoa(r.Intn(p + 1))}, "plain"
	case 5:
		return Type{Kind: lib.Pick(r, []string{"float", "double"})}, "plain"
	case 6:
		return Type{Kind: "char", N: itoa(r.Range(1, 40)), Coll: otherColl(r, tc)}, "str"
	case 7, 8, 9:
		return Type{Kind: "varchar", N: itoa(r.Range(1, 200)), Coll: otherColl(r, tc)}, "str"
	case 10:
		return Type{Kind: "text", Sub: lib.Pick(r, []string{"tiny", "", "medium", "long"}), Coll: otherColl(r, tc)}, "prefix"
	case 11:
		return Type{Kind: "binary", N: itoa(r.Range(1, 40))}, "str"
	case 12:
		return Type{Kind: "varbinary", N: itoa(r.Range(1, 100))}, "str"
	case 13:
		return Type{Kind: "blob", Sub: lib.Pick(r, []string{"tiny", "", "medium", "long"})}, "prefix"
	case 14:
		return Type{Kind: "date"}, "plain"
	case 15:
		return Type{Kind: "datetime", Prec: lib.Pick(r, []int{0, 0, 3, 6, 1})}, "plain"
	case 16:
		return Type{Kind: "timestamp", Prec: lib.Pick(r, []int{0, 0, 3, 6, 2})}, "plain"
	case 17:
		return Type{Kind: lib.Pick(r, []string{"time", "year"})}, "plain"
	case 18:
		return Type{Kind: "enum", Vals: genVals(r), Coll: otherColl(r, tc)}, "plain"
	case 19:
		return Type{Kind: "set", Vals: genVals(r), Coll: otherColl(r, tc)}, "none"
	case 20:
		return Type{Kind: "bit", N: itoa(r.Range(1, 64))}, "plain"
	default:
		return Type{Kind: "json"}, "none"
	}
}

func genVals(r *lib.RNG) []string {
	n := r.Range(1, 4)
	seen := map[string]bool{}
	var vs []string
	for len(vs) < n {
		v := randFrom(r, []string{"a", "b", "c", "x", "'", " ", "1", "2", "é", "\"", "-"}, 1, 3)
		v = strings.TrimRight(v, " ")
		if v == "" || seen[strings.ToLower(v)] {
			continue
		}
		seen[strings.ToLower(v)] = true
		vs = append(vs, v)
	}
	return vs
}

func atoi(s string) int {
	n := 0
	fmt.Sscanf(s, "%d", &n)
	return n
}

var curTableColl = "utf8mb4_0900_bin" // collation of the table being generated (effective collation of columns without their own)

func genDefault(r *lib.RNG, c *Col, allowEnum bool) {
	t := c.Ty
	if c.Auto || !r.Chance(1, 2) {
		return
	}
	if c.Null && r.Chance(1, 5) {
		c.Def = &Dflt{Kind: "null"}
		return
	}
	switch t.Kind {
	case "int":
		max := map[string]int{"tinyint": 127, "smallint": 32767, "mediumint": 8388607, "int": 2147483647, "bigint": 2147483647}[t.Sub]
		v := r.Intn(max + 1)
		if !t.Uns && r.Bool() {
			v = -v
		}
		d := &Dflt{Kind: "quoted", S: itoa(v)}
		if r.Bool() {
			d.Raw = itoa(v)
		}
		c.Def = d
	case "bool":
		v := itoa(r.Intn(2))
		c.Def = &Dflt{Kind: "quoted", S: v, Raw: v}
	case "decimal":
		p, s := atoi(t.N), atoi(t.S)
		ip := ""
		for i := 0; i < r.Intn(p-s+1); i++ {
			ip += itoa(r.Intn(10))
		}
		ip = strings.TrimLeft(ip, "0")
		if ip == "" {
			ip = "0"
		}
		v := ip
		if s > 0 {
			v += "."
			for i := 0; i < s; i++ {
				v += itoa(r.Intn(10))
			}
		}
		c.Def = &Dflt{Kind: "quoted", S: v, Raw: v}
	case "char", "varchar":
		n := atoi(t.N)
		if n > 8 {
			n = 8
		}
		s := randText(r, n)
		for len([]rune(s)) > atoi(t.N) {
			s = string([]rune(s)[:atoi(t.N)])
		}
		eff := t.Coll
		if eff == "" {
			eff = curTableColl
		}
		if !strings.HasPrefix(eff, "utf8") {
			s = strings.Map(func(x rune) rune {
				if x > 127 {
					return 'u'
				}
				return x
			}, s)
		}
		if t.Kind == "char" {
			s = strings.TrimRight(s, " ")
		}
		c.Def = &Dflt{Kind: "quoted", S: s}
	case "date":
		c.Def = &Dflt{Kind: "quoted", S: fmt.Sprintf("20%02d-%02d-%02d", r.Intn(30), r.Range(1, 12), r.Range(1, 28))}
	case "datetime", "timestamp":
		if r.Bool() {
			c.Def = &Dflt{Kind: "now", P: t.Prec}
			if r.Bool() {
				p := t.Prec
				c.OnUpd = &p
			}
		} else {
			c.Def = &Dflt{Kind: "quoted", S: fmt.Sprintf("20%02d-%02d-%02d %02d:%02d:%02d", r.Intn(30), r.Range(1, 12), r.Range(1, 28), r.Intn(24), r.Intn(60), r.Intn(60))}
		}
	case "year":
		c.Def = &Dflt{Kind: "quoted", S: itoa(r.Range(1970, 2100))}
	case "enum":
		if allowEnum {
			c.Def = &Dflt{Kind: "quoted", S: lib.Pick(r, t.Vals)}
		}
	}
}

// intCols returns the plain (not generated) integer columns: operands of generated expressions, defaults and checks
func intCols(t *Table) []Col {
	fk := map[string]bool{} // a foreign-key column may not feed a generated column
	for _, f := range t.FKs {
		for _, c := range f.Cols {
			fk[c] = true
		}
	}
	var o []Col
	for _, c := range t.Cols {
		if c.Ty.Kind == "int" && c.Gen == nil && !fk[c.Name] {
			o = append(o, c)
		}
	}
	return o
}

// genArith returns (text as SHOW CREATE prints it, text as written in the statement)
func genArith(r *lib.RNG, c Col) (string, string) {
	op := lib.Pick(r, []string{"+", "-", "*"})
	n := itoa(r.Range(1, 9))
	return "(" + qid(c.Name) + " " + op + " " + n + ")", qid(c.Name) + op + n
}

// rawq quotes an identifier the way CHECK expressions are printed: backticks around the name, NOT doubled inside
func rawq(s string) string { return "`" + s + "`" }

func genCond(r *lib.RNG, cs []Col) (string, string) {
	atom := func() (string, string) {
		c := lib.Pick(r, cs)
		if r.Chance(1, 5) {
			lo, hi := itoa(r.Range(0, 5)), itoa(r.Range(6, 90))
			return "(" + rawq(c.Name) + " BETWEEN " + lo + " AND " + hi + ")", qid(c.Name) + " between " + lo + " and " + hi
		}
		op := lib.Pick(r, []string{"<", ">", "<=", ">=", "="})
		n := itoa(r.Range(0, 200))
		return "(" + rawq(c.Name) + " " + op + " " + n + ")", qid(c.Name) + " " + op + " " + n
	}
	a, as := atom()
	if r.Chance(1, 3) {
		b, bs := atom()
		op := lib.Pick(r, []string{"AND", "OR"})
		return "(" + a + " " + op + " " + b + ")", "(" + as + ") " + strings.ToLower(op) + " (" + bs + ")"
	}
	return a, as
}

func genTable(r *lib.RNG, enumDefaults bool) (*Table, []string) {
	nm := &namer{r: r, used: map[string]bool{"p": true}}
	t := &Table{Coll: "utf8mb4_0900_bin"}
	if r.Chance(1, 3) {
		t.Coll = lib.Pick(r, collNames)
	}
	t.Name = nm.fresh("t")
	if r.Chance(1, 3) {
		t.Comment = randText(r, 10)
	}
	ncols := r.Range(1, 7)
	kinds := map[string]string{}
	cn := &namer{r: r, used: map[string]bool{}}
	for i := 0; i < ncols; i++ {
		ty, ik := genType(r, t.Coll)
		c := Col{Name: cn.fresh(""), Ty: ty, Null: r.Chance(2, 3)}
		kinds[c.Name] = ik
		if r.Chance(1, 3) {
			c.Comment = randText(r, 10)
		}
		t.Cols = append(t.Cols, c)
	}
	indexable := func() []int {
		var o []int
		for i, c := range t.Cols {
			if kinds[c.Name] != "none" {
				o = append(o, i)
			}
		}
		return o
	}()
	// primary key
	if r.Chance(3, 5) {
		var cand []int
		for _, i := range indexable {
			k := t.Cols[i].Ty.Kind
			if kinds[t.Cols[i].Name] != "prefix" && k != "enum" && k != "bit" && k != "float" && k != "double" {
				cand = append(cand, i)
			}
		}
		if len(cand) > 0 {
			n := 1
			if len(cand) > 1 && r.Chance(1, 3) {
				n = 2
			}
			perm := r.Intn(len(cand))
			for j := 0; j < n; j++ {
				i := cand[(perm+j)%len(cand)]
				t.Cols[i].Null = false
				t.PK = append(t.PK, t.Cols[i].Name)
			}
			// auto_increment on a single integer key column
			if n == 1 && t.Cols[cand[perm]].Ty.Kind == "int" && r.Bool() {
				t.Cols[cand[perm]].Auto = true
				if r.Bool() {
					// within the column's range (beyond it the memory table prints value-1: separate stream below)
					max := map[string]int{"tinyint": 127, "smallint": 32767, "mediumint": 8388607, "int": 100000, "bigint": 100000}[t.Cols[cand[perm]].Ty.Sub]
					t.AutoInc = itoa(r.Range(2, max))
				}
			}
		}
	}
	// secondary indexes
	in := &namer{r: r, used: map[string]bool{"primary": true}}
	if len(indexable) > 0 {
		for k := r.Intn(4); k > 0; k-- {
			ix := Index{Uniq: r.Chance(1, 3), Name: in.fresh("i")}
			n := r.Range(1, 2)
			seen := map[int]bool{}
			for j := 0; j < n; j++ {
				i := lib.Pick(r, indexable)
				if seen[i] {
					continue
				}
				seen[i] = true
				ic := ICol{Name: t.Cols[i].Name}
				switch kinds[ic.Name] {
				case "prefix":
					ic.Len = itoa(r.Range(1, 20))
				case "str":
					if r.Chance(1, 3) {
						ic.Len = itoa(r.Range(1, atoi(t.Cols[i].Ty.N)))
					}
				}
				ix.Cols = append(ix.Cols, ic)
			}
			if r.Chance(1, 4) {
				ix.Comment = randFrom(r, []string{"a", "b", " ", "é", "\"", "%"}, 1, 8) // no quote / backslash here (see corpus)
			}
			t.Idx = append(t.Idx, ix)
		}
	}
	// foreign keys to the fixed parent p(id int primary key, k varchar(10) unique)
	var setup []string
	if r.Chance(1, 4) {
		setup = []string{"CREATE TABLE p (id INT PRIMARY KEY, k VARCHAR(10), UNIQUE KEY pk2 (k))"}
		nf := r.Range(1, 2)
		for j := 0; j < nf; j++ {
			c := Col{Name: cn.fresh("f"), Ty: Type{Kind: "int", Sub: "int"}, Null: true}
			t.Cols = append(t.Cols, c)
			fk := FK{Name: in.fresh("fk"), Cols: []string{c.Name}, PTable: "p", PCols: []string{"id"}}
			fk.OnDel = lib.Pick(r, []string{"", "CASCADE", "SET NULL", "RESTRICT", "NO ACTION"})
			fk.OnUpd = lib.Pick(r, []string{"", "CASCADE", "SET NULL", "RESTRICT", "NO ACTION"})
			t.FKs = append(t.FKs, fk)
			t.Idx = append(t.Idx, Index{Name: in.fresh("i"), Cols: []ICol{{Name: c.Name}}})
		}
	}
	curTableColl = t.Coll
	for i := range t.Cols {
		genDefault(r, &t.Cols[i], enumDefaults)
	}
	// expression / bit / binary defaults, generated columns, CHECK constraints
	ints := intCols(t)
	for i := range t.Cols {
		c := &t.Cols[i]
		if c.Auto || c.Def != nil || !r.Chance(1, 3) {
			continue
		}
		switch c.Ty.Kind {
		case "int":
			if len(ints) > 0 && r.Chance(1, 3) {
				if o := lib.Pick(r, ints); o.Name != c.Name {
					e, sq := genArith(r, o)
					c.Def = &Dflt{Kind: "expr", S: e, Raw: "(" + sq + ")"}
				}
			}
		case "bit":
			n := atoi(c.Ty.N)
			if n > 20 {
				n = 20
			}
			v := uint64(r.Intn(1 << uint(n)))
			raw := fmt.Sprintf("b'%0*b'", r.Range(1, n), v)
			if r.Bool() {
				raw = fmt.Sprintf("%d", v)
			}
			c.Def = &Dflt{Kind: "bit", S: fmt.Sprintf("%b", v), Raw: raw}
		case "binary", "varbinary":
			n := atoi(c.Ty.N)
			k := r.Range(1, 4)
			if k > n {
				k = n
			}
			b := make([]byte, k)
			for j := range b {
				b[j] = byte(r.Intn(256))
			}
			raw := fmt.Sprintf("0x%x", b)
			if c.Ty.Kind == "binary" {
				b = append(b, make([]byte, n-k)...) // BINARY(n) pads with zero bytes
			}
			c.Def = &Dflt{Kind: "hex", S: fmt.Sprintf("%X", b), Raw: raw}
		}
	}
	if len(ints) > 0 && r.Chance(1, 6) {
		e, sq := genArith(r, lib.Pick(r, ints))
		g := Col{Name: cn.fresh("g"), Ty: Type{Kind: "int", Sub: lib.Pick(r, []string{"int", "bigint"})}, Null: true,
			Gen: &Gen{Expr: e, SQL: sq, Stored: r.Chance(3, 4)}}
		if r.Chance(1, 4) {
			g.Comment = randText(r, 6)
		}
		t.Cols = append(t.Cols, g)
	}
	if len(ints) > 0 && r.Chance(1, 5) {
		for k := r.Range(1, 2); k > 0; k-- {
			e, sq := genCond(r, ints)
			t.Checks = append(t.Checks, Check{Name: in.fresh("ck"), Expr: e, SQL: sq, Enforced: !r.Chance(1, 6)})
		}
	}
	sort.Slice(t.Idx, func(a, b int) bool { return t.Idx[a].Name < t.Idx[b].Name })
	sort.Slice(t.FKs, func(a, b int) bool { return t.FKs[a].Name < t.FKs[b].Name })
	return t, setup
}

// ---------- probes ----------

func probeValue(r *lib.RNG, c Col) string {
	if c.Null && r.Chance(1, 6) {
		return "NULL"
	}
	switch c.Ty.Kind {
	case "int", "bool", "year", "bit":
		if c.Ty.Kind == "year" {
			return itoa(r.Range(1990, 2030))
		}
		return itoa(r.Intn(2))
	case "decimal", "float", "double":
		return itoa(r.Intn(2))
	case "char", "varchar", "text", "binary", "varbinary", "blob":
		return qstr(randFrom(r, []string{"a", "b", "A"}, 1, 3))
	case "date":
		return "'2021-02-03'"
	case "datetime", "timestamp":
		return "'2021-02-03 04:05:06'"
	case "time":
		return "'01:02:03'"
	case "enum", "set":
		return qstr(lib.Pick(r, c.Ty.Vals))
	case "json":
		return "'{\"a\": 1}'"
	}
	return "NULL"
}

func genProbes(r *lib.RNG, t *Table) []string {
	var out []string
	for k := 0; k < 4; k++ {
		var cols, vals []string
		for _, c := range t.Cols {
			if c.Gen != nil {
				continue
			}
			if k > 0 && r.Chance(1, 3) && !(c.Def != nil && c.Def.Kind == "now") {
				continue // leave to the default (never for CURRENT_TIMESTAMP defaults: time-dependent, may collide on keys)
			}
			cols = append(cols, qid(c.Name))
			vals = append(vals, probeValue(r, c))
		}
		out = append(out, "INSERT INTO "+qid(t.Name)+" ("+strings.Join(cols, ", ")+") VALUES ("+strings.Join(vals, ", ")+")")
	}
	// case-variant equality / ordering probes on every character column (collation-sensitive behaviour)
	for _, c := range t.Cols {
		switch c.Ty.Kind {
		case "char", "varchar", "text":
			out = append(out, "SELECT COUNT(*), SUM("+qid(c.Name)+" = 'A'), SUM("+qid(c.Name)+" = 'a'), SUM("+qid(c.Name)+" < 'B') FROM "+qid(t.Name))
		}
	}
	return out
}

// ---------- running ----------

type observation struct {
	text   string
	err    string
	probes []string
}

func runProbes(s *eng.S, cs *caseT, name string) []string {
	var out []string
	for _, p := range cs.Probes {
		r := s.Query(p)
		out = append(out, eng.ErrKind(r.Err))
		if r.Err == nil && strings.HasPrefix(p, "SELECT COUNT(*)") {
			out = append(out, eng.Rows(r.Rows)...)
		}
	}
	if name != "" {
		r := s.Query("SELECT * FROM " + qid(name))
		if r.Err != nil {
			out = append(out, "select-err:"+eng.ErrKind(r.Err))
		} else {
			rows := eng.Bag(r.Rows)
			// time-dependent defaults (CURRENT_TIMESTAMP) are not comparable: keep the row count only when such a column exists
			out = append(out, fmt.Sprintf("rows=%d", len(rows)))
			if cs.T != nil && !hasNow(cs.T) {
				out = append(out, rows...)
			}
		}
		// the catalog's own view of the object: collations, comments, defaults, types (not only the SHOW CREATE text)
		for _, q := range []string{
			"SELECT column_name, ordinal_position, column_default, is_nullable, column_type, character_set_name, collation_name, column_key, extra, column_comment FROM information_schema.columns WHERE table_schema = 'db' AND table_name = " + qstr(name) + " ORDER BY ordinal_position",
			"SELECT table_collation, table_comment FROM information_schema.tables WHERE table_schema = 'db' AND table_name = " + qstr(name),
			"SELECT index_name, seq_in_index, column_name, non_unique, sub_part, index_comment FROM information_schema.statistics WHERE table_schema = 'db' AND table_name = " + qstr(name) + " ORDER BY index_name, seq_in_index",
			"SELECT constraint_name, constraint_type, enforced FROM information_schema.table_constraints WHERE table_schema = 'db' AND table_name = " + qstr(name) + " ORDER BY constraint_name, constraint_type",
			"SELECT constraint_name, check_clause FROM information_schema.check_constraints WHERE constraint_schema = 'db' ORDER BY constraint_name",
		} {
			ri := s.Query(q)
			if ri.Err != nil {
				out = append(out, "is-err:"+eng.ErrKind(ri.Err))
			} else {
				out = append(out, eng.Rows(ri.Rows)...)
			}
		}
		r = s.Query("DESCRIBE " + qid(name))
		if r.Err != nil {
			out = append(out, "describe-err:"+eng.ErrKind(r.Err))
		} else {
			out = append(out, eng.Rows(r.Rows)...)
		}
	}
	return out
}

func hasNow(t *Table) bool {
	for _, c := range t.Cols {
		if (c.Def != nil && c.Def.Kind == "now") || c.OnUpd != nil {
			return true
		}
	}
	return false
}

func showText(s *eng.S, cs *caseT) (string, error) {
	r := s.Query(cs.Show)
	if r.Err != nil {
		return "", r.Err
	}
	if len(r.Rows) != 1 || len(r.Rows[0]) <= cs.Col {
		return "", fmt.Errorf("unexpected SHOW CREATE result shape")
	}
	return fmt.Sprint(r.Rows[0][cs.Col]), nil
}

// sigOf classifies a predicate failure by ROOT CAUSE, computed from the shape of the failing input; the symptom
// (what) is kept only for inputs without a recognised root cause.
func sigOf(cs *caseT, what string) string {
	if cs.Tag != "" && cs.Tag != "view" && cs.Tag != "trigger" && cs.Tag != "procedure" {
		return cs.Tag
	}
	if cs.Tag != "" {
		return cs.Tag + "/" + what
	}
	if cs.T != nil {
		if len(cs.T.Checks) > 0 || cs.T.Comment != "" || len(cs.T.PK) > 1 {
			for _, c := range cs.T.Cols {
				if c.Gen != nil && !c.Gen.Stored {
					return "virtual-column-hides-checks-and-table-comment"
				}
			}
		}
		for _, k := range cs.T.Checks {
			for _, c := range cs.T.Cols {
				if strings.Contains(c.Name, "`") && strings.Contains(k.Expr, rawq(c.Name)) {
					return "check-expression-identifier-backtick-unescaped"
				}
			}
		}
		for _, ix := range cs.T.Idx {
			if strings.ContainsAny(ix.Comment, "'\\") {
				return "index-comment-quote-unescaped"
			}
		}
		for _, c := range cs.T.Cols {
			if c.Ty.Kind == "enum" && c.Def != nil && c.Def.Kind == "quoted" {
				return "enum-default-printed-as-index"
			}
			if c.Ty.Kind == "set" && c.Def != nil && c.Def.Kind == "quoted" {
				return "set-default-printed-as-bitmask"
			}
		}
		for _, c := range cs.T.Cols {
			if c.Ty.Kind == "enum" || c.Ty.Kind == "set" {
				for _, v := range c.Ty.Vals {
					if strings.Contains(v, "\\") {
						return "enum-value-backslash-unescaped"
					}
				}
			}
		}
	}
	return "table/" + what
}

func run(c *lib.Ctx, cs caseT) {
	e := eng.New("db")
	s := e.Session()
	for _, q := range cs.Setup {
		if r := s.Query(q); r.Err != nil {
			c.Count("setup_failed")
			c.CaseNoModel(cs, "")
			return
		}
	}
	r := s.Query(cs.Create)
	if r.Err != nil {
		// the generated statement was rejected: not a case of the property (counted, so that the generator can be tuned)
		c.Count("create_rejected:" + eng.ErrKind(r.Err))
		c.CaseNoModel(cs, "")
		return
	}
	text1, err := showText(s, &cs)
	cs.Obs = text1
	var id int
	key := cs.Create
	if err != nil {
		id = c.CaseNoModel(cs, key)
		c.PredChecked()
		c.PredFail(id, sigOf(&cs, "show-create-fails"), "SHOW CREATE failed after a successful CREATE: "+err.Error()+" for "+cs.Create, cs)
		return
	}
	if cs.Kind == "table" && cs.NoModel {
		id = c.CaseNoModel(cs, key)
		c.Count("table_nomodel_" + cs.Tag)
	} else if cs.Kind == "table" {
		id = c.Case("(CTable "+coqTable(cs.T)+" "+lib.CoqStr(text1)+")", cs, key)
		c.Count(fmt.Sprintf("table_cols_%d", len(cs.T.Cols)))
		c.Count(fmt.Sprintf("table_idx_%d", len(cs.T.Idx)))
		c.Count(fmt.Sprintf("table_fks_%d", len(cs.T.FKs)))
		if len(cs.T.PK) > 0 {
			c.Count("table_with_pk")
		}
		for _, col := range cs.T.Cols {
			c.Count("coltype_" + col.Ty.Kind)
			if col.Def != nil {
				c.Count("default_" + col.Def.Kind)
			}
			if col.Ty.Coll != "" {
				c.Count("column_collation")
			}
		}
	} else if cs.ObjName != "" && cs.ObjText != "" {
		id = c.Case("(CView "+lib.CoqStr(cs.ObjName)+" "+lib.CoqStr(cs.ObjText)+" "+lib.CoqStr(text1)+")", cs, key)
		c.Count("object_" + cs.Tag)
	} else if cs.ObjName != "" {
		id = c.Case("(CEcho "+lib.CoqStr(cs.ObjName)+" "+lib.CoqStr(cs.Create)+" "+lib.CoqStr(text1)+")", cs, key)
		c.Count("object_" + cs.Tag)
	} else {
		id = c.CaseNoModel(cs, key)
		c.Count("object_" + cs.Tag)
	}

	// ----- the property predicate on the implementation alone -----
	c.PredChecked()
	name := ""
	if cs.T != nil {
		name = cs.T.Name
	}
	p1 := runProbes(s, &cs, name)
	if r := s.Query(cs.Drop); r.Err != nil {
		c.PredFail(id, sigOf(&cs, "drop-fails"), "cannot drop the object: "+r.Err.Error(), cs)
		return
	}
	if r := s.Query(text1); r.Err != nil {
		c.PredFail(id, sigOf(&cs, "printed-statement-rejected"),
			fmt.Sprintf("the statement printed by %s is rejected (%s): %q", cs.Show, r.Err.Error(), text1), cs)
		return
	}
	text2, err := showText(s, &cs)
	if err != nil {
		c.PredFail(id, sigOf(&cs, "show-create-fails"), "SHOW CREATE failed after re-creation: "+err.Error(), cs)
		return
	}
	if text2 != text1 {
		c.PredFail(id, sigOf(&cs, "show-create-differs"),
			fmt.Sprintf("SHOW CREATE after re-running its own output differs: first %q, then %q", text1, text2), cs)
		return
	}
	p2 := runProbes(s, &cs, name)
	if strings.Join(p1, "\x00") != strings.Join(p2, "\x00") {
		c.PredFail(id, sigOf(&cs, "behaviour-differs"),
			fmt.Sprintf("the re-created object behaves differently on the probes: before %q, after %q (statement %q)", p1, p2, text1), cs)
	}
}

func tableCase(t *Table, setup []string, create string, r *lib.RNG) caseT {
	cs := caseT{Kind: "table", T: t, Setup: setup, Create: create, Show: "SHOW CREATE TABLE " + qid(t.Name), Drop: "DROP TABLE " + qid(t.Name), Col: 1}
	cs.Probes = genProbes(r, t)
	return cs
}

func objectCase(tag string, setup []string, create, show, drop string, col int, probes []string) caseT {
	return caseT{Kind: "object", Tag: tag, Setup: setup, Create: create, Show: show, Drop: drop, Col: col, Probes: probes}
}

func genObject(r *lib.RNG) caseT {
	base := []string{"CREATE TABLE b (a INT PRIMARY KEY, c VARCHAR(20), d INT)", "CREATE TABLE lg (x INT, y VARCHAR(20))", "INSERT INTO b VALUES (1,'x',10),(2,'y',20)"}
	nm := &namer{r: r, used: map[string]bool{"b": true, "lg": true}}
	name := nm.fresh("o")
	exprs := []string{"a + 1", "d * 2", "concat(c, 'it''s')", "upper(c)", "a", "coalesce(d, 0)", "'q\\\\z'", "case when a > 1 then 'hi' else 'lo' end"}
	switch r.Intn(3) {
	case 0:
		sel := "select " + lib.Pick(r, exprs) + " as `x y`, " + lib.Pick(r, exprs) + " as z from b where " + lib.Pick(r, []string{"a > 0", "c <> 'x'", "d in (10, 20)", "c like '%y%'"})
		tag := "view"
		if strings.Contains(name, "`") {
			tag = "view-name-backtick"
		}
		oc := objectCase(tag, base, "CREATE VIEW "+qid(name)+" AS "+sel, "SHOW CREATE VIEW "+qid(name), "DROP VIEW "+qid(name), 1,
			[]string{"SELECT * FROM " + qid(name) + " ORDER BY 1, 2"})
		oc.ObjName, oc.ObjText = strings.ToLower(name), sel // the view registry stores the name lower-cased
		return oc
	case 1:
		body := lib.Pick(r, []string{"SET NEW.d = NEW.a + 1", "SET NEW.c = concat(NEW.c, 'it''s')", "INSERT INTO lg VALUES (NEW.a, 'x y')",
			"BEGIN SET NEW.d = 5; INSERT INTO lg VALUES (NEW.a, NEW.c); END"})
		oc := objectCase("trigger", base, "CREATE TRIGGER "+qid(name)+" BEFORE INSERT ON b FOR EACH ROW "+body, "SHOW CREATE TRIGGER "+qid(name),
			"DROP TRIGGER "+qid(name), 2, []string{"INSERT INTO b VALUES (7, 'q', 1)", "SELECT * FROM b ORDER BY 1", "SELECT * FROM lg ORDER BY 1", "DELETE FROM b WHERE a = 7", "DELETE FROM lg"})
		oc.ObjName = name
		return oc
	default:
		body := lib.Pick(r, []string{"SELECT x + 1", "BEGIN SELECT x * 2 AS `d b`; END", "BEGIN DECLARE y INT DEFAULT 3; SELECT concat('it''s', x + y); END",
			"BEGIN IF x > 1 THEN SELECT 'big'; ELSE SELECT 'small'; END IF; END"})
		oc := objectCase("procedure", base, "CREATE PROCEDURE "+qid(name)+"(x INT) "+body, "SHOW CREATE PROCEDURE "+qid(name),
			"DROP PROCEDURE "+qid(name), 2, []string{"CALL " + qid(name) + "(1)", "CALL " + qid(name) + "(5)"})
		oc.ObjName = name
		return oc
	}
}

func corpus(r *lib.RNG) []caseT {
	i := func(t *Table, setup []string) caseT { return tableCase(t, setup, sqlCreate(t, r), r) }
	intc := func(n string) Col { return Col{Name: n, Ty: Type{Kind: "int", Sub: "int"}, Null: true} }
	def := "utf8mb4_0900_bin"
	three := 3
	out := []caseT{
		// known findings first
		i(&Table{Name: "t", Coll: def, Cols: []Col{intc("c")}, Idx: []Index{{Name: "k", Cols: []ICol{{Name: "c"}}, Comment: "it's"}}}, nil),
		i(&Table{Name: "t", Coll: def, Cols: []Col{{Name: "h", Ty: Type{Kind: "enum", Vals: []string{"2", "1"}}, Null: true, Def: &Dflt{Kind: "quoted", S: "2"}}}}, nil),
		i(&Table{Name: "t", Coll: def, Cols: []Col{{Name: "h", Ty: Type{Kind: "enum", Vals: []string{"a", "b"}}, Null: true, Def: &Dflt{Kind: "quoted", S: "b"}}}}, nil),
		objectCase("set-default-printed-as-bitmask", nil, "CREATE TABLE t (s SET('2','1') DEFAULT '2')", "SHOW CREATE TABLE t", "DROP TABLE t", 1, []string{"INSERT INTO t VALUES ()", "SELECT * FROM t"}),
		objectCase("enum-value-backslash-unescaped", nil, "CREATE TABLE t (e ENUM('a\\\\b','c'))", "SHOW CREATE TABLE t", "DROP TABLE t", 1, []string{"INSERT INTO t VALUES ('a\\\\b')", "SELECT * FROM t"}),
		func() caseT {
			oc := objectCase("view-name-backtick", []string{"CREATE TABLE b (a INT)"}, "CREATE VIEW `v``w` AS select a from b", "SHOW CREATE VIEW `v``w`", "DROP VIEW `v``w`", 1, []string{"SELECT * FROM `v``w`"})
			oc.ObjName, oc.ObjText = "v`w", "select a from b"
			return oc
		}(),
		func() caseT {
			oc := objectCase("view-name-backtick", []string{"CREATE TABLE b (a INT)"}, "CREATE VIEW `o````` AS select a from b", "SHOW CREATE VIEW `o`````", "DROP VIEW `o`````", 1, []string{"SELECT * FROM `o`````"})
			oc.ObjName, oc.ObjText = "o``", "select a from b"
			return oc
		}(),
		func() caseT {
			cs := i(&Table{Name: "t", Coll: def, Cols: []Col{{Name: "a", Ty: Type{Kind: "int", Sub: "tinyint"}, Auto: true}}, PK: []string{"a"}, AutoInc: "98756"}, nil)
			cs.NoModel, cs.Tag = true, "autoinc-beyond-column-range"
			return cs
		}(),
		// column with the default collation of the table's character set while the table uses another one
		i(&Table{Name: "cd1", Coll: def, Cols: []Col{{Name: "a", Ty: Type{Kind: "varchar", N: "5", Coll: "utf8mb4_0900_ai_ci"}, Null: true}, {Name: "b", Ty: Type{Kind: "varchar", N: "5"}, Null: true}}}, nil),
		i(&Table{Name: "cd2", Coll: "latin1_bin", Cols: []Col{{Name: "a", Ty: Type{Kind: "char", N: "3", Coll: "latin1_swedish_ci"}, Null: true}, {Name: "e", Ty: Type{Kind: "enum", Vals: []string{"x", "y"}, Coll: "latin1_swedish_ci"}, Null: true}}}, nil),
		// comments with double quote, LF, CR, NUL
		i(&Table{Name: "cm1", Coll: def, Comment: "t\"q\"\n\r\x00z", Cols: []Col{{Name: "a", Ty: Type{Kind: "int", Sub: "int"}, Null: true, Comment: "c\"\n\r\x00'\\"}}}, nil),
		// known finding: a VIRTUAL generated column makes SHOW CREATE TABLE drop the CHECK constraints
		i(&Table{Name: "vc", Coll: def, Cols: []Col{intc("a"), {Name: "e", Ty: Type{Kind: "int", Sub: "int"}, Null: true, Gen: &Gen{Expr: "(`a` * 2)", SQL: "a * 2"}}},
			Checks: []Check{{Name: "zc", Expr: "(`a` < 10)", SQL: "a < 10", Enforced: true}}}, nil),
		// known finding: CHECK expressions print identifiers without doubling backticks
		i(&Table{Name: "cb", Coll: def, Cols: []Col{intc("a`b")}, Checks: []Check{{Name: "zc", Expr: "(`a`b` < 10)", SQL: "`a``b` < 10", Enforced: true}}}, nil),
		i(&Table{Name: "vp", Coll: def, PK: []string{"b", "a"}, Cols: []Col{{Name: "a", Ty: Type{Kind: "int", Sub: "int"}}, {Name: "b", Ty: Type{Kind: "int", Sub: "int"}},
			{Name: "e", Ty: Type{Kind: "int", Sub: "int"}, Null: true, Gen: &Gen{Expr: "(`a` * 2)", SQL: "a * 2"}}}}, nil),
		i(&Table{Name: "vm", Coll: def, Comment: "lost", Cols: []Col{intc("a"), {Name: "e", Ty: Type{Kind: "int", Sub: "int"}, Null: true, Gen: &Gen{Expr: "(`a` * 2)", SQL: "a * 2"}}}}, nil),
		// checks, generated columns, expression / bit / binary defaults
		i(&Table{Name: "nf", Coll: def, Cols: []Col{intc("a"), intc("x y"),
			{Name: "d", Ty: Type{Kind: "int", Sub: "int"}, Null: true, Gen: &Gen{Expr: "(`a` + `x y`)", SQL: "a + `x y`", Stored: true}, Comment: "g"},
			{Name: "g", Ty: Type{Kind: "int", Sub: "int"}, Null: true, Def: &Dflt{Kind: "expr", S: "(`a` + 1)", Raw: "(a + 1)"}},
			{Name: "i", Ty: Type{Kind: "bit", N: "5"}, Null: true, Def: &Dflt{Kind: "bit", S: "101", Raw: "b'00101'"}},
			{Name: "j", Ty: Type{Kind: "binary", N: "5"}, Null: true, Def: &Dflt{Kind: "hex", S: "6162630000", Raw: "'abc'"}},
			{Name: "k", Ty: Type{Kind: "varbinary", N: "4"}, Null: true, Def: &Dflt{Kind: "hex", S: "00FF", Raw: "0x00ff"}},
			{Name: "l", Ty: Type{Kind: "bit", N: "64"}, Null: true, Def: &Dflt{Kind: "bit", S: strings.Repeat("1", 64), Raw: "18446744073709551615"}}},
			Checks: []Check{{Name: "zc", Expr: "(`a` < 10)", SQL: "a < 10", Enforced: true},
				{Name: "ac", Expr: "((`x y` > 0) OR (`a` = 3))", SQL: "`x y` > 0 or a = 3", Enforced: true},
				{Name: "ne", Expr: "(`a` >= 2)", SQL: "a >= 2", Enforced: false}}}, nil),
		i(&Table{Name: "ehex", Coll: def, Cols: []Col{{Name: "l", Ty: Type{Kind: "varbinary", N: "4"}, Null: true, Def: &Dflt{Kind: "hex", S: "", Raw: "''"}}}}, nil),
		// ordinary fixed cases
		i(&Table{Name: "we`ird name", Coll: def, Comment: "a\\b\"c'd\n",
			Cols: []Col{{Name: "a b", Ty: Type{Kind: "int", Sub: "bigint", Uns: true}, Auto: true, Comment: "it's \"q\" \\ z"},
				{Name: "select", Ty: Type{Kind: "varchar", N: "10", Coll: "utf8mb4_bin"}, Null: true, Def: &Dflt{Kind: "quoted", S: "x'y\\"}},
				{Name: "x`y", Ty: Type{Kind: "datetime", Prec: 3}, Null: true, Def: &Dflt{Kind: "now", P: 3}, OnUpd: &three},
				{Name: "e", Ty: Type{Kind: "enum", Vals: []string{"a'", "b"}, Coll: "latin1_swedish_ci"}, Null: true},
				{Name: "d", Ty: Type{Kind: "decimal", N: "10", S: "2"}, Null: false, Def: &Dflt{Kind: "quoted", S: "1.50", Raw: "1.5"}},
				{Name: "tx", Ty: Type{Kind: "text", Sub: "medium"}, Null: true}},
			PK: []string{"a b"}, AutoInc: "7",
			Idx: []Index{{Name: "Ab", Cols: []ICol{{Name: "select", Len: "5"}, {Name: "x`y"}}, Uniq: true, Comment: "c"}, {Name: "pre", Cols: []ICol{{Name: "tx", Len: "10"}}}}}, nil),
		i(&Table{Name: "c", Coll: "utf8mb4_general_ci", Cols: []Col{intc("id"), intc("d2"), intc("k2")},
			Idx: []Index{{Name: "ka", Cols: []ICol{{Name: "k2"}}}, {Name: "kd", Cols: []ICol{{Name: "d2"}}}},
			FKs: []FK{{Name: "fka", Cols: []string{"d2"}, PTable: "p", PCols: []string{"id"}, OnDel: "SET NULL"},
				{Name: "fkb", Cols: []string{"k2"}, PTable: "p", PCols: []string{"id"}, OnDel: "RESTRICT", OnUpd: "NO ACTION"}}},
			[]string{"CREATE TABLE p (id INT PRIMARY KEY, k VARCHAR(10), UNIQUE KEY pk2 (k))"}),
		i(&Table{Name: "ai2", Coll: def, Cols: []Col{{Name: "a", Ty: Type{Kind: "int", Sub: "int"}, Auto: true}}, PK: []string{"a"}, AutoInc: "2"}, nil),
		objectCase("view", []string{"CREATE TABLE b (a INT, c VARCHAR(9))"}, "CREATE VIEW v1 AS select a, concat(c, 'it''s') as `x y` from b where a > 1", "SHOW CREATE VIEW v1", "DROP VIEW v1", 1, []string{"SELECT * FROM v1"}),
	}
	return out
}

func main() {
	logrus.SetOutput(io.Discard)
	lib.Main("C22", func(c *lib.Ctx) {
		c.Header = "From Coq Require Import List NArith.\nImport ListNotations.\nFrom GMS Require Import Lang.ShowCreate Corr.C22.\nOpen Scope N_scope."
		c.CaseType = "C22.case"
		c.MismatchFn = "C22.mismatches"
		c.SetRule("CREATE TABLE statements written from generated catalog-normal schemas (1-7 columns over 21 column types incl. collations, " +
			"defaults, ON UPDATE, AUTO_INCREMENT, comments with quotes/backslashes/newlines; identifiers with backticks, blanks, keywords, " +
			"non-ASCII; PK, 0-3 secondary/unique/prefix indexes, 0-2 foreign keys with actions; table collation/comment/AUTO_INCREMENT); " +
			"1/8 of the cases are views/triggers/procedures (implementation-only predicate). Non-trivial = the statement was accepted; " +
			"distinct = distinct CREATE statements.")
		if c.ReplayFile != "" {
			var cs caseT
			lib.LoadReplay(c.ReplayFile, &cs)
			run(c, cs)
			return
		}
		cr := lib.NewRNG(12345)
		cp := corpus(cr)
		for _, cs := range cp {
			run(c, cs)
		}
		for i := len(cp); i < c.N; i++ {
			r := c.R.Fork()
			if r.Chance(1, 8) {
				run(c, genObject(r))
				continue
			}
			t, setup := genTable(r, r.Chance(1, 12))
			cs := tableCase(t, setup, sqlCreate(t, r), r)
			if t.AutoInc != "" && r.Chance(1, 10) {
				// AUTO_INCREMENT beyond the range of a TINYINT/SMALLINT key column
				for i := range t.Cols {
					if t.Cols[i].Auto && (t.Cols[i].Ty.Sub == "tinyint" || t.Cols[i].Ty.Sub == "smallint") {
						t.AutoInc = itoa(r.Range(70000, 99999))
						cs = tableCase(t, setup, sqlCreate(t, r), r)
						cs.NoModel, cs.Tag = true, "autoinc-beyond-column-range"
					}
				}
			}
			run(c, cs)
		}
	})
}
