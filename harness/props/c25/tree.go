// Nested arithmetic: expression trees of depth <= 3 over + - * DIV % / and unary minus with leaves of mixed integer
// widths, decimals, literals and CASTs.  The whole tree is evaluated by one SELECT; the leaves' evaluated values are
// read back from the engine's projection; the Coq model (Codec/C25Nested.v) is compared on every tree; the property
// predicate uses an exact rational reference for trees without '/'.
package main

import (
	"fmt"
	"math/big"
	"strings"

	"verifharness/lib"
	"verifharness/lib/eng"
)

type node struct {
	Op   string       `json:"op,omitempty"` // + - * DIV % / neg ; empty for a leaf
	L    *node        `json:"l,omitempty"`
	R    *node        `json:"r,omitempty"`
	Leaf *operandSpec `json:"leaf,omitempty"`
}

type treeCase struct {
	Tree *node `json:"tree"`
}

func genLeaf(r *lib.RNG) operandSpec {
	for {
		o := genOperand(r)
		if o.Kind != "null" {
			return o
		}
	}
}

func genTree(r *lib.RNG, depth int) *node {
	if depth == 0 || (depth < 3 && r.Chance(1, 3)) {
		l := genLeaf(r)
		if r.Chance(1, 2) { // small values keep deep trees inside the exact range most of the time
			switch l.Kind {
			case "col":
				if it := intTypeByName(l.Type); it != nil {
					v := big.NewInt(int64(r.Intn(41) - 20))
					if inRange(it, v) {
						l.Text = v.String()
					}
				}
			}
		}
		return &node{Leaf: &l}
	}
	if r.Chance(1, 8) {
		return &node{Op: "neg", L: genTree(r, depth-1)}
	}
	op := lib.Pick(r, []string{"+", "-", "*", "+", "-", "*", "DIV", "%", "/", "/"})
	return &node{Op: op, L: genTree(r, depth-1), R: genTree(r, depth-1)}
}

func (n *node) leaves(acc *[]*operandSpec) {
	if n.Leaf != nil {
		*acc = append(*acc, n.Leaf)
		return
	}
	n.L.leaves(acc)
	if n.R != nil {
		n.R.leaves(acc)
	}
}

func (n *node) hasOp(op string) bool {
	if n.Leaf != nil {
		return false
	}
	return n.Op == op || n.L.hasOp(op) || (n.R != nil && n.R.hasOp(op))
}

// sql renders the tree; idx counts leaves in order.
func (n *node) sql(exprs []string, idx *int) string {
	if n.Leaf != nil {
		e := exprs[*idx]
		*idx++
		return e
	}
	if n.Op == "neg" {
		return "(-" + n.L.sql(exprs, idx) + ")"
	}
	l := n.L.sql(exprs, idx)
	return "(" + l + " " + n.Op + " " + n.R.sql(exprs, idx) + ")"
}

func (n *node) coq(leaves []obs, decls []int64, idx *int) string {
	if n.Leaf != nil {
		i := *idx
		*idx++
		return fmt.Sprintf("(ELeaf %s %d%%Z %s)", lib.CoqBool(n.Leaf.Kind == "lit" || n.Leaf.Kind == "cast"), decls[i], leaves[i].coqOperand())
	}
	if n.Op == "neg" {
		return "(ENeg " + n.L.coq(leaves, decls, idx) + ")"
	}
	l := n.L.coq(leaves, decls, idx)
	return "(EBin " + opCoq[n.Op] + " " + l + " " + n.R.coq(leaves, decls, idx) + ")"
}

// ---------- exact reference with static integer typing ----------

type refVal struct {
	null    bool
	v       *big.Rat
	ty      string // i8..u64 for an integer-typed node, "dec" otherwise
	suspect bool   // some integer-typed subexpression's exact value lies outside its static type (or is clamped / wrapped on conversion)
	divByZ  bool
}

func tyRange(ty string) (lo, hi *big.Int) {
	it := intTypeByName(ty)
	return it.Min, it.Max
}

func isUnsignedTy(ty string) bool { return strings.HasPrefix(ty, "u") }

func outOf(ty string, v *big.Rat) bool {
	if ty == "dec" || !v.IsInt() {
		return false
	}
	lo, hi := tyRange(ty)
	return v.Num().Cmp(lo) < 0 || v.Num().Cmp(hi) > 0
}

func (n *node) ref(leaves []obs, idx *int) refVal {
	if n.Leaf != nil {
		o := leaves[*idx]
		*idx++
		if o.Kind == "int" {
			return refVal{v: o.rat(), ty: o.Ity.Name}
		}
		return refVal{v: o.rat(), ty: "dec"}
	}
	if n.Op == "neg" {
		a := n.L.ref(leaves, idx)
		if a.null {
			return a
		}
		out := refVal{v: new(big.Rat).Neg(a.v), suspect: a.suspect, divByZ: a.divByZ}
		switch a.ty {
		case "i8", "i16", "i32":
			out.ty = "i64"
		case "u32":
			out.ty = "i32"
		case "u64":
			out.ty = "i64"
		default:
			out.ty = a.ty
		}
		// the Go carrier the negation is computed in
		carrier := map[string]string{"u8": "i8", "u16": "i16", "u24": "i32", "u32": "i32", "u64": "i64", "i64": "i64", "i24": "i64", "i8": "i64", "i16": "i64", "i32": "i64"}[a.ty]
		if carrier != "" && (outOf(carrier, out.v) || outOf(out.ty, out.v)) {
			out.suspect = true
		}
		return out
	}
	a := n.L.ref(leaves, idx)
	b := n.R.ref(leaves, idx)
	out := refVal{suspect: a.suspect || b.suspect, divByZ: a.divByZ || b.divByZ}
	if a.null || b.null {
		out.null = true
		return out
	}
	aInt, bInt := a.ty != "dec", b.ty != "dec"
	switch n.Op {
	case "+", "-", "*":
		switch n.Op {
		case "+":
			out.v = new(big.Rat).Add(a.v, b.v)
		case "-":
			out.v = new(big.Rat).Sub(a.v, b.v)
		default:
			out.v = new(big.Rat).Mul(a.v, b.v)
		}
		if aInt && bInt {
			out.ty = "i64"
			if isUnsignedTy(a.ty) && isUnsignedTy(b.ty) {
				out.ty = "u64"
			}
			if outOf(out.ty, out.v) || outOf(out.ty, a.v) || outOf(out.ty, b.v) {
				out.suspect = true
			}
		} else {
			out.ty = "dec"
		}
	case "DIV", "%", "/":
		if b.v.Sign() == 0 {
			out.null, out.divByZ = true, true
			return out
		}
		q := new(big.Rat).Quo(a.v, b.v)
		switch n.Op {
		case "DIV":
			out.v = new(big.Rat).SetInt(truncRat(q))
			out.ty = "i64"
			if isUnsignedTy(a.ty) || isUnsignedTy(b.ty) {
				out.ty = "u64"
			}
			if aInt && bInt && isUnsignedTy(a.ty) == isUnsignedTy(b.ty) {
				if outOf(out.ty, out.v) || outOf(out.ty, a.v) || outOf(out.ty, b.v) {
					out.suspect = true
				}
			} else if outOf(out.ty, out.v) {
				out.suspect = true // the decimal path returns an int64 under a BIGINT UNSIGNED static type
			}
		case "%":
			t := new(big.Rat).SetInt(truncRat(q))
			out.v = new(big.Rat).Sub(a.v, t.Mul(t, b.v))
			out.ty = "dec"
		default:
			out.v = q
			out.ty = "dec"
		}
	}
	return out
}

func runTree(c *lib.Ctx, tc treeCase) {
	if engine == nil {
		engine = eng.New("db")
		sess = engine.Session()
	}
	c.Count("op:tree")
	var ls []*operandSpec
	tc.Tree.leaves(&ls)
	// one wide table: a column per (leaf slot, column type); unused columns stay NULL
	var cols, vals, exprs []string
	for i, l := range ls {
		if l.Kind == "col" {
			cn := fmt.Sprintf("s%d_%s", i, strings.NewReplacer(" ", "", "(", "", ")", "", ",", "_").Replace(colSQL(l.Type)))
			cols = append(cols, cn)
			vals = append(vals, l.Text)
			exprs = append(exprs, cn)
		} else {
			exprs = append(exprs, exprOf(*l, ""))
		}
	}
	from := ""
	if len(cols) > 0 {
		if !tables["treewide"] {
			var defs []string
			for slot := 0; slot < 8; slot++ {
				for _, it := range intTypes {
					defs = append(defs, fmt.Sprintf("s%d_%s %s", slot, strings.ReplaceAll(it.SQL, " ", ""), it.SQL))
				}
				for _, dt := range decTypes {
					defs = append(defs, fmt.Sprintf("s%d_decimal%d_%d decimal(%d,%d)", slot, dt[0], dt[1], dt[0], dt[1]))
				}
			}
			sess.MustExec("CREATE TABLE treewide (" + strings.Join(defs, ", ") + ")")
			tables["treewide"] = true
		}
		sess.MustExec("DELETE FROM treewide", fmt.Sprintf("INSERT INTO treewide (%s) VALUES (%s)", strings.Join(cols, ", "), strings.Join(vals, ", ")))
		from = " FROM treewide"
	}
	pr := sess.Query("SELECT " + strings.Join(exprs, ", ") + from)
	if pr.Err != nil || len(pr.Rows) != 1 {
		c.Count("skipped:operand-projection-failed")
		c.CaseNoModel(tc, "")
		return
	}
	leaves := make([]obs, len(ls))
	decls := make([]int64, len(ls))
	for i := range ls {
		o := observe(pr.Rows[0][i])
		switch o.Kind {
		case "int":
			o.Ity = intTypeBySQL(pr.Schema[i].Type.String())
			if o.Ity == nil || carrierOf[o.Ity.Coq] != o.GoTy {
				c.Count("skipped:operand-not-integer-or-decimal")
				c.CaseNoModel(tc, "")
				return
			}
		case "dec":
			var p, s int64
			fmt.Sscanf(pr.Schema[i].Type.String(), "decimal(%d,%d)", &p, &s)
			decls[i] = s
		default:
			c.Count("skipped:operand-not-integer-or-decimal")
			c.CaseNoModel(tc, "")
			return
		}
		leaves[i] = o
	}
	i := 0
	q := "SELECT " + tc.Tree.sql(exprs, &i) + from
	res := sess.Query(q)
	var out obs
	switch {
	case res.Panic != "":
		id := c.CaseNoModel(tc, "")
		c.PredChecked()
		c.PredFail(id, "tree/panic", q+" panicked: "+res.Panic, tc)
		return
	case res.Err != nil:
		out = obs{Kind: "err"}
	case len(res.Rows) != 1 || len(res.Rows[0]) != 1:
		c.CaseNoModel(tc, "")
		return
	default:
		out = observe(res.Rows[0][0])
	}
	if out.Kind == "other" {
		id := c.CaseNoModel(tc, "")
		c.PredChecked()
		c.PredFail(id, "tree/non-numeric-result", q+" returned "+fmt.Sprint(eng.Rows(res.Rows)), tc)
		return
	}
	i = 0
	term := "(TreeCase " + tc.Tree.coq(leaves, decls, &i) + " " + out.coqResult() + ")"
	id := c.Case(term, tc, q+"|"+fmt.Sprint(vals))
	c.Count("tree-result:" + out.Kind)

	// ---- predicate: exact rational reference (trees without '/': exact; with '/': only NULL / error discipline) ----
	c.PredChecked()
	i = 0
	ref := tc.Tree.ref(leaves, &i)
	desc := fmt.Sprintf("%s with %v", q, vals)
	fail := func(sig, what string) {
		sigSeen[sig]++
		if sigSeen[sig] <= 5 {
			c.PredFail(id, sig, desc+": "+what, tc)
		} else {
			c.Count("predicate_failure:" + sig)
		}
	}
	if out.Kind == "err" {
		c.Count("tree:error")
		return
	}
	if ref.null {
		if out.Kind != "null" && !ref.suspect {
			fail("tree/null-expected", "a division by zero inside must give NULL, got "+out.coqResult())
		}
		return
	}
	if tc.Tree.hasOp("/") { // intermediate quotients are truncated at the working scale: no exactness claim
		c.Count("tree:division-unjudged")
		return
	}
	if out.Kind == "null" {
		if !ref.suspect { // a wrapped divisor may have become 0
			fail("tree/unexpected-null", "NULL although the exact value is "+ref.v.RatString())
		}
		return
	}
	if out.rat().Cmp(ref.v) == 0 {
		return
	}
	if ref.suspect {
		fail("tree/integer-subexpression-out-of-range", fmt.Sprintf("got %s, exact %s (an integer-typed subexpression leaves its type's range)", out.rat().RatString(), ref.v.RatString()))
	} else {
		fail("tree/inexact", fmt.Sprintf("got %s, exact %s", out.rat().RatString(), ref.v.RatString()))
	}
}
