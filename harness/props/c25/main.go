// Driver for C25 (integer and decimal arithmetic is exact or reports out-of-range): runs `SELECT a op b` /
// `SELECT -a` through the real engine for operands that are table columns of every integer width and
// signedness, DECIMAL columns, literals and CASTs; records (operator, evaluated operands, observed result) for
// the Coq model, and evaluates the property predicate with an independent math/big reference.
package main

import (
	"fmt"
	"math/big"
	"strings"

	"github.com/cockroachdb/apd/v3"

	"verifharness/lib"
	"verifharness/lib/eng"
)

type operandSpec struct {
	Kind string `json:"kind"` // col | lit | cast | null
	Type string `json:"type"` // col: i8..u64 or decimal(p,s); cast: signed | unsigned | decimal(p,s)
	Text string `json:"text"` // the value as decimal text
}

type caseT struct {
	Op string      `json:"op"` // + - * DIV % / neg
	L  operandSpec `json:"l"`
	R  operandSpec `json:"r"`
}

var opNames = map[string]string{"+": "plus", "-": "minus", "*": "mult", "DIV": "intdiv", "%": "mod", "MOD": "mod", "/": "div", "neg": "neg", "abs": "abs", "sign": "sign"}
var opCoq = map[string]string{"+": "Plus", "-": "Minus", "*": "Mult", "DIV": "IntDiv", "%": "Mod", "MOD": "Mod", "/": "Div", "neg": "Neg", "abs": "Abs", "sign": "Sign"}
var ops = []string{"+", "-", "*", "DIV", "%", "/", "neg", "MOD", "abs", "sign"}

func unary(op string) bool { return op == "neg" || op == "abs" || op == "sign" }

type intType struct {
	Name, SQL, Coq string
	Min, Max       *big.Int
}

func bi(s string) *big.Int {
	z, ok := new(big.Int).SetString(s, 10)
	if !ok {
		panic("bad int " + s)
	}
	return z
}

var intTypes = []intType{
	{"i8", "tinyint", "I8", bi("-128"), bi("127")},
	{"u8", "tinyint unsigned", "U8", bi("0"), bi("255")},
	{"i16", "smallint", "I16", bi("-32768"), bi("32767")},
	{"u16", "smallint unsigned", "U16", bi("0"), bi("65535")},
	{"i24", "mediumint", "I24", bi("-8388608"), bi("8388607")},
	{"u24", "mediumint unsigned", "U24", bi("0"), bi("16777215")},
	{"i32", "int", "I32", bi("-2147483648"), bi("2147483647")},
	{"u32", "int unsigned", "U32", bi("0"), bi("4294967295")},
	{"i64", "bigint", "I64", bi("-9223372036854775808"), bi("9223372036854775807")},
	{"u64", "bigint unsigned", "U64", bi("0"), bi("18446744073709551615")},
}

func intTypeByName(n string) *intType {
	for i := range intTypes {
		if intTypes[i].Name == n {
			return &intTypes[i]
		}
	}
	return nil
}
func intTypeBySQL(n string) *intType {
	for i := range intTypes {
		if intTypes[i].SQL == n {
			return &intTypes[i]
		}
	}
	return nil
}

// boundary magnitudes: 0, 1, 2^7, 2^8, 2^15, 2^16, 2^23, 2^24, 2^31, 2^32, 2^62, 2^63, 2^64, each +-1, both signs
var boundaries []*big.Int

func init() {
	seen := map[string]bool{}
	add := func(z *big.Int) {
		if !seen[z.String()] {
			seen[z.String()] = true
			boundaries = append(boundaries, new(big.Int).Set(z))
		}
	}
	for _, e := range []uint{0, 1, 7, 8, 15, 16, 23, 24, 31, 32, 62, 63, 64} {
		p := new(big.Int).Lsh(big.NewInt(1), e)
		for d := int64(-1); d <= 1; d++ {
			v := new(big.Int).Add(p, big.NewInt(d))
			add(v)
			add(new(big.Int).Neg(v))
		}
	}
	add(big.NewInt(0))
	for _, s := range []string{"3", "10", "4611686018427387904", "3037000500", "6074001000", "4294967297", "100000000000000000000"} {
		add(bi(s))
		add(new(big.Int).Neg(bi(s)))
	}
}

func inRange(t *intType, z *big.Int) bool { return z.Cmp(t.Min) >= 0 && z.Cmp(t.Max) <= 0 }

func randBig(r *lib.RNG, lo, hi *big.Int) *big.Int {
	span := new(big.Int).Sub(hi, lo)
	span.Add(span, big.NewInt(1))
	x := new(big.Int).SetUint64(r.Uint64())
	x.Lsh(x, 64)
	x.Or(x, new(big.Int).SetUint64(r.Uint64()))
	x.Mod(x, span)
	return x.Add(x, lo)
}

func genIntValue(r *lib.RNG, t *intType) *big.Int {
	switch r.Intn(10) {
	case 0, 1, 2, 3, 4: // boundary of this type or a global boundary that fits
		for k := 0; k < 20; k++ {
			b := lib.Pick(r, boundaries)
			if inRange(t, b) {
				return b
			}
		}
		return new(big.Int).Set(t.Max)
	case 5: // near the type's own limits
		d := big.NewInt(int64(r.Intn(3)))
		if r.Bool() {
			return new(big.Int).Sub(t.Max, d)
		}
		return new(big.Int).Add(t.Min, d)
	case 6, 7: // small
		v := big.NewInt(int64(r.Intn(21) - 10))
		if inRange(t, v) {
			return v
		}
		return big.NewInt(int64(r.Intn(10)))
	default:
		return randBig(r, t.Min, t.Max)
	}
}

var decTypes = [][2]int{{5, 0}, {10, 2}, {20, 5}, {38, 10}, {65, 30}, {18, 9}, {30, 28}}

// randDecText returns a decimal text with at most `whole` integer digits and exactly `scale` fraction digits.
func randDecText(r *lib.RNG, whole, scale int) string {
	var sb strings.Builder
	if r.Chance(2, 5) {
		sb.WriteByte('-')
	}
	w := 0
	if whole > 0 {
		w = r.Range(0, whole)
		if r.Chance(1, 2) && w > 3 {
			w = r.Range(0, 3)
		}
	}
	if w == 0 {
		sb.WriteByte('0')
	}
	for i := 0; i < w; i++ {
		d := r.Intn(10)
		if i == 0 && d == 0 {
			d = 1 + r.Intn(9)
		}
		if r.Chance(1, 6) {
			d = 9
		}
		sb.WriteByte(byte('0' + d))
	}
	if scale > 0 {
		sb.WriteByte('.')
		mode := r.Intn(4)
		for i := 0; i < scale; i++ {
			d := r.Intn(10)
			switch mode {
			case 0:
				d = 0
			case 1:
				d = 9
			case 2:
				if i == scale-1 {
					d = 5
				}
			}
			sb.WriteByte(byte('0' + d))
		}
	}
	return sb.String()
}

func genOperand(r *lib.RNG) operandSpec {
	switch r.Intn(20) {
	case 0: // NULL
		return operandSpec{Kind: "null"}
	case 1, 2, 3, 4, 5, 6, 7, 8, 9: // integer column
		t := &intTypes[r.Intn(len(intTypes))]
		if r.Chance(1, 3) { // favour the 64-bit types where overflow lives
			t = &intTypes[8+r.Intn(2)]
		}
		return operandSpec{Kind: "col", Type: t.Name, Text: genIntValue(r, t).String()}
	case 10, 11: // decimal column
		dt := lib.Pick(r, decTypes)
		return operandSpec{Kind: "col", Type: fmt.Sprintf("decimal(%d,%d)", dt[0], dt[1]), Text: randDecText(r, dt[0]-dt[1], dt[1])}
	case 12, 13, 14: // integer literal (any magnitude; beyond uint64 it is a decimal literal)
		if r.Chance(1, 8) {
			return operandSpec{Kind: "lit", Text: randDecText(r, 40, 0)}
		}
		return operandSpec{Kind: "lit", Text: lib.Pick(r, boundaries).String()}
	case 15, 16: // decimal literal
		return operandSpec{Kind: "lit", Text: randDecText(r, r.Range(0, 20), r.Range(1, 12))}
	case 17: // CAST to SIGNED / UNSIGNED of an in-range value
		if r.Bool() {
			return operandSpec{Kind: "cast", Type: "signed", Text: genIntValue(r, &intTypes[8]).String()}
		}
		return operandSpec{Kind: "cast", Type: "unsigned", Text: genIntValue(r, &intTypes[9]).String()}
	case 18: // CAST to DECIMAL
		dt := lib.Pick(r, decTypes)
		return operandSpec{Kind: "cast", Type: fmt.Sprintf("decimal(%d,%d)", dt[0], dt[1]), Text: randDecText(r, dt[0]-dt[1], dt[1])}
	default: // small integer literal
		return operandSpec{Kind: "lit", Text: fmt.Sprint(r.Intn(41) - 20)}
	}
}

func gen(r *lib.RNG) caseT {
	c := caseT{Op: ops[r.Intn(len(ops))], L: genOperand(r), R: genOperand(r)}
	if unary(c.Op) {
		c.R = operandSpec{Kind: "null"}
		if c.L.Kind == "null" && r.Chance(9, 10) {
			t := &intTypes[r.Intn(len(intTypes))]
			c.L = operandSpec{Kind: "col", Type: t.Name, Text: genIntValue(r, t).String()}
		}
	}
	switch r.Intn(14) {
	case 0: // the most negative BIGINT (column, literal or CAST) against a decimal / unsigned / small operand
		c.L = lib.Pick(r, []operandSpec{{Kind: "col", Type: "i64", Text: "-9223372036854775808"}, {Kind: "lit", Text: "-9223372036854775808"},
			{Kind: "cast", Type: "signed", Text: "-9223372036854775808"}})
		if !unary(c.Op) {
			c.R = lib.Pick(r, []operandSpec{{Kind: "lit", Text: "0.5"}, {Kind: "lit", Text: "10"}, {Kind: "lit", Text: "-1"}, {Kind: "lit", Text: "-1.0"}, {Kind: "lit", Text: "1.0"},
				{Kind: "col", Type: "u8", Text: "3"}, {Kind: "col", Type: "u64", Text: "1"}, {Kind: "col", Type: "i8", Text: "-1"}, {Kind: "col", Type: "decimal(10,2)", Text: "-1.00"},
				{Kind: "col", Type: "u64", Text: "18446744073709551615"}, {Kind: "lit", Text: "3"}, {Kind: "col", Type: "decimal(5,0)", Text: "7"}})
			if r.Bool() {
				c.L, c.R = c.R, c.L
				if r.Bool() {
					c.L, c.R = c.R, c.L
				}
			}
		}
	case 1: // BIGINT UNSIGNED beyond 2^63 against a negative signed / decimal operand (|quotient| around 2^63)
		if !unary(c.Op) {
			c.L = operandSpec{Kind: lib.Pick(r, []string{"col", "lit", "cast"}), Type: "u64", Text: lib.Pick(r, []string{"18446744073709551615", "9223372036854775809", "9223372036854775808", "9223372036854775807", "18446744073709551614", "13835058055282163712"})}
			if c.L.Kind == "cast" {
				c.L.Type = "unsigned"
			}
			c.R = lib.Pick(r, []operandSpec{{Kind: "lit", Text: "-1"}, {Kind: "col", Type: "i8", Text: "-1"}, {Kind: "col", Type: "i64", Text: "-1"}, {Kind: "lit", Text: "-1.0"}, {Kind: "lit", Text: "-0.5"},
				{Kind: "lit", Text: "-2"}, {Kind: "col", Type: "decimal(10,2)", Text: "-1.00"}, {Kind: "col", Type: "i16", Text: "-2"}, {Kind: "cast", Type: "signed", Text: "-1"}, {Kind: "lit", Text: "-1.5"}})
		}
	}
	if (c.Op == "DIV" || c.Op == "%" || c.Op == "MOD" || c.Op == "/") && r.Chance(1, 12) { // division by zero of every flavour
		switch r.Intn(4) {
		case 0:
			c.R = operandSpec{Kind: "lit", Text: "0"}
		case 1:
			c.R = operandSpec{Kind: "lit", Text: "0.000"}
		case 2:
			c.R = operandSpec{Kind: "col", Type: lib.Pick(r, intTypes).Name, Text: "0"}
		default:
			c.R = operandSpec{Kind: "col", Type: "decimal(10,2)", Text: "0.00"}
		}
	}
	return c
}

// ---------- running a case on the engine ----------

var engine *eng.E
var sess *eng.S
var tables = map[string]bool{}
var sigSeen = map[string]int{}

func colSQL(t string) string {
	if it := intTypeByName(t); it != nil {
		return it.SQL
	}
	return t
}

func exprOf(o operandSpec, col string) string {
	switch o.Kind {
	case "null":
		return "NULL"
	case "col":
		return col
	case "cast":
		return fmt.Sprintf("CAST(%s AS %s)", o.Text, o.Type)
	default:
		return "(" + o.Text + ")"
	}
}

// observed operand / result
type obs struct {
	Kind  string // null | int | dec | err | other
	Ity   *intType
	GoTy  string // carrier of an integer result: I8 I16 I32 I64 U64
	Z     *big.Int
	Scale int64
}

func (o obs) rat() *big.Rat {
	r := new(big.Rat).SetInt(o.Z)
	if o.Kind == "dec" && o.Scale > 0 {
		r.Quo(r, new(big.Rat).SetInt(new(big.Int).Exp(big.NewInt(10), big.NewInt(o.Scale), nil)))
	}
	return r
}

func zCoq(z *big.Int) string { return lib.CoqZStr(z.String()) }

func (o obs) coqOperand() string {
	switch o.Kind {
	case "null":
		return "ONull"
	case "int":
		return fmt.Sprintf("(OInt %s %s)", o.Ity.Coq, zCoq(o.Z))
	default:
		return fmt.Sprintf("(ODec %s %d%%Z)", zCoq(o.Z), o.Scale)
	}
}

func (o obs) coqResult() string {
	switch o.Kind {
	case "null":
		return "RNull"
	case "err":
		return "RErr"
	case "int":
		return fmt.Sprintf("(RInt %s %s)", o.GoTy, zCoq(o.Z))
	default:
		return fmt.Sprintf("(RDec %s %d%%Z)", zCoq(o.Z), o.Scale)
	}
}

func observe(v interface{}) obs {
	switch x := v.(type) {
	case nil:
		return obs{Kind: "null"}
	case int8:
		return obs{Kind: "int", GoTy: "I8", Z: big.NewInt(int64(x))}
	case int16:
		return obs{Kind: "int", GoTy: "I16", Z: big.NewInt(int64(x))}
	case int32:
		return obs{Kind: "int", GoTy: "I32", Z: big.NewInt(int64(x))}
	case int64:
		return obs{Kind: "int", GoTy: "I64", Z: big.NewInt(x)}
	case uint8:
		return obs{Kind: "int", GoTy: "U8", Z: new(big.Int).SetUint64(uint64(x))}
	case uint16:
		return obs{Kind: "int", GoTy: "U16", Z: new(big.Int).SetUint64(uint64(x))}
	case uint32:
		return obs{Kind: "int", GoTy: "U32", Z: new(big.Int).SetUint64(uint64(x))}
	case uint64:
		return obs{Kind: "int", GoTy: "U64", Z: new(big.Int).SetUint64(x)}
	case *apd.Decimal:
		if x == nil {
			return obs{Kind: "null"}
		}
		if x.Form != apd.Finite {
			return obs{Kind: "other"}
		}
		z := new(big.Int).Set(x.Coeff.MathBigInt())
		if x.Negative {
			z.Neg(z)
		}
		sc := -int64(x.Exponent)
		if sc < 0 {
			z.Mul(z, new(big.Int).Exp(big.NewInt(10), big.NewInt(-sc), nil))
			sc = 0
		}
		return obs{Kind: "dec", Z: z, Scale: sc}
	default:
		return obs{Kind: "other"}
	}
}

var carrierOf = map[string]string{"I8": "I8", "U8": "U8", "I16": "I16", "U16": "U16", "I24": "I32", "U24": "U32", "I32": "I32", "U32": "U32", "I64": "I64", "U64": "U64"}

var goRange = map[string][2]*big.Int{
	"I8": {bi("-128"), bi("127")}, "I16": {bi("-32768"), bi("32767")}, "I32": {bi("-2147483648"), bi("2147483647")},
	"I64": {bi("-9223372036854775808"), bi("9223372036854775807")}, "U64": {bi("0"), bi("18446744073709551615")},
	"U8": {bi("0"), bi("255")}, "U16": {bi("0"), bi("65535")}, "U32": {bi("0"), bi("4294967295")},
}
var goName = map[string]string{"I8": "int8", "I16": "int16", "I32": "int32", "I64": "int64", "U64": "uint64", "U8": "uint8", "U16": "uint16", "U32": "uint32"}

// operandClass narrows a failure signature by the operands' shape: the operand type for unary minus; uu / ss / mixed
// for two integers (by signedness); dec when a decimal is involved.
func operandClass(op string, l, r obs) string {
	if unary(op) {
		if l.Kind == "int" {
			return l.Ity.Name
		}
		return "dec"
	}
	if l.Kind != "int" || r.Kind != "int" {
		return "dec"
	}
	lu, ru := l.Ity.Min.Sign() == 0, r.Ity.Min.Sign() == 0
	switch {
	case lu && ru:
		return "uu"
	case !lu && !ru:
		return "ss"
	}
	return "mixed"
}

func truncRat(r *big.Rat) *big.Int { return new(big.Int).Quo(r.Num(), r.Denom()) } // big.Int.Quo truncates toward zero

func run(c *lib.Ctx, cs caseT) {
	if engine == nil {
		engine = eng.New("db")
		sess = engine.Session()
	}
	opn := opNames[cs.Op]
	c.Count("op:" + opn)
	from := ""
	if cs.L.Kind == "col" || cs.R.Kind == "col" {
		lt, rt := "int", "int"
		lv, rv := "NULL", "NULL"
		if cs.L.Kind == "col" {
			lt, lv = colSQL(cs.L.Type), cs.L.Text
		}
		if cs.R.Kind == "col" {
			rt, rv = colSQL(cs.R.Type), cs.R.Text
		}
		name := "t_" + strings.NewReplacer(" ", "_", "(", "_", ")", "", ",", "_").Replace(lt+"__"+rt)
		if !tables[name] {
			sess.MustExec(fmt.Sprintf("CREATE TABLE %s (a %s, b %s)", name, lt, rt))
			tables[name] = true
		}
		sess.MustExec("DELETE FROM "+name, fmt.Sprintf("INSERT INTO %s VALUES (%s, %s)", name, lv, rv))
		from = " FROM " + name
	}
	le, re := exprOf(cs.L, "a"), exprOf(cs.R, "b")
	// what the engine evaluates the operands to (value, Go carrier, declared type)
	pr := sess.Query("SELECT " + le + ", " + re + from)
	if pr.Err != nil || len(pr.Rows) != 1 {
		c.Count("skipped:operand-projection-failed")
		c.CaseNoModel(cs, "")
		return
	}
	lo, ro := observe(pr.Rows[0][0]), observe(pr.Rows[0][1])
	ldecl := int64(0)
	okOperand := func(o *obs, i int) bool {
		switch o.Kind {
		case "null":
			return true
		case "int":
			o.Ity = intTypeBySQL(pr.Schema[i].Type.String())
			return o.Ity != nil && carrierOf[o.Ity.Coq] == o.GoTy
		case "dec":
			return true
		}
		return false
	}
	if !okOperand(&lo, 0) || !okOperand(&ro, 1) {
		c.Count("skipped:operand-not-integer-or-decimal")
		c.CaseNoModel(cs, "")
		return
	}
	if strings.HasPrefix(pr.Schema[0].Type.String(), "decimal(") {
		var p, s int64
		fmt.Sscanf(pr.Schema[0].Type.String(), "decimal(%d,%d)", &p, &s)
		ldecl = s
	}
	var q string
	if cs.Op == "neg" {
		q = "SELECT -" + le + from
	} else if cs.Op == "abs" {
		q = "SELECT ABS(" + le + ")" + from
	} else if cs.Op == "sign" {
		q = "SELECT SIGN(" + le + ")" + from
	} else if cs.Op == "MOD" {
		q = "SELECT MOD(" + le + ", " + re + ")" + from
	} else {
		q = "SELECT " + le + " " + cs.Op + " " + re + from
	}
	res := sess.Query(q)
	var out obs
	switch {
	case res.Panic != "":
		id := c.CaseNoModel(cs, "")
		c.PredChecked()
		c.PredFail(id, opn+"/panic", fmt.Sprintf("%s panicked: %s", q, res.Panic), cs)
		return
	case res.Err != nil:
		out = obs{Kind: "err"}
	case len(res.Rows) != 1 || len(res.Rows[0]) != 1:
		c.Count("skipped:unexpected-row-count")
		c.CaseNoModel(cs, "")
		return
	default:
		out = observe(res.Rows[0][0])
	}
	desc := fmt.Sprintf("%s with a=%s:%s b=%s:%s", q, cs.L.Type, cs.L.Text, cs.R.Type, cs.R.Text)
	if out.Kind == "other" || (out.Kind == "int" && goRange[out.GoTy][0] == nil) {
		id := c.CaseNoModel(cs, "")
		c.PredChecked()
		c.PredFail(id, opn+"/non-numeric-result", fmt.Sprintf("%s returned %s", desc, eng.Rows(res.Rows)), cs)
		return
	}
	// the child of UnaryMinus is a *Literal for a literal and for a CAST of a literal (constant-folded by the analyzer)
	lit := cs.Op == "neg" && (cs.L.Kind == "lit" || cs.L.Kind == "cast")
	key := ""
	if lo.Kind != "null" && (ro.Kind != "null" || unary(cs.Op)) {
		key = cs.Op + "|" + lo.coqOperand() + "|" + ro.coqOperand()
	}
	opclass := func(o obs) string {
		switch o.Kind {
		case "int":
			return o.Ity.Name
		case "dec":
			return "dec"
		}
		return "null"
	}
	c.Count("left:" + opclass(lo))
	c.Count("result:" + out.Kind)
	term := "(FlatCase " + strings.Join([]string{opCoq[cs.Op], lib.CoqBool(lit), lib.CoqZ(ldecl), lo.coqOperand(), ro.coqOperand(), out.coqResult()}, " ") + ")"
	id := c.Case(term, cs, key)

	// ---------- property predicate on the implementation alone (math/big reference) ----------
	c.PredChecked()
	fail := func(shape, what string) {
		rt := "decimal"
		if out.Kind == "int" {
			rt = goName[out.GoTy]
		} else if out.Kind == "null" {
			rt = "null"
		} else if out.Kind == "err" {
			rt = "error"
		}
		sig := opn + "/" + operandClass(cs.Op, lo, ro) + "/" + rt + "/" + shape
		sigSeen[sig]++
		if sigSeen[sig] <= 5 { // the summary keeps at most 200 failures: a few per signature, every signature
			c.PredFail(id, sig, desc+": "+what, cs)
		} else {
			c.Count("predicate_failure:" + sig)
		}
	}
	anyNull := lo.Kind == "null" || (!unary(cs.Op) && ro.Kind == "null")
	if anyNull {
		if out.Kind != "null" && out.Kind != "err" {
			fail("null-operand-non-null-result", "result "+out.coqResult()+" for a NULL operand")
		}
		return
	}
	a := lo.rat()
	var b *big.Rat
	if !unary(cs.Op) {
		b = ro.rat()
	}
	var exact *big.Rat
	wantNull := false
	switch cs.Op {
	case "+":
		exact = new(big.Rat).Add(a, b)
	case "-":
		exact = new(big.Rat).Sub(a, b)
	case "*":
		exact = new(big.Rat).Mul(a, b)
	case "neg":
		exact = new(big.Rat).Neg(a)
	case "abs":
		exact = new(big.Rat).Abs(a)
	case "sign":
		exact = new(big.Rat).SetInt64(int64(a.Sign()))
	default:
		if b.Sign() == 0 {
			wantNull = true
			break
		}
		qr := new(big.Rat).Quo(a, b)
		switch cs.Op {
		case "DIV":
			exact = new(big.Rat).SetInt(truncRat(qr))
		case "%", "MOD":
			t := new(big.Rat).SetInt(truncRat(qr))
			exact = new(big.Rat).Sub(a, t.Mul(t, b))
		default:
			exact = qr
		}
	}
	if wantNull {
		c.Count("division-by-zero")
		if out.Kind != "null" {
			fail("by-zero-not-null", "division by zero must yield NULL, got "+out.coqResult())
		}
		return
	}
	if out.Kind == "err" {
		c.Count("result-error:" + eng.ErrKind(res.Err))
		return // an error is allowed by the property (never a silently different value)
	}
	if out.Kind == "null" {
		fail("unexpected-null", "NULL although the exact result is "+exact.RatString())
		return
	}
	// the declared result type DECIMAL(p,s) must be able to hold the value that is returned
	if out.Kind == "dec" && (cs.Op == "+" || cs.Op == "-" || cs.Op == "*" || cs.Op == "/") && len(res.Schema) == 1 {
		var dp, ds int64
		if n, _ := fmt.Sscanf(res.Schema[0].Type.String(), "decimal(%d,%d)", &dp, &ds); n == 2 {
			c.Count("declared-type-checked")
			ip := new(big.Int).Quo(new(big.Int).Abs(out.Z), new(big.Int).Exp(big.NewInt(10), big.NewInt(out.Scale), nil))
			idig := int64(len(ip.String()))
			if ip.Sign() == 0 {
				idig = 0
			}
			if out.Scale > ds {
				fail("declared-scale-too-small", fmt.Sprintf("value %s has %d fraction digits, declared %s", out.rat().FloatString(int(out.Scale)), out.Scale, res.Schema[0].Type.String()))
			} else if idig > dp-ds {
				fail("declared-precision-too-small", fmt.Sprintf("value has %d integer digits, declared %s", idig, res.Schema[0].Type.String()))
			}
		}
	}
	got := out.rat()
	if cs.Op == "/" {
		// exact within its precision: the nearest multiple of 10^-scale(result) to the exact quotient, scale >= 4
		unit := new(big.Rat).SetFrac(big.NewInt(1), new(big.Int).Exp(big.NewInt(10), big.NewInt(out.Scale), nil))
		diff := new(big.Rat).Sub(got, exact)
		diff.Abs(diff)
		diff.Mul(diff, big.NewRat(2, 1))
		if out.Kind != "dec" || out.Scale < 4 || diff.Cmp(unit) > 0 {
			shape := "not-nearest"
			// the exact quotient truncated toward zero at the result's scale (one unit off at most, never rounded)
			scaled := new(big.Rat).Quo(exact, unit)
			tr := new(big.Rat).Mul(new(big.Rat).SetInt(truncRat(scaled)), unit)
			if out.Kind == "dec" && out.Scale >= 4 && got.Cmp(tr) == 0 {
				shape = "truncated-not-rounded"
			}
			fail(shape, fmt.Sprintf("got %s, exact quotient %s", got.FloatString(int(out.Scale)), exact.FloatString(int(out.Scale)+6)))
		}
		return
	}
	if got.Cmp(exact) == 0 {
		return
	}
	shape := "inexact"
	if out.Kind == "int" {
		rg := goRange[out.GoTy]
		fits := exact.IsInt() && exact.Num().Cmp(rg[0]) >= 0 && exact.Num().Cmp(rg[1]) <= 0
		clamped := out.GoTy == "I64" && ((lo.Kind == "int" && lo.Z.Cmp(goRange["I64"][1]) > 0) || (ro.Kind == "int" && ro.Z.Cmp(goRange["I64"][1]) > 0))
		switch {
		case !fits:
			shape = "wrap" // the exact value is not representable in the result type and no error was reported
		case clamped && (cs.Op == "+" || cs.Op == "-" || cs.Op == "*"):
			shape = "u64-operand-clamped"
		}
		c.Count("exact-out-of-result-range")
	}
	fail(shape, fmt.Sprintf("got %s, exact %s", got.RatString(), exact.RatString()))
}

func main() {
	lib.Main("C25", func(c *lib.Ctx) {
		c.Header = "From Coq Require Import List NArith ZArith.\nImport ListNotations.\nFrom GMS Require Import Codec.C25Arith Codec.C25Nested Corr.C25.\nOpen Scope N_scope."
		c.CaseType = "C25.case"
		c.MismatchFn = "C25.mismatches"
		c.SetRule("SELECT a op b / SELECT -a with op in + - * DIV % /; operands: columns of all ten integer types " +
			"(values: type limits, +-2^k+-1 boundaries, small, uniform), DECIMAL columns of seven (p,s) shapes, integer and " +
			"decimal literals (up to 40 digits), CAST AS SIGNED/UNSIGNED/DECIMAL, NULL; 1/12 of divisions by zero. " +
			"Non-trivial = both operands non-NULL; distinct = distinct (op, evaluated operands).")
		if c.ReplayFile != "" {
			var tc treeCase
			lib.LoadReplay(c.ReplayFile, &tc)
			if tc.Tree != nil {
				runTree(c, tc)
				return
			}
			var cs caseT
			lib.LoadReplay(c.ReplayFile, &cs)
			run(c, cs)
			return
		}
		col := func(t, v string) operandSpec { return operandSpec{Kind: "col", Type: t, Text: v} }
		lit := func(v string) operandSpec { return operandSpec{Kind: "lit", Text: v} }
		null := operandSpec{Kind: "null"}
		corpus := []caseT{
			// the observations of DESIGN.md section 0
			{"+", lit("9223372036854775807"), lit("1")},
			{"+", lit("18446744073709551615"), lit("1")},
			{"*", lit("4611686018427387904"), lit("4")},
			{"-", lit("-9223372036854775808"), lit("1")},
			{"+", lit("18446744073709551615"), lit("0")},
			{"-", lit("18446744073709551615"), lit("-1")},
			{"*", lit("18446744073709551615"), lit("1")},
			{"+", col("u64", "18446744073709551615"), col("u64", "1")},
			{"-", col("u8", "0"), col("u16", "1")},
			{"*", col("u64", "4294967296"), col("u32", "4294967295")},
			{"*", col("u64", "4294967296"), col("u64", "4294967296")},
			{"*", col("i64", "3037000500"), col("i64", "3037000500")},
			{"*", col("u64", "9223372036854775808"), col("i8", "-1")},
			{"-", col("u64", "13086853034872188844"), col("i64", "9223372036854775807")},
			{"neg", col("u8", "200"), null}, {"neg", col("u8", "255"), null}, {"neg", col("u8", "127"), null},
			{"neg", col("u16", "40000"), null}, {"neg", col("u24", "16777215"), null}, {"neg", col("u32", "4294967295"), null},
			{"neg", col("u64", "18446744073709551615"), null}, {"neg", col("u64", "9223372036854775808"), null},
			{"neg", col("i64", "-9223372036854775808"), null}, {"neg", lit("-9223372036854775808"), null}, {"neg", lit("200"), null},
			{"neg", col("i8", "-128"), null}, {"neg", col("decimal(10,2)", "-1.50"), null},
			{"DIV", col("i64", "-9223372036854775808"), col("i8", "-1")},
			{"DIV", col("u64", "18446744073709551615"), lit("1")},
			{"DIV", col("u64", "18446744073709551615"), col("u8", "3")},
			{"DIV", lit("-7"), lit("2")}, {"DIV", lit("7"), lit("-2")}, {"DIV", lit("1.5"), lit("0.4")}, {"DIV", lit("7"), lit("0")},
			{"%", lit("-7"), lit("3")}, {"%", lit("7"), lit("-3")}, {"%", lit("7"), lit("0")}, {"%", lit("999"), lit("0.001")},
			{"%", lit("-1.5"), lit("0.4")}, {"%", col("i64", "-9223372036854775808"), col("i8", "-1")},
			{"/", lit("7"), lit("0")}, {"/", lit("7"), lit("2")}, {"/", lit("2"), lit("3")}, {"/", lit("-2"), lit("3")},
			{"/", lit("1.00"), lit("3")}, {"/", col("decimal(20,5)", "123.45600"), lit("7")}, {"/", lit("1"), lit("200001")},
			{"/", lit("0.00005"), lit("1")}, {"/", lit("1"), lit("0.000000000000003")},
			{"+", lit("1.5"), lit("2.25")}, {"*", lit("1.5"), lit("2.25")}, {"-", lit("1.50"), lit("1.5")},
			{"*", lit("99999999999999999999999999999999999999999999999999999999999999999"), lit("99999999999999999999999999999999999999999999999999999999999999999")},
			{"+", col("decimal(65,30)", "99999999999999999999999999999999999.999999999999999999999999999999"), col("decimal(65,30)", "0.000000000000000000000000000001")},
			{"+", null, lit("1")}, {"/", lit("1"), null},
			{"*", col("decimal(30,28)", "52.9999999999999999999999999999"), lit("30.00000")}, {"-", lit("-9223372036854775808"), lit("0.5")},
			{"/", lit("95.99999"), lit("-0.5513805650")},
			{"abs", col("i8", "-128"), null}, {"abs", col("i16", "-32768"), null}, {"abs", col("i32", "-2147483648"), null},
			{"abs", col("i64", "-9223372036854775808"), null}, {"abs", col("i24", "-8388608"), null}, {"abs", col("u64", "18446744073709551615"), null},
			{"abs", col("decimal(10,2)", "-1.50"), null}, {"abs", lit("-128"), null}, {"sign", col("i64", "-9223372036854775808"), null},
			{"sign", lit("0.4"), null}, {"sign", lit("-0.4"), null}, {"sign", lit("0.5"), null}, {"sign", col("u64", "18446744073709551615"), null},
			{"sign", col("decimal(20,5)", "0.00001"), null}, {"sign", lit("0"), null},
			// the most negative BIGINT evaluated through DECIMAL
			{"%", col("i64", "-9223372036854775808"), lit("10")}, {"MOD", col("i64", "-9223372036854775808"), lit("10")},
			{"MOD", lit("-9223372036854775808"), lit("3")}, {"+", col("i64", "-9223372036854775808"), lit("0.5")},
			{"-", lit("-9223372036854775808"), lit("0.5")}, {"*", col("i64", "-9223372036854775808"), lit("1.0")},
			{"DIV", col("i64", "-9223372036854775808"), col("u8", "3")}, {"DIV", lit("-9223372036854775808"), col("u8", "3")},
			{"/", col("i64", "-9223372036854775808"), lit("1")}, {"DIV", col("i64", "-9223372036854775808"), lit("1.0")},
			{"%", col("u8", "7"), col("i64", "-9223372036854775808")}, {"DIV", col("u64", "18446744073709551615"), col("i64", "-9223372036854775808")},
			// BIGINT UNSIGNED DIV a negative operand: |quotient| beyond 2^63 must be exact or an error
			{"DIV", col("u64", "18446744073709551615"), lit("-1")}, {"DIV", lit("18446744073709551615"), lit("-1")},
			{"DIV", lit("9223372036854775809"), lit("-1")}, {"DIV", lit("9223372036854775808"), lit("-1")},
			{"DIV", col("u64", "9223372036854775809"), col("i8", "-1")}, {"DIV", col("u64", "18446744073709551615"), lit("-1.0")},
			{"DIV", col("u64", "18446744073709551615"), lit("-0.5")}, {"DIV", col("u64", "18446744073709551615"), col("decimal(10,2)", "-1.00")},
			{"DIV", col("u64", "18446744073709551615"), lit("-2")}, {"%", col("u64", "18446744073709551615"), lit("-1")},
			{"MOD", col("u64", "18446744073709551615"), lit("-7")},
			// rounding of / at every left scale (only left scale 5, i.e. final scale 9 = working scale, truncates)
			{"/", lit("2.0"), lit("3")}, {"/", lit("2.00"), lit("3")}, {"/", lit("2.000"), lit("3")}, {"/", lit("2.0000"), lit("3")},
			{"/", lit("2.00000"), lit("3")}, {"/", lit("2.000000"), lit("3")}, {"/", lit("2.0000000"), lit("3")},
		}
		for _, cs := range corpus {
			run(c, cs)
		}
		// every boundary pair for the 64-bit types under + - * (the overflow frontier)
		n := len(corpus)
		leafn := func(o operandSpec) *node { return &node{Leaf: &o} }
		bin := func(op string, l, r *node) *node { return &node{Op: op, L: l, R: r} }
		trees := []*node{
			bin("/", bin("/", leafn(lit("10")), leafn(lit("4"))), leafn(lit("2"))),
			bin("+", bin("/", leafn(lit("1")), leafn(lit("3"))), bin("/", bin("/", leafn(lit("7")), leafn(lit("2"))), leafn(lit("3")))),
			bin("/", leafn(lit("1")), bin("/", leafn(lit("2")), leafn(lit("3")))),
			bin("/", bin("*", bin("/", leafn(col("decimal(10,2)", "7.25")), leafn(lit("3"))), leafn(col("i8", "5"))), leafn(lit("0.7"))),
			bin("*", bin("+", leafn(col("i64", "9223372036854775807")), leafn(lit("1"))), leafn(lit("2"))),
			bin("-", bin("+", leafn(col("i64", "9223372036854775807")), leafn(lit("1"))), leafn(lit("1"))),
			bin("+", &node{Op: "neg", L: leafn(col("u8", "5"))}, leafn(col("u8", "3"))),
			bin("+", bin("DIV", leafn(col("u8", "7")), leafn(col("i8", "-2"))), leafn(col("u16", "1"))),
			&node{Op: "neg", L: bin("/", leafn(lit("2")), leafn(lit("3")))},
			&node{Op: "neg", L: bin("+", leafn(col("i64", "-9223372036854775807")), leafn(lit("-1")))},
			bin("%", bin("*", leafn(col("i32", "100000")), leafn(col("i32", "100000"))), leafn(lit("7"))),
			bin("/", bin("+", leafn(col("decimal(20,5)", "1.00001")), leafn(lit("2"))), bin("DIV", leafn(lit("7")), leafn(lit("0")))),
			bin("*", leafn(lit("1.5")), bin("/", leafn(lit("1")), leafn(lit("3")))),
		}
		for _, t := range trees {
			runTree(c, treeCase{Tree: t})
			n++
		}
		for n < c.N {
			r := c.R.Fork()
			if r.Chance(2, 5) {
				runTree(c, treeCase{Tree: genTree(r, r.Range(2, 3))})
			} else {
				run(c, gen(r))
			}
			n++
		}
	})
}
