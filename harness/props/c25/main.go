package main

import (
	"fmt"
	"os"

	"verifharness/lib/eng"
)

func main() {
	e := eng.New("db")
	s := e.Session()
	s.MustExec("CREATE TABLE t (id int primary key, i8 tinyint, u8 tinyint unsigned, i16 smallint, u16 smallint unsigned, i24 mediumint, u24 mediumint unsigned, i32 int, u32 int unsigned, i64 bigint, u64 bigint unsigned, d decimal(20,5))")
	s.MustExec("INSERT INTO t VALUES (1, 127, 255, 32767, 65535, 8388607, 16777215, 2147483647, 4294967295, 9223372036854775807, 18446744073709551615, 123.45600)")
	for _, q := range os.Args[1:] {
		r := s.Query(q)
		ty := ""
		if len(r.Schema) > 0 {
			ty = r.Schema[0].Type.String()
		}
		var gt string
		if len(r.Rows) > 0 && len(r.Rows[0]) > 0 {
			gt = fmt.Sprintf("%T", r.Rows[0][0])
		}
		fmt.Printf("%-50s => %v  type=%s go=%s err=%v kind=%s\n", q, eng.Rows(r.Rows), ty, gt, r.Err, eng.ErrKind(r.Err))
	}
}
