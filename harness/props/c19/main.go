// Driver for C19 (CHECK / NOT NULL / DEFAULT / STORED generated columns): generated schemas over INT columns and DML
// histories run on the real engine; every statement's outcome and the table contents afterwards are recorded for
// the Coq pipeline model (Store/C19Check.v).  The property predicate is evaluated on the implementation alone with
// SQL: no row makes a CHECK false, no NULL in a NOT NULL column, omitted columns hold their default, stored generated
// columns equal their expression, a failing statement changes nothing.
package main

import (
	"fmt"
	"strings"

	"verifharness/lib"
	"verifharness/lib/eng"
)

// ---- syntax ----

type Term struct {
	K string `json:"k"` // col lit add mul
	I int    `json:"i,omitempty"`
	Z int64  `json:"z,omitempty"`
	A *Term  `json:"a,omitempty"`
	B *Term  `json:"b,omitempty"`
}

func (t *Term) sql() string {
	switch t.K {
	case "col":
		return fmt.Sprintf("c%d", t.I)
	case "lit":
		return fmt.Sprintf("%d", t.Z)
	case "add":
		return "(" + t.A.sql() + " + " + t.B.sql() + ")"
	}
	return "(" + t.A.sql() + " * " + t.B.sql() + ")"
}

func coqZ(z int64) string {
	if z < 0 {
		return fmt.Sprintf("(%d)", z)
	}
	return fmt.Sprintf("%d", z)
}

func (t *Term) coq() string {
	switch t.K {
	case "col":
		return fmt.Sprintf("(TCol %d)", t.I)
	case "lit":
		return fmt.Sprintf("(TLit %s)", coqZ(t.Z))
	case "add":
		return "(TAdd " + t.A.coq() + " " + t.B.coq() + ")"
	}
	return "(TMul " + t.A.coq() + " " + t.B.coq() + ")"
}

type Check struct {
	Op string `json:"op"` // Lt Le Gt Ge Eq Ne
	L  *Term  `json:"l"`
	R  *Term  `json:"r"`
}

var opSQL = map[string]string{"Lt": "<", "Le": "<=", "Gt": ">", "Ge": ">=", "Eq": "=", "Ne": "<>"}

func (c Check) sql() string { return c.L.sql() + " " + opSQL[c.Op] + " " + c.R.sql() }
func (c Check) coq() string { return fmt.Sprintf("mkCheck %s %s %s", c.Op, c.L.coq(), c.R.coq()) }

type Col struct {
	NotNull bool   `json:"nn,omitempty"`
	HasDef  bool   `json:"hd,omitempty"`
	Def     int64  `json:"d,omitempty"`
	Gen     *Term  `json:"g,omitempty"`
}

func (c Col) coq() string {
	g := "None"
	if c.Gen != nil {
		g = "(Some " + c.Gen.coq() + ")"
	}
	d := "None"
	if c.HasDef {
		d = "(V " + coqZ(c.Def) + ")"
	}
	return fmt.Sprintf("mkCol %s %s %s", lib.CoqBool(c.NotNull), d, g)
}

// Raw value: K in null int dec stri strf def; Z = integer or tenths
type Raw struct {
	K string `json:"k"`
	Z int64  `json:"z,omitempty"`
}

func tenths(t int64) string {
	s := ""
	if t < 0 {
		s, t = "-", -t
	}
	return fmt.Sprintf("%s%d.%d", s, t/10, t%10)
}

func (r Raw) sql() string {
	switch r.K {
	case "null":
		return "NULL"
	case "int":
		return fmt.Sprintf("%d", r.Z)
	case "dec":
		return tenths(r.Z)
	case "stri":
		return fmt.Sprintf("'%d'", r.Z)
	case "strf":
		return "'" + tenths(r.Z) + "'"
	}
	return "DEFAULT"
}

func (r Raw) coq() string {
	switch r.K {
	case "null":
		return "RNull"
	case "int":
		return "RInt " + coqZ(r.Z)
	case "dec":
		return "RDec " + coqZ(r.Z)
	case "stri":
		return "RStrI " + coqZ(r.Z)
	case "strf":
		return "RStrF " + coqZ(r.Z)
	}
	return "RDef"
}

type Set struct {
	I   int   `json:"i"`
	Raw *Raw  `json:"raw,omitempty"`
	T   *Term `json:"t,omitempty"`
}

type Stmt struct {
	K      string  `json:"k"` // insert update upsert (INSERT one row ... ON DUPLICATE KEY UPDATE sets)
	Ignore bool    `json:"ign,omitempty"`
	Cols   []int   `json:"cols,omitempty"` // insert: the listed columns (others omitted)
	Rows   [][]Raw `json:"rows,omitempty"` // values for Cols
	Sets   []Set   `json:"sets,omitempty"`
	Where  *int64  `json:"where,omitempty"`
}

type caseT struct {
	Cols   []Col   `json:"cols"` // column 0 is the id
	Checks []Check `json:"checks"`
	H      []Stmt  `json:"h"`
}

func (s Stmt) sql() string {
	ign := ""
	if s.Ignore {
		ign = " IGNORE"
	}
	var cn, rows []string
	if s.K == "insert" || s.K == "upsert" {
		for _, i := range s.Cols {
			cn = append(cn, fmt.Sprintf("c%d", i))
		}
		for _, r := range s.Rows {
			var vs []string
			for _, v := range r {
				vs = append(vs, v.sql())
			}
			rows = append(rows, "("+strings.Join(vs, ", ")+")")
		}
		if s.K == "insert" {
			return fmt.Sprintf("INSERT%s INTO t (%s) VALUES %s", ign, strings.Join(cn, ", "), strings.Join(rows, ", "))
		}
	}
	var sets []string
	for _, st := range s.Sets {
		rhs := ""
		if st.Raw != nil {
			rhs = st.Raw.sql()
		} else {
			rhs = st.T.sql()
		}
		sets = append(sets, fmt.Sprintf("c%d = %s", st.I, rhs))
	}
	if s.K == "upsert" {
		return fmt.Sprintf("INSERT INTO t (%s) VALUES %s ON DUPLICATE KEY UPDATE %s", strings.Join(cn, ", "), strings.Join(rows, ", "), strings.Join(sets, ", "))
	}
	q := fmt.Sprintf("UPDATE%s t SET %s", ign, strings.Join(sets, ", "))
	if s.Where != nil {
		q += fmt.Sprintf(" WHERE c0 = %d", *s.Where)
	}
	return q
}

func (s Stmt) coq(ncols int) string {
	var rows []string
	if s.K == "insert" || s.K == "upsert" {
		for _, r := range s.Rows {
			full := make([]string, ncols)
			for i := range full {
				full[i] = "RDef"
			}
			for j, i := range s.Cols {
				full[i] = r[j].coq()
			}
			rows = append(rows, lib.CoqList(full))
		}
		if s.K == "insert" {
			return fmt.Sprintf("Insert %s %s", lib.CoqBool(s.Ignore), lib.CoqList(rows))
		}
	}
	var sets []string
	for _, st := range s.Sets {
		rhs := ""
		if st.Raw != nil {
			rhs = "URaw (" + st.Raw.coq() + ")"
		} else {
			rhs = "UTerm " + st.T.coq()
		}
		sets = append(sets, fmt.Sprintf("(%d%%nat, %s)", st.I, rhs))
	}
	if s.K == "upsert" {
		return fmt.Sprintf("Upsert %s %s", rows[0], lib.CoqList(sets))
	}
	wh := "None"
	if s.Where != nil {
		wh = "(V " + coqZ(*s.Where) + ")"
	}
	return fmt.Sprintf("Update %s %s %s", lib.CoqBool(s.Ignore), lib.CoqList(sets), wh)
}

// ---- generator ----

func col(i int) *Term         { return &Term{K: "col", I: i} }
func lit(z int64) *Term       { return &Term{K: "lit", Z: z} }
func add(a, b *Term) *Term    { return &Term{K: "add", A: a, B: b} }
func mul(a, b *Term) *Term    { return &Term{K: "mul", A: a, B: b} }

func genRaw(r *lib.RNG) Raw {
	switch x := r.Intn(20); {
	case x < 9:
		return Raw{K: "int", Z: int64(r.Range(-3, 15))}
	case x < 11:
		return Raw{K: "null"}
	case x < 13:
		return Raw{K: "def"}
	case x < 15:
		return Raw{K: "stri", Z: int64(r.Range(-3, 15))}
	case x < 18:
		t := int64(r.Range(-3, 15))*10 + int64(r.Range(1, 9))
		if r.Chance(1, 5) {
			t = -t
		}
		return Raw{K: "strf", Z: t}
	default:
		t := int64(r.Range(0, 15))*10 + int64(r.Range(1, 9))
		return Raw{K: "dec", Z: t}
	}
}

func gen(r *lib.RNG) caseT {
	var c caseT
	nb := r.Range(2, 3)
	c.Cols = append(c.Cols, Col{NotNull: true})
	for i := 1; i <= nb; i++ {
		cl := Col{NotNull: r.Chance(1, 3)}
		if r.Chance(1, 2) {
			cl.HasDef, cl.Def = true, int64(r.Range(0, 9))
		}
		c.Cols = append(c.Cols, cl)
	}
	base := func() int { return r.Range(1, nb) }
	for i, ng := 0, r.Intn(3); i < ng; i++ {
		var e *Term
		switch r.Intn(3) {
		case 0:
			e = add(col(base()), lit(int64(r.Range(1, 5))))
		case 1:
			e = mul(col(base()), lit(int64(r.Range(2, 3))))
		default:
			e = add(col(base()), col(base()))
		}
		if i > 0 && r.Chance(1, 2) {
			// a generated column over the previous generated column
			prev := col(len(c.Cols) - 1)
			if r.Chance(1, 2) {
				e = mul(prev, lit(2))
			} else {
				e = add(prev, col(base()))
			}
		}
		c.Cols = append(c.Cols, Col{Gen: e})
	}
	n := len(c.Cols)
	anyc := func() int { return r.Range(1, n-1) }
	ops := []string{"Lt", "Le", "Gt", "Ge", "Ne", "Lt", "Le", "Ge", "Eq"}
	for i, nc := 0, r.Intn(4); i < nc; i++ {
		ck := Check{Op: lib.Pick(r, ops[:8])}
		switch r.Intn(5) {
		case 0, 1:
			ck.L, ck.R = col(anyc()), lit(int64(r.Range(0, 12)))
		case 2:
			ck.L, ck.R = col(anyc()), col(anyc())
		case 3:
			ck.L, ck.R = add(col(anyc()), col(anyc())), lit(int64(r.Range(5, 25)))
		default:
			ck.L, ck.R = add(col(anyc()), lit(int64(r.Range(1, 3)))), lit(int64(r.Range(3, 14)))
		}
		if ck.Op == "Gt" || ck.Op == "Ge" {
			if ck.R.K == "lit" {
				ck.R.Z -= 6
			}
		}
		c.Checks = append(c.Checks, ck)
	}
	nextID := int64(1)
	for i, ns := 0, r.Range(5, 11); i < ns; i++ {
		if nextID > 1 && r.Chance(1, 6) {
			// INSERT ... ON DUPLICATE KEY UPDATE on an id that usually exists
			s := Stmt{K: "upsert", Cols: []int{0}}
			for j := 1; j <= nb; j++ {
				s.Cols = append(s.Cols, j)
			}
			id := int64(r.Range(1, int(nextID)))
			if id == nextID {
				nextID++
			}
			row := []Raw{{K: "int", Z: id}}
			for range s.Cols[1:] {
				row = append(row, Raw{K: "int", Z: int64(r.Range(-3, 15))})
			}
			s.Rows = [][]Raw{row}
			for k, nk := 0, r.Range(1, 2); k < nk; k++ {
				st := Set{I: base()}
				switch r.Intn(3) {
				case 0:
					st.Raw = &Raw{K: "int", Z: int64(r.Range(-3, 15))}
				case 1:
					st.T = add(col(base()), lit(int64(r.Range(1, 4))))
				default:
					st.T = mul(col(base()), lit(2))
				}
				s.Sets = append(s.Sets, st)
			}
			c.H = append(c.H, s)
		} else if r.Chance(7, 10) || nextID == 1 {
			s := Stmt{K: "insert", Ignore: r.Chance(1, 4), Cols: []int{0}}
			for j := 1; j <= nb; j++ {
				if r.Chance(3, 4) {
					s.Cols = append(s.Cols, j)
				}
			}
			for k, nr := 0, r.Range(1, 3); k < nr; k++ {
				row := []Raw{{K: "int", Z: nextID}}
				nextID++
				for range s.Cols[1:] {
					row = append(row, genRaw(r))
				}
				s.Rows = append(s.Rows, row)
			}
			c.H = append(c.H, s)
		} else {
			s := Stmt{K: "update", Ignore: r.Chance(1, 3)}
			for k, nk := 0, r.Range(1, 2); k < nk; k++ {
				st := Set{I: base()}
				if r.Chance(1, 2) {
					rw := genRaw(r)
					if rw.K == "dec" {
						rw = Raw{K: "int", Z: rw.Z / 10}
					}
					st.Raw = &rw
				} else {
					switch r.Intn(3) {
					case 0:
						st.T = add(col(base()), lit(int64(r.Range(1, 4))))
					case 1:
						st.T = col(base())
					default:
						st.T = mul(col(base()), lit(2))
					}
				}
				s.Sets = append(s.Sets, st)
			}
			if r.Chance(2, 3) {
				w := int64(r.Range(1, int(nextID)))
				s.Where = &w
			}
			c.H = append(c.H, s)
		}
	}
	return c
}

// ---- running ----

func cellCoq(v interface{}) string {
	if v == nil {
		return "None"
	}
	return "(V " + coqZ(toI(v)) + ")"
}

func toI(v interface{}) int64 {
	switch x := v.(type) {
	case int32:
		return int64(x)
	case int64:
		return x
	case int8:
		return int64(x)
	case int16:
		return int64(x)
	case int:
		return int64(x)
	}
	panic(fmt.Sprintf("unexpected value %T", v))
}

func errKind(err error) string {
	if err == nil {
		return ""
	}
	m := err.Error()
	switch {
	case strings.Contains(m, "Check constraint"):
		return "ECheck"
	case eng.ErrKind(err) == "not-null", strings.Contains(m, "doesn't have a default value"):
		return "ENotNull"
	case strings.Contains(m, "is not a valid value"), strings.Contains(m, "invalid type"):
		return "EInvalid"
	}
	return "other"
}

func (s Stmt) shape(cols []Col) string {
	if s.K == "upsert" {
		return "upsert"
	}
	if s.K == "insert" {
		for _, r := range s.Rows {
			for _, v := range r {
				if v.K == "strf" {
					return "insert-fractional-string"
				}
			}
		}
		if s.Ignore {
			listed := map[int]bool{}
			for _, i := range s.Cols {
				listed[i] = true
			}
			for i, c := range cols {
				if c.NotNull && c.Gen == nil && !listed[i] && !c.HasDef {
					return "insert-ignore-null"
				}
			}
			for _, r := range s.Rows {
				for j, v := range r {
					c := cols[s.Cols[j]]
					if c.NotNull && (v.K == "null" || (v.K == "def" && !c.HasDef)) {
						return "insert-ignore-null"
					}
				}
			}
		}
		return "insert-other"
	}
	if s.Ignore {
		for _, st := range s.Sets {
			if cols[st.I].NotNull && (st.T != nil || st.Raw.K == "null" || (st.Raw.K == "def" && !cols[st.I].HasDef)) {
				return "update-ignore-null"
			}
		}
	}
	return "update-other"
}

func count(s *eng.S, q string) int64 {
	r := s.Query(q)
	if r.Err != nil || len(r.Rows) != 1 {
		panic(fmt.Sprintf("predicate query failed: %s: %v", q, r.Err))
	}
	return toI(r.Rows[0][0])
}

func run(c *lib.Ctx, cs caseT) {
	e := eng.New("db")
	s := e.Session()
	var defs []string
	for i, cl := range cs.Cols {
		d := fmt.Sprintf("c%d INT", i)
		switch {
		case i == 0:
			d += " PRIMARY KEY"
		case cl.Gen != nil:
			d += " GENERATED ALWAYS AS (" + cl.Gen.sql() + ") STORED"
		default:
			if cl.NotNull {
				d += " NOT NULL"
			}
			if cl.HasDef {
				d += fmt.Sprintf(" DEFAULT %d", cl.Def)
			}
		}
		defs = append(defs, d)
	}
	for _, ck := range cs.Checks {
		defs = append(defs, "CHECK ("+ck.sql()+")")
	}
	s.MustExec("CREATE TABLE t (" + strings.Join(defs, ", ") + ")")

	type failT struct{ sig, what string }
	var fails []failT
	fail := func(sig, what string) { fails = append(fails, failT{sig, what}) }

	readTable := func() ([]string, [][]interface{}) {
		r := s.Query("SELECT * FROM t ORDER BY c0")
		if r.Err != nil {
			panic(r.Err)
		}
		var rows []string
		var vals [][]interface{}
		for _, row := range r.Rows {
			rows = append(rows, lib.CoqListOf([]interface{}(row), cellCoq))
			vals = append(vals, row)
		}
		return rows, vals
	}
	prevBad := map[string]int64{}
	prevTab, _ := readTable()
	var events []string
	nViol := 0
	for si, st := range cs.H {
		q := st.sql()
		r := s.Query(q)
		kind := errKind(r.Err)
		if r.Panic != "" {
			fail("panic", q+" panicked: "+r.Panic)
		} else if kind == "other" {
			fail("unexpected-error/"+st.K, fmt.Sprintf("%s failed: %v", q, r.Err))
			kind = "EInvalid"
		}
		tab, vals := readTable()
		res := "ROk"
		if kind != "" {
			res = "(RErr " + kind + ")"
			if strings.Join(tab, ";") != strings.Join(prevTab, ";") {
				fail("failed-statement-changed-table/"+st.K, fmt.Sprintf("statement %d %s failed (%v) but the table changed", si, q, r.Err))
			}
		}
		events = append(events, fmt.Sprintf("Ev (%s) %s %s", st.coq(len(cs.Cols)), res, lib.CoqList(tab)))
		prevTab = tab
		shape := st.shape(cs.Cols)
		// the property, by SQL on the implementation
		pred := func(base, key, cq, descr string) {
			n := count(s, cq)
			if n > prevBad[key] {
				nViol++
				fail(base+"/"+shape, fmt.Sprintf("after statement %d %s: %d row(s) %s [%s]", si, q, n, descr, cq))
			}
			prevBad[key] = n
		}
		for ci, ck := range cs.Checks {
			pred("check-false-stored", fmt.Sprintf("chk%d", ci), "SELECT COUNT(*) FROM t WHERE NOT ("+ck.sql()+")", "make CHECK ("+ck.sql()+") false")
		}
		for i, cl := range cs.Cols {
			if cl.NotNull {
				pred("null-in-not-null", fmt.Sprintf("nn%d", i), fmt.Sprintf("SELECT COUNT(*) FROM t WHERE c%d IS NULL", i), fmt.Sprintf("hold NULL in NOT NULL column c%d", i))
			}
			if cl.Gen != nil {
				pred("generated-differs", fmt.Sprintf("gen%d", i), fmt.Sprintf("SELECT COUNT(*) FROM t WHERE NOT (c%d <=> %s)", i, cl.Gen.sql()), fmt.Sprintf("have generated column c%d <> %s", i, cl.Gen.sql()))
			}
		}
		if st.K == "insert" && kind == "" {
			listed := map[int]int{}
			for j, i := range st.Cols {
				listed[i] = j + 1
			}
			for _, row := range st.Rows {
				id := row[0].Z
				for _, v := range vals {
					if toI(v[0]) != id {
						continue
					}
					for i, cl := range cs.Cols {
						if cl.Gen != nil || i == 0 {
							continue
						}
						j := listed[i]
						if j != 0 && row[j-1].K != "def" {
							continue
						}
						switch {
						case cl.HasDef && (v[i] == nil || toI(v[i]) != cl.Def):
							fail("default-not-applied/"+shape, fmt.Sprintf("after %s: row %d column c%d holds %v, declared default %d", q, id, i, v[i], cl.Def))
						case !cl.HasDef && v[i] != nil && !(st.Ignore && cl.NotNull && toI(v[i]) == 0):
							fail("default-not-applied/"+shape, fmt.Sprintf("after %s: row %d column c%d holds %v, no default declared", q, id, i, v[i]))
						}
					}
				}
			}
		}
	}
	colsCoq := lib.CoqListOf(cs.Cols, func(c Col) string { return c.coq() })
	chkCoq := lib.CoqListOf(cs.Checks, func(c Check) string { return c.coq() })
	term := fmt.Sprintf("Case %s %s %s", colsCoq, chkCoq, lib.CoqList(events))
	key := ""
	if len(cs.Checks) > 0 || len(cs.Cols) > 3 {
		key = fmt.Sprintf("%v|%v|%d", colsCoq, chkCoq, len(events))
		for _, st := range cs.H {
			key += st.sql()
		}
	}
	c.Count(fmt.Sprintf("checks/%d", len(cs.Checks)))
	ng := 0
	for _, cl := range cs.Cols {
		if cl.Gen != nil {
			ng++
		}
	}
	c.Count(fmt.Sprintf("generated-columns/%d", ng))
	for _, st := range cs.H {
		c.Count("stmt/" + st.shape(cs.Cols))
	}
	if nViol > 0 {
		c.Count("case-with-stored-violation")
	}
	id := c.Case(term, cs, key)
	c.PredChecked()
	seen := map[string]bool{}
	for _, f := range fails {
		if !seen[f.sig] {
			seen[f.sig] = true
			c.PredFail(id, f.sig, f.what, cs)
		}
	}
}

func iptr(z int64) *int64 { return &z }

func main() {
	lib.Main("C19", func(c *lib.Ctx) {
		c.Header = "From Coq Require Import List ZArith.\nImport ListNotations.\nFrom GMS Require Import Store.C19Check Corr.C19.\nOpen Scope N_scope."
		c.CaseType = "C19.case"
		c.MismatchFn = "C19.mismatches"
		c.SetRule("table t (c0 INT PRIMARY KEY, 2-3 INT columns with random NOT NULL / DEFAULT, 0-2 STORED generated columns col+k | col*k | col+col, " +
			"0-3 CHECKs col op lit | col op col | col+col op lit | col+k op lit); histories of 5-11 INSERT [IGNORE] (1-3 rows, column subsets, " +
			"values: ints, NULL, DEFAULT, decimal literals, integer strings, fractional strings) and UPDATE [IGNORE] (1-2 SET of literal or expression, " +
			"WHERE c0 = k or all rows). Non-trivial = at least one CHECK or generated column; distinct = distinct (schema, history).")
		if c.ReplayFile != "" {
			var cs caseT
			lib.LoadReplay(c.ReplayFile, &cs)
			run(c, cs)
			return
		}
		corpus := []caseT{
			// known finding: CHECK evaluated before the conversion: '9.6' passes c1 < 10 and is stored as 10
			{Cols: []Col{{NotNull: true}, {}}, Checks: []Check{{Op: "Lt", L: col(1), R: lit(10)}},
				H: []Stmt{{K: "insert", Cols: []int{0, 1}, Rows: [][]Raw{{{K: "int", Z: 1}, {K: "strf", Z: 96}}}},
					{K: "insert", Cols: []int{0, 1}, Rows: [][]Raw{{{K: "int", Z: 2}, {K: "dec", Z: 96}}}},
					{K: "insert", Cols: []int{0, 1}, Rows: [][]Raw{{{K: "int", Z: 3}, {K: "int", Z: 10}}}}}},
			// known finding: stored generated column computed from the unconverted value: '9.6' -> c1 = 10, c2 = 9*2
			{Cols: []Col{{NotNull: true}, {}, {Gen: mul(col(1), lit(2))}},
				H: []Stmt{{K: "insert", Cols: []int{0, 1}, Rows: [][]Raw{{{K: "int", Z: 1}, {K: "strf", Z: 96}}}}}},
			// known finding: UPDATE IGNORE sets NULL := 0 after the checks and after the generated columns
			{Cols: []Col{{NotNull: true}, {NotNull: true}, {Gen: add(col(1), lit(1))}}, Checks: []Check{{Op: "Gt", L: col(1), R: lit(5)}},
				H: []Stmt{{K: "insert", Cols: []int{0, 1}, Rows: [][]Raw{{{K: "int", Z: 1}, {K: "int", Z: 7}}}},
					{K: "update", Ignore: true, Sets: []Set{{I: 1, Raw: &Raw{K: "null"}}}, Where: iptr(1)}}},
			// known finding: INSERT IGNORE sets NULL := 0 after the generated column was computed from NULL
			{Cols: []Col{{NotNull: true}, {NotNull: true}, {HasDef: true, Def: 4}, {Gen: add(col(1), col(2))}},
				H: []Stmt{{K: "insert", Ignore: true, Cols: []int{0, 1}, Rows: [][]Raw{{{K: "int", Z: 1}, {K: "null"}}}}}},
			// defaults, NOT NULL errors, update recomputation
			{Cols: []Col{{NotNull: true}, {NotNull: true}, {HasDef: true, Def: 4}, {Gen: add(col(1), col(2))}}, Checks: []Check{{Op: "Lt", L: col(2), R: col(1)}},
				H: []Stmt{{K: "insert", Cols: []int{0, 1}, Rows: [][]Raw{{{K: "int", Z: 1}, {K: "int", Z: 7}}}},
					{K: "insert", Cols: []int{0, 2}, Rows: [][]Raw{{{K: "int", Z: 2}, {K: "int", Z: 1}}}},
					{K: "insert", Cols: []int{0, 1, 2}, Rows: [][]Raw{{{K: "int", Z: 3}, {K: "int", Z: 9}, {K: "null"}}, {{K: "int", Z: 4}, {K: "int", Z: 2}, {K: "def"}}}},
					{K: "update", Sets: []Set{{I: 2, Raw: &Raw{K: "int", Z: 2}}, {I: 1, T: add(col(2), lit(10))}}, Where: iptr(1)},
					{K: "update", Sets: []Set{{I: 1, T: add(col(1), lit(-8))}}}}},
		}
		corpus = append(corpus,
			// generated column over a generated column: c3 = c2 * 2 must follow c1 through UPDATE and ON DUPLICATE KEY UPDATE;
			// CHECK over a stored generated column: UPDATE c1 = 150 must be rejected
			caseT{Cols: []Col{{NotNull: true}, {}, {Gen: add(col(1), lit(1))}, {Gen: mul(col(2), lit(2))}}, Checks: []Check{{Op: "Lt", L: col(2), R: lit(100)}},
				H: []Stmt{{K: "insert", Cols: []int{0, 1}, Rows: [][]Raw{{{K: "int", Z: 1}, {K: "int", Z: 5}}, {{K: "int", Z: 2}, {K: "null"}}}},
					{K: "update", Sets: []Set{{I: 1, Raw: &Raw{K: "int", Z: 7}}}, Where: iptr(1)},
					{K: "update", Sets: []Set{{I: 1, Raw: &Raw{K: "int", Z: 150}}}, Where: iptr(1)},
					{K: "upsert", Cols: []int{0, 1}, Rows: [][]Raw{{{K: "int", Z: 1}, {K: "int", Z: 9}}}, Sets: []Set{{I: 1, Raw: &Raw{K: "int", Z: 20}}}},
					{K: "upsert", Cols: []int{0, 1}, Rows: [][]Raw{{{K: "int", Z: 1}, {K: "int", Z: 9}}}, Sets: []Set{{I: 1, Raw: &Raw{K: "int", Z: 150}}}},
					{K: "upsert", Cols: []int{0, 1}, Rows: [][]Raw{{{K: "int", Z: 3}, {K: "int", Z: 9}}}, Sets: []Set{{I: 1, Raw: &Raw{K: "int", Z: 1}}}},
					{K: "upsert", Cols: []int{0, 1}, Rows: [][]Raw{{{K: "int", Z: 2}, {K: "int", Z: 9}}}, Sets: []Set{{I: 1, T: add(col(1), lit(1))}}},
					{K: "update", Sets: []Set{{I: 1, T: add(col(1), lit(40))}}}}})
		for _, cs := range corpus {
			run(c, cs)
		}
		for i := len(corpus); i < c.N; i++ {
			run(c, gen(c.R.Fork()))
		}
	})
}
