// Driver for C19 (CHECK / NOT NULL / DEFAULT / generated columns): generated schemas over the integer column types
// (TINYINT..BIGINT, signed and UNSIGNED), literal and expression defaults, STORED and VIRTUAL generated columns, and
// histories of INSERT [IGNORE] / UPDATE [IGNORE] / INSERT .. ON DUPLICATE KEY UPDATE / REPLACE run on the real engine;
// every statement's outcome, warning count and the table contents afterwards are recorded for the Coq pipeline model
// (Store/C19Check.v).  Single DECIMAL(p,1) and VARCHAR(n) columns go to Store/C19Scalar.v.  The property predicate is
// evaluated on the implementation alone with SQL: no row makes a CHECK false, no NULL in a NOT NULL column, omitted
// columns hold their default (literal or expression over the stored row), generated columns equal their expression, a
// failing statement changes nothing.
package main

import (
	"fmt"
	"os"
	"strings"

	"github.com/cockroachdb/apd/v3"

	"verifharness/lib"
	"verifharness/lib/eng"
)

// ---- syntax ----

type Term struct {
	K string `json:"k"` // col lit add mul new (VALUES(c) in ON DUPLICATE KEY UPDATE)
	I int    `json:"i,omitempty"`
	Z int64  `json:"z,omitempty"`
	A *Term  `json:"a,omitempty"`
	B *Term  `json:"b,omitempty"`
}

func (t *Term) sql() string {
	switch t.K {
	case "col":
		return fmt.Sprintf("c%d", t.I)
	case "new":
		return fmt.Sprintf("VALUES(c%d)", t.I)
	case "lit":
		return fmt.Sprintf("%d", t.Z)
	case "add":
		return "(" + t.A.sql() + " + " + t.B.sql() + ")"
	}
	return "(" + t.A.sql() + " * " + t.B.sql() + ")"
}

func coqZ(z int64) string {
	if z < 0 {
		return fmt.Sprintf("(%d)", z)
	}
	return fmt.Sprintf("%d", z)
}

// n = number of table columns (VALUES(c) is column n + c of old ++ new)
func (t *Term) coq(n int) string {
	switch t.K {
	case "col":
		return fmt.Sprintf("(TCol %d)", t.I)
	case "new":
		return fmt.Sprintf("(TCol %d)", n+t.I)
	case "lit":
		return fmt.Sprintf("(TLit %s)", coqZ(t.Z))
	case "add":
		return "(TAdd " + t.A.coq(n) + " " + t.B.coq(n) + ")"
	}
	return "(TMul " + t.A.coq(n) + " " + t.B.coq(n) + ")"
}

type Check struct {
	Op string `json:"op"` // Lt Le Gt Ge Eq Ne
	L  *Term  `json:"l"`
	R  *Term  `json:"r"`
}

var opSQL = map[string]string{"Lt": "<", "Le": "<=", "Gt": ">", "Ge": ">=", "Eq": "=", "Ne": "<>"}

func (c Check) sql() string { return c.L.sql() + " " + opSQL[c.Op] + " " + c.R.sql() }
func (c Check) coq() string { return fmt.Sprintf("mkCheck %s %s %s", c.Op, c.L.coq(0), c.R.coq(0)) }

type tyT struct {
	sql    string
	lo, hi int64
	uns    bool
}

var types = map[string]tyT{
	"I8": {"TINYINT", -128, 127, false}, "I16": {"SMALLINT", -32768, 32767, false}, "I32": {"INT", -2147483648, 2147483647, false},
	"I64": {"BIGINT", -9223372036854775808, 9223372036854775807, false},
	"U8":  {"TINYINT UNSIGNED", 0, 255, true}, "U16": {"SMALLINT UNSIGNED", 0, 65535, true}, "U32": {"INT UNSIGNED", 0, 4294967295, true},
}

type Col struct {
	Ty      string `json:"ty"`
	NotNull bool   `json:"nn,omitempty"`
	HasDef  bool   `json:"hd,omitempty"`
	Def     int64  `json:"d,omitempty"`
	DefExpr *Term  `json:"de,omitempty"`
	Gen     *Term  `json:"g,omitempty"`
	Virt    bool   `json:"virt,omitempty"`
}

func (c Col) coq() string {
	g := "None"
	if c.Gen != nil {
		g = "(Some " + c.Gen.coq(0) + ")"
	}
	d := "DNone"
	if c.HasDef {
		d = "(DLit " + coqZ(c.Def) + ")"
	} else if c.DefExpr != nil {
		d = "(DExpr " + c.DefExpr.coq(0) + ")"
	}
	return fmt.Sprintf("mkCol %s %s %s %s %s", c.Ty, lib.CoqBool(c.NotNull), d, g, lib.CoqBool(c.Virt))
}

// Raw value: K in null int dec stri strf bad def; Z = integer, tenths, or the numeric prefix of a malformed string
type Raw struct {
	K string `json:"k"`
	Z int64  `json:"z,omitempty"`
}

func tenths(t int64) string {
	s := ""
	if t < 0 {
		s, t = "-", -t
	}
	return fmt.Sprintf("%s%d.%d", s, t/10, t%10)
}

func (r Raw) sql() string {
	switch r.K {
	case "null":
		return "NULL"
	case "int":
		return fmt.Sprintf("%d", r.Z)
	case "dec":
		return tenths(r.Z)
	case "stri":
		return fmt.Sprintf("'%d'", r.Z)
	case "strf":
		return "'" + tenths(r.Z) + "'"
	case "bad":
		if r.Z == 0 {
			return "'abc'"
		}
		return fmt.Sprintf("'%dabc'", r.Z)
	}
	return "DEFAULT"
}

func (r Raw) coq() string {
	switch r.K {
	case "null":
		return "RNull"
	case "int":
		return "RInt " + coqZ(r.Z)
	case "dec":
		return "RDec " + coqZ(r.Z)
	case "stri":
		return "RStrI " + coqZ(r.Z)
	case "strf":
		return "RStrF " + coqZ(r.Z)
	case "bad":
		return "RBad " + coqZ(r.Z)
	}
	return "RDef"
}

func (r Raw) isString() bool { return r.K == "stri" || r.K == "strf" || r.K == "bad" }

type Set struct {
	I   int   `json:"i"`
	Raw *Raw  `json:"raw,omitempty"`
	T   *Term `json:"t,omitempty"`
}

type Stmt struct {
	K      string  `json:"k"` // insert update upsert (INSERT .. ON DUPLICATE KEY UPDATE sets) replace
	Ignore bool    `json:"ign,omitempty"`
	Cols   []int   `json:"cols,omitempty"` // insert: the listed columns (others omitted)
	Rows   [][]Raw `json:"rows,omitempty"` // values for Cols
	Sets   []Set   `json:"sets,omitempty"`
	Where  *int64  `json:"where,omitempty"`
}

// scalar cases: one DECIMAL(p,1) or VARCHAR(n) column
type ScalarStmt struct {
	Upd    bool   `json:"upd,omitempty"`
	Ignore bool   `json:"ign,omitempty"`
	ID     int64  `json:"id"`
	H      int64  `json:"h,omitempty"` // decimal: hundredths
	S      string `json:"s,omitempty"`
}
type ScalarCheck struct {
	K   string `json:"k"` // cmp mulcmp | ne len
	Op  string `json:"op,omitempty"`
	M   int64  `json:"m,omitempty"`
	Lit int64  `json:"lit,omitempty"`
	S   string `json:"s,omitempty"`
}

// script cases: statements outside the model (triggers, foreign keys); counts[i] must not grow
type Script struct {
	Setup  []string `json:"setup"`
	Stmts  []string `json:"stmts"`
	Counts []string `json:"counts"`
	Sigs   []string `json:"sigs"`
}

type caseT struct {
	Kind    string        `json:"kind,omitempty"` // "" (integer pipeline) dec str script
	Cols    []Col         `json:"cols,omitempty"` // column 0 is the id
	Checks  []Check       `json:"checks,omitempty"`
	H       []Stmt        `json:"h,omitempty"`
	P       int           `json:"p,omitempty"` // DECIMAL(p,1) / VARCHAR(p)
	SChecks []ScalarCheck `json:"schecks,omitempty"`
	SH      []ScalarStmt  `json:"sh,omitempty"`
	Script  *Script       `json:"script,omitempty"`
}

func (s Stmt) sql() string {
	ign := ""
	if s.Ignore {
		ign = " IGNORE"
	}
	var cn, rows []string
	if s.K != "update" {
		for _, i := range s.Cols {
			cn = append(cn, fmt.Sprintf("c%d", i))
		}
		for _, r := range s.Rows {
			var vs []string
			for _, v := range r {
				vs = append(vs, v.sql())
			}
			rows = append(rows, "("+strings.Join(vs, ", ")+")")
		}
		if s.K == "insert" {
			return fmt.Sprintf("INSERT%s INTO t (%s) VALUES %s", ign, strings.Join(cn, ", "), strings.Join(rows, ", "))
		}
		if s.K == "replace" {
			return fmt.Sprintf("REPLACE INTO t (%s) VALUES %s", strings.Join(cn, ", "), strings.Join(rows, ", "))
		}
	}
	var sets []string
	for _, st := range s.Sets {
		rhs := ""
		if st.Raw != nil {
			rhs = st.Raw.sql()
		} else {
			rhs = st.T.sql()
		}
		sets = append(sets, fmt.Sprintf("c%d = %s", st.I, rhs))
	}
	if s.K == "upsert" {
		return fmt.Sprintf("INSERT%s INTO t (%s) VALUES %s ON DUPLICATE KEY UPDATE %s", ign, strings.Join(cn, ", "), strings.Join(rows, ", "), strings.Join(sets, ", "))
	}
	q := fmt.Sprintf("UPDATE%s t SET %s", ign, strings.Join(sets, ", "))
	if s.Where != nil {
		q += fmt.Sprintf(" WHERE c0 = %d", *s.Where)
	}
	return q
}

func (s Stmt) coq(ncols int) string {
	var rows []string
	if s.K != "update" {
		for _, r := range s.Rows {
			full := make([]string, ncols)
			for i := range full {
				full[i] = "RDef"
			}
			for j, i := range s.Cols {
				full[i] = r[j].coq()
			}
			rows = append(rows, lib.CoqList(full))
		}
		if s.K == "insert" {
			return fmt.Sprintf("Insert %s %s", lib.CoqBool(s.Ignore), lib.CoqList(rows))
		}
		if s.K == "replace" {
			return fmt.Sprintf("Replace %s", lib.CoqList(rows))
		}
	}
	var sets []string
	for _, st := range s.Sets {
		rhs := ""
		if st.Raw != nil {
			rhs = "URaw (" + st.Raw.coq() + ")"
		} else {
			rhs = "UTerm " + st.T.coq(ncols)
		}
		sets = append(sets, fmt.Sprintf("(%d%%nat, %s)", st.I, rhs))
	}
	if s.K == "upsert" {
		return fmt.Sprintf("Upsert %s %s %s", lib.CoqBool(s.Ignore), lib.CoqList(rows), lib.CoqList(sets))
	}
	wh := "None"
	if s.Where != nil {
		wh = "(V " + coqZ(*s.Where) + ")"
	}
	return fmt.Sprintf("Update %s %s %s", lib.CoqBool(s.Ignore), lib.CoqList(sets), wh)
}

func (s Stmt) hasString() bool {
	for _, r := range s.Rows {
		for _, v := range r {
			if v.isString() {
				return true
			}
		}
	}
	for _, st := range s.Sets {
		if st.Raw != nil && st.Raw.isString() {
			return true
		}
	}
	return false
}

// ---- generator ----

func col(i int) *Term      { return &Term{K: "col", I: i} }
func newv(i int) *Term     { return &Term{K: "new", I: i} }
func lit(z int64) *Term    { return &Term{K: "lit", Z: z} }
func add(a, b *Term) *Term { return &Term{K: "add", A: a, B: b} }
func mul(a, b *Term) *Term { return &Term{K: "mul", A: a, B: b} }

// a value outside the column type
func outOfRange(r *lib.RNG, ty string) int64 {
	t := types[ty]
	switch ty {
	case "I8":
		return lib.Pick(r, []int64{128, 200, 300, -129, -200})
	case "I16":
		return lib.Pick(r, []int64{32768, 40000, -32769, -40000})
	case "I32":
		return lib.Pick(r, []int64{2147483648, 5000000000, -2147483649})
	case "U8":
		return lib.Pick(r, []int64{256, 300, -1, -5, -300})
	case "U16":
		return lib.Pick(r, []int64{65536, 70000, -1, -7})
	case "U32":
		return lib.Pick(r, []int64{4294967296, 5000000000, -1, -5})
	}
	return t.hi
}

// Fractional and malformed strings are not written next to UNSIGNED columns: a CHECK over such a column compares as
// uint64, where the failed conversion is returned as an error ("Truncated incorrect ... value") instead of comparing as 0.
// The same holds for a comparison between columns of DIFFERENT integer types (both sides are first converted to a
// common type, truncating the string): such strings are only written when every base column is INT.
func genRaw(r *lib.RNG, ty string, wide bool) Raw {
	v := genRaw0(r, ty)
	if !wide && (v.K == "strf" || v.K == "bad") {
		return Raw{K: "int", Z: int64(r.Range(0, 15))}
	}
	// INT-only schemas keep INT generated columns (same-type comparisons): no value that could overflow them
	if wide && (v.K == "int" || v.K == "stri") && !fits("I8", v.Z) {
		return Raw{K: "int", Z: int64(r.Range(0, 15))}
	}
	// a decimal literal written into an UNSIGNED column is not rounded by the planner: it reaches the CHECKs as a decimal
	// (recorded as a finding through a script case); the model has no decimal cells
	if types[ty].uns && v.K == "dec" {
		return Raw{K: "int", Z: v.Z / 10}
	}
	return v
}

func genRaw0(r *lib.RNG, ty string) Raw {
	switch x := r.Intn(40); {
	case x < 16:
		return Raw{K: "int", Z: int64(r.Range(-3, 15))}
	case x < 20:
		return Raw{K: "null"}
	case x < 24:
		return Raw{K: "def"}
	case x < 28:
		return Raw{K: "stri", Z: int64(r.Range(-3, 15))}
	case x < 33:
		t := int64(r.Range(-3, 15))*10 + int64(r.Range(1, 9))
		if r.Chance(1, 5) {
			t = -t
		}
		return Raw{K: "strf", Z: t}
	case x < 36:
		t := int64(r.Range(0, 15))*10 + int64(r.Range(1, 9))
		return Raw{K: "dec", Z: t}
	case x < 37:
		return Raw{K: "bad", Z: lib.Pick(r, []int64{0, 0, 7, 12, 5})}
	default:
		if ty == "I64" {
			return Raw{K: "int", Z: int64(r.Range(-3, 15))}
		}
		if ty == "I32" && r.Chance(1, 2) {
			return Raw{K: "int", Z: int64(r.Range(-3, 15))}
		}
		k := "int"
		if r.Chance(1, 4) {
			k = "stri"
		}
		return Raw{K: k, Z: outOfRange(r, ty)}
	}
}

func gen(r *lib.RNG) caseT {
	var c caseT
	nb := r.Range(2, 3)
	c.Cols = append(c.Cols, Col{Ty: "I32", NotNull: true})
	wide := r.Chance(1, 2) // only INT columns (the fragment of the earlier version)
	genTy := "I64"
	if wide {
		genTy = "I32"
	}
	for i := 1; i <= nb; i++ {
		cl := Col{Ty: "I32", NotNull: r.Chance(1, 3)}
		if !wide {
			cl.Ty = lib.Pick(r, []string{"I8", "I8", "I16", "I32", "U8", "U8", "U16"})
		}
		switch x := r.Intn(6); {
		case x < 2:
			cl.HasDef, cl.Def = true, int64(r.Range(0, 9))
		case x == 2 && i >= 2:
			// an expression default over an earlier base column; BIGINT so that the value always fits
			cl.Ty = genTy
			// nullable: a NULL expression default of a NOT NULL column is an error that INSERT IGNORE does not ignore
			// and that leaves the earlier tuples of the statement inserted (not triaged here; corpus has the strict case)
			cl.NotNull = false
			j := r.Range(1, i-1)
			if r.Chance(1, 2) {
				cl.DefExpr = add(col(j), lit(int64(r.Range(1, 5))))
			} else {
				cl.DefExpr = mul(col(j), lit(2))
			}
		}
		c.Cols = append(c.Cols, cl)
	}
	base := func() int { return r.Range(1, nb) }
	// arithmetic and comparisons between two UNSIGNED operands are done in uint64 (a negative written value wraps):
	// an unsigned column is only combined with literals
	signed := func(j int) int {
		if !types[c.Cols[j].Ty].uns {
			return j
		}
		for k := 1; k < len(c.Cols); k++ {
			if !types[c.Cols[k].Ty].uns {
				return k
			}
		}
		return -1
	}
	virtual := r.Chance(1, 5)
	for i, ng := 0, r.Intn(3); i < ng; i++ {
		var e *Term
		switch r.Intn(3) {
		case 0:
			e = add(col(base()), lit(int64(r.Range(1, 5))))
		case 1:
			e = mul(col(base()), lit(int64(r.Range(2, 3))))
		default:
			if a, b := signed(base()), signed(base()); a > 0 && b > 0 {
				e = add(col(a), col(b))
			} else {
				e = add(col(base()), lit(7))
			}
		}
		if i > 0 && r.Chance(1, 2) {
			// a generated column over the previous generated column
			prev := col(len(c.Cols) - 1)
			if r.Chance(1, 2) {
				e = mul(prev, lit(2))
			} else {
				e = add(prev, col(base()))
			}
		}
		c.Cols = append(c.Cols, Col{Ty: genTy, Gen: e, Virt: virtual && r.Chance(2, 3)})
	}
	n := len(c.Cols)
	var gens []int
	for i, cl := range c.Cols {
		if cl.Gen != nil {
			gens = append(gens, i)
		}
	}
	anyc := func() int { return r.Range(1, n-1) }
	ops := []string{"Lt", "Le", "Gt", "Ge", "Ne", "Lt", "Le", "Ge", "Eq"}
	for i, nc := 0, r.Intn(4); i < nc; i++ {
		ck := Check{Op: lib.Pick(r, ops[:8])}
		switch r.Intn(6) {
		case 0, 1:
			ck.L, ck.R = col(anyc()), lit(int64(r.Range(0, 12)))
		case 2:
			if a, b := signed(anyc()), signed(anyc()); a > 0 && b > 0 {
				ck.L, ck.R = col(a), col(b)
			} else {
				ck.L, ck.R = col(anyc()), lit(int64(r.Range(0, 12)))
			}
		case 3:
			if a, b := signed(anyc()), signed(anyc()); a > 0 && b > 0 {
				ck.L, ck.R = add(col(a), col(b)), lit(int64(r.Range(5, 25)))
			} else {
				ck.L, ck.R = add(col(anyc()), lit(2)), lit(int64(r.Range(5, 25)))
			}
		case 4:
			ck.L, ck.R = add(col(anyc()), lit(int64(r.Range(1, 3)))), lit(int64(r.Range(3, 14)))
		default:
			// a literal at the bounds of the column type: what clamping produces
			j := base()
			t := types[c.Cols[j].Ty]
			ck.Op = lib.Pick(r, []string{"Ne", "Lt", "Lt", "Gt"})
			ck.L, ck.R = col(j), lit(lib.Pick(r, []int64{t.hi, t.lo, 100, 0, 200}))
			if t.uns {
				// a literal above 127 is not TINYINT-typed: the comparison with an UNSIGNED column is then done in uint64,
				// where a negative written value is huge (not modelled)
				ck.R = lit(lib.Pick(r, []int64{100, 0, 50}))
			}
			if ck.Op == "Gt" {
				ck.R.Z = lib.Pick(r, []int64{t.lo, -10})
			}
		}
		if (ck.Op == "Gt" || ck.Op == "Ge") && ck.R.K == "lit" && ck.R.Z > 0 {
			ck.R.Z -= 6
		}
		c.Checks = append(c.Checks, ck)
	}
	nextID := int64(1)
	existingID := func() int64 { return int64(r.Range(1, int(nextID))) }
	valueRow := func(s *Stmt, id int64, typed bool) []Raw {
		row := []Raw{{K: "int", Z: id}}
		for _, j := range s.Cols[1:] {
			if c.Cols[j].Gen != nil {
				row = append(row, Raw{K: "def"})
			} else if typed {
				row = append(row, Raw{K: "int", Z: int64(r.Range(-3, 15))})
			} else {
				v := genRaw(r, c.Cols[j].Ty, wide)
				if v.K == "def" && c.Cols[j].DefExpr != nil && c.Cols[j].NotNull {
					// an explicit DEFAULT of a NOT NULL expression default is evaluated for all tuples up front
					// (its NULL error precedes the errors of earlier rows); omitted columns are not
					v = Raw{K: "int", Z: int64(r.Range(-3, 15))}
				}
				row = append(row, v)
			}
		}
		return row
	}
	// sometimes list a generated column: DEFAULT in the first tuple, possibly an explicit value later
	// A listed column written as DEFAULT whose expression reads an UNLISTED column makes the engine fail with
	// "unable to find field with index -1" (outside C19): list every base column in that case.
	listGen := func(s *Stmt) {
		needAll := len(gens) > 0 && r.Chance(1, 6)
		for _, j := range s.Cols {
			if c.Cols[j].DefExpr != nil {
				needAll = needAll || true
			}
		}
		if needAll {
			s.Cols = []int{0}
			for j := 1; j <= nb; j++ {
				s.Cols = append(s.Cols, j)
			}
		}
		if len(gens) > 0 && needAll && r.Chance(1, 2) {
			for _, g := range gens[:r.Range(1, len(gens))] {
				s.Cols = append(s.Cols, g)
			}
		}
	}
	explicitGen := func(s *Stmt) {
		g := s.Cols[len(s.Cols)-1]
		if c.Cols[g].Gen == nil {
			return
		}
		for k := range s.Rows {
			if (k > 0 && r.Chance(1, 2)) || r.Chance(1, 12) {
				s.Rows[k][len(s.Cols)-1] = Raw{K: "int", Z: int64(r.Range(20, 40))}
			}
		}
	}
	for i, ns := 0, r.Range(5, 11); i < ns; i++ {
		switch x := r.Intn(20); {
		case nextID > 1 && x < 3:
			// INSERT [IGNORE] ... ON DUPLICATE KEY UPDATE, 1-2 rows, ids that usually exist
			s := Stmt{K: "upsert", Ignore: r.Chance(1, 4), Cols: []int{0}}
			for j := 1; j <= nb; j++ {
				s.Cols = append(s.Cols, j)
			}
			for k, nr := 0, r.Range(1, 2); k < nr; k++ {
				id := existingID()
				if id == nextID {
					nextID++
				}
				s.Rows = append(s.Rows, valueRow(&s, id, true))
			}
			for k, nk := 0, r.Range(1, 2); k < nk; k++ {
				st := Set{I: base()}
				switch r.Intn(5) {
				case 0:
					st.Raw = &Raw{K: "int", Z: int64(r.Range(-3, 15))}
					if r.Chance(1, 6) {
						st.Raw = &Raw{K: "null"}
					}
				case 1:
					st.T = add(col(base()), lit(int64(r.Range(1, 4))))
				case 2:
					st.T = mul(col(base()), lit(2))
				case 3:
					st.T = newv(base())
				default:
					st.T = add(newv(base()), lit(int64(r.Range(1, 4))))
				}
				s.Sets = append(s.Sets, st)
			}
			c.H = append(c.H, s)
		case nextID > 1 && x < 5:
			// REPLACE, 1-2 rows
			s := Stmt{K: "replace", Cols: []int{0}}
			for j := 1; j <= nb; j++ {
				if r.Chance(3, 4) {
					s.Cols = append(s.Cols, j)
				}
			}
			listGen(&s)
			for k, nr := 0, r.Range(1, 2); k < nr; k++ {
				id := existingID()
				if id == nextID {
					nextID++
				}
				s.Rows = append(s.Rows, valueRow(&s, id, r.Chance(1, 2)))
			}
			explicitGen(&s)
			c.H = append(c.H, s)
		case x < 15 || nextID == 1:
			s := Stmt{K: "insert", Ignore: r.Chance(1, 3), Cols: []int{0}}
			for j := 1; j <= nb; j++ {
				if r.Chance(3, 4) {
					s.Cols = append(s.Cols, j)
				}
			}
			listGen(&s)
			for k, nr := 0, r.Range(1, 3); k < nr; k++ {
				s.Rows = append(s.Rows, valueRow(&s, nextID, false))
				nextID++
			}
			explicitGen(&s)
			c.H = append(c.H, s)
		default:
			s := Stmt{K: "update", Ignore: r.Chance(1, 3)}
			for k, nk := 0, r.Range(1, 2); k < nk; k++ {
				st := Set{I: base()}
				if r.Chance(1, 2) {
					rw := genRaw(r, c.Cols[st.I].Ty, wide)
					if rw.K == "dec" {
						rw = Raw{K: "int", Z: rw.Z / 10}
					}
					st.Raw = &rw
				} else {
					switch r.Intn(4) {
					case 0:
						st.T = add(col(base()), lit(int64(r.Range(1, 4))))
					case 1:
						st.T = col(base())
					case 2:
						st.T = add(col(base()), lit(lib.Pick(r, []int64{100, 120, 250, -130, 40000})))
					default:
						st.T = mul(col(base()), lit(2))
					}
				}
				s.Sets = append(s.Sets, st)
			}
			if r.Chance(2, 3) {
				w := int64(r.Range(1, int(nextID)))
				s.Where = &w
			}
			c.H = append(c.H, s)
		}
	}
	return c
}

// ---- running ----

func cellCoq(v interface{}) string {
	if v == nil {
		return "None"
	}
	return "(V " + coqZ(toI(v)) + ")"
}

func toI(v interface{}) int64 {
	switch x := v.(type) {
	case int32:
		return int64(x)
	case int64:
		return x
	case int8:
		return int64(x)
	case int16:
		return int64(x)
	case int:
		return int64(x)
	case uint8:
		return int64(x)
	case uint16:
		return int64(x)
	case uint32:
		return int64(x)
	case uint64:
		return int64(x)
	}
	panic(fmt.Sprintf("unexpected value %T", v))
}

func errKind(err error) string {
	if err == nil {
		return ""
	}
	m := err.Error()
	switch {
	case strings.Contains(m, "Check constraint"):
		return "ECheck"
	case strings.Contains(m, "default value attempted to return null"):
		return "EDefNull"
	case strings.Contains(m, "The value specified for generated column"):
		return "EGenValue"
	case eng.ErrKind(err) == "not-null", strings.Contains(m, "doesn't have a default value"):
		return "ENotNull"
	case strings.Contains(m, "is not a valid value"), strings.Contains(m, "invalid type"):
		return "EInvalid"
	case strings.Contains(m, "out of range"), strings.Contains(m, "Out of range"):
		return "ERange"
	case strings.Contains(m, "too large for column"):
		return "ETooLong"
	}
	return "other"
}

func fits(ty string, z int64) bool { t := types[ty]; return t.lo <= z && z <= t.hi }

// the root cause class of a statement, computed from its shape
func (s Stmt) shape(cols []Col) string { return s.shapeFor(cols, "") }

// base = the violated clause: only the causes that can produce it are considered
// (a malformed string with an in-range prefix is stored as that prefix, which is also what arithmetic sees: it can only
// break a CHECK; INSERT IGNORE replaces NULL by 0 BEFORE the checks run: it cannot break a CHECK)
func (s Stmt) shapeFor(cols []Col, base string) string {
	if s.K == "update" {
		if s.Ignore {
			for _, st := range s.Sets {
				if cols[st.I].NotNull && (st.T != nil || st.Raw.K == "null" || (st.Raw.K == "def" && !cols[st.I].HasDef)) {
					return "update-ignore-null"
				}
			}
		}
		return "update-other"
	}
	// the INSERT pipeline: insert / replace / the insert half of upsert
	for k, r := range s.Rows {
		for j, v := range r {
			if k > 0 && cols[s.Cols[j]].Gen != nil && v.K != "def" && (base == "" || base == "generated-differs") {
				return "insert-explicit-generated-value"
			}
		}
	}
	for _, r := range s.Rows {
		for _, v := range r {
			if v.K == "strf" {
				return "insert-fractional-string"
			}
		}
	}
	if s.Ignore {
		for _, r := range s.Rows {
			for j, v := range r {
				if (v.K == "int" || v.K == "stri") && !fits(cols[s.Cols[j]].Ty, v.Z) {
					return "insert-ignore-out-of-range"
				}
			}
		}
		for _, r := range s.Rows {
			for _, v := range r {
				if v.K == "bad" && (base == "" || base == "check-false-stored") {
					return "insert-ignore-malformed-string"
				}
			}
		}
		if base == "check-false-stored" {
			return s.K + "-other"
		}
		listed := map[int]bool{}
		for _, i := range s.Cols {
			listed[i] = true
		}
		for i, c := range cols {
			if c.NotNull && c.Gen == nil && !listed[i] && !c.HasDef {
				return "insert-ignore-null"
			}
		}
		for _, r := range s.Rows {
			for j, v := range r {
				c := cols[s.Cols[j]]
				if c.NotNull && (v.K == "null" || (v.K == "def" && !c.HasDef)) {
					return "insert-ignore-null"
				}
			}
		}
	}
	return s.K + "-other"
}

func count(s *eng.S, q string) int64 {
	r := s.Query(q)
	if r.Err != nil || len(r.Rows) != 1 {
		panic(fmt.Sprintf("predicate query failed: %s: %v", q, r.Err))
	}
	return toI(r.Rows[0][0])
}

type failT struct{ sig, what string }

func report(c *lib.Ctx, id int, fails []failT, cs caseT) {
	c.PredChecked()
	seen := map[string]bool{}
	for _, f := range fails {
		if !seen[f.sig] {
			seen[f.sig] = true
			c.PredFail(id, f.sig, f.what, cs)
		}
	}
}

func run(c *lib.Ctx, cs caseT) {
	switch cs.Kind {
	case "dec":
		runDec(c, cs)
		return
	case "str":
		runStr(c, cs)
		return
	case "script":
		runScript(c, cs)
		return
	}
	e := eng.New("db")
	s := e.Session()
	var defs []string
	hasVirtual := false
	for i, cl := range cs.Cols {
		d := fmt.Sprintf("c%d %s", i, types[cl.Ty].sql)
		switch {
		case i == 0:
			d += " PRIMARY KEY"
		case cl.Gen != nil:
			d += " GENERATED ALWAYS AS (" + cl.Gen.sql() + ")"
			if cl.Virt {
				d += " VIRTUAL"
				hasVirtual = true
			} else {
				d += " STORED"
			}
		default:
			if cl.NotNull {
				d += " NOT NULL"
			}
			if cl.HasDef {
				d += fmt.Sprintf(" DEFAULT %d", cl.Def)
			} else if cl.DefExpr != nil {
				d += " DEFAULT (" + cl.DefExpr.sql() + ")"
			}
		}
		defs = append(defs, d)
	}
	for _, ck := range cs.Checks {
		defs = append(defs, "CHECK ("+ck.sql()+")")
	}
	s.MustExec("CREATE TABLE t (" + strings.Join(defs, ", ") + ")")
	if os.Getenv("C19_DEBUG") != "" {
		fmt.Println("CREATE TABLE t (" + strings.Join(defs, ", ") + ")")
	}

	var fails []failT
	fail := func(sig, what string) { fails = append(fails, failT{sig, what}) }

	readTable := func() ([]string, [][]interface{}) {
		r := s.Query("SELECT * FROM t ORDER BY c0")
		if r.Err != nil {
			panic(r.Err)
		}
		var rows []string
		var vals [][]interface{}
		for _, row := range r.Rows {
			rows = append(rows, lib.CoqListOf([]interface{}(row), cellCoq))
			vals = append(vals, row)
		}
		return rows, vals
	}
	prevBad := map[string]int64{}
	prevTab, _ := readTable()
	var events []string
	nViol := 0
	for si, st := range cs.H {
		q := st.sql()
		r := s.Query(q)
		nWarn := len(s.Ctx.Session.Warnings())
		kind := errKind(r.Err)
		if os.Getenv("C19_DEBUG") != "" {
			fmt.Printf("%s\n   => err=%v warnings=%d\n", q, r.Err, nWarn)
		}
		if r.Panic != "" {
			fail("panic", q+" panicked: "+r.Panic)
		} else if kind == "other" || kind == "ETooLong" {
			fail("unexpected-error/"+st.K, fmt.Sprintf("%s failed: %v", q, r.Err))
			kind = "EInvalid"
		}
		tab, vals := readTable()
		res := "ROk"
		if kind != "" {
			res = "(RErr " + kind + ")"
			if strings.Join(tab, ";") != strings.Join(prevTab, ";") {
				fail("failed-statement-changed-table/"+st.K, fmt.Sprintf("statement %d %s failed (%v) but the table changed", si, q, r.Err))
			}
		}
		// warning counts: statements without strings (a string adds truncation warnings at every evaluation site)
		warn := "None"
		if kind == "" && !st.hasString() && (st.K == "insert" || st.K == "update") {
			warn = fmt.Sprintf("(Some %d%%N)", nWarn)
			c.Count("warnings-compared")
		}
		events = append(events, fmt.Sprintf("Ev (%s) %s %s %s", st.coq(len(cs.Cols)), res, warn, lib.CoqList(tab)))
		prevTab = tab
		shape := st.shape(cs.Cols)
		// the property, by SQL on the implementation
		pred := func(base, key, cq, descr string) {
			n := count(s, cq)
			if n > prevBad[key] {
				nViol++
				sh := st.shapeFor(cs.Cols, base)
				if base == "check-false-stored" && hasVirtual {
					sh = "virtual-column-table" // no CHECK is loaded for such a table, whatever the statement
				}
				fail(base+"/"+sh, fmt.Sprintf("after statement %d %s: %d row(s) %s [%s]", si, q, n, descr, cq))
			}
			prevBad[key] = n
		}
		for ci, ck := range cs.Checks {
			pred("check-false-stored", fmt.Sprintf("chk%d", ci), "SELECT COUNT(*) FROM t WHERE NOT ("+ck.sql()+")", "make CHECK ("+ck.sql()+") false")
		}
		for i, cl := range cs.Cols {
			if cl.NotNull {
				pred("null-in-not-null", fmt.Sprintf("nn%d", i), fmt.Sprintf("SELECT COUNT(*) FROM t WHERE c%d IS NULL", i), fmt.Sprintf("hold NULL in NOT NULL column c%d", i))
			}
			if cl.Gen != nil {
				pred("generated-differs", fmt.Sprintf("gen%d", i), fmt.Sprintf("SELECT COUNT(*) FROM t WHERE NOT (c%d <=> %s)", i, cl.Gen.sql()), fmt.Sprintf("have generated column c%d <> %s", i, cl.Gen.sql()))
			}
		}
		if (st.K == "insert" || st.K == "replace") && kind == "" {
			listed := map[int]int{}
			for j, i := range st.Cols {
				listed[i] = j + 1
			}
			for ri, row := range st.Rows {
				id := row[0].Z
				last := true // REPLACE may name the same id twice: the last tuple is the one stored
				for _, later := range st.Rows[ri+1:] {
					if later[0].Z == id {
						last = false
					}
				}
				if !last {
					continue
				}
				for _, v := range vals {
					if toI(v[0]) != id {
						continue
					}
					for i, cl := range cs.Cols {
						if cl.Gen != nil || i == 0 {
							continue
						}
						j := listed[i]
						if j != 0 && row[j-1].K != "def" {
							continue
						}
						switch {
						case cl.DefExpr != nil:
							cq := fmt.Sprintf("SELECT COUNT(*) FROM t WHERE c0 = %d AND NOT (c%d <=> %s)", id, i, cl.DefExpr.sql())
							if count(s, cq) > 0 {
								fail("default-not-applied/"+st.shapeFor(cs.Cols, "default-not-applied"), fmt.Sprintf("after %s: row %d column c%d holds %v, not its default %s over the stored row [%s]", q, id, i, v[i], cl.DefExpr.sql(), cq))
							}
						case cl.HasDef && (v[i] == nil || toI(v[i]) != cl.Def):
							fail("default-not-applied/"+shape, fmt.Sprintf("after %s: row %d column c%d holds %v, declared default %d", q, id, i, v[i], cl.Def))
						case !cl.HasDef && v[i] != nil && !(st.Ignore && cl.NotNull && toI(v[i]) == 0):
							fail("default-not-applied/"+shape, fmt.Sprintf("after %s: row %d column c%d holds %v, no default declared", q, id, i, v[i]))
						}
					}
				}
			}
		}
	}
	colsCoq := lib.CoqListOf(cs.Cols, func(c Col) string { return c.coq() })
	chkCoq := lib.CoqListOf(cs.Checks, func(c Check) string { return c.coq() })
	term := fmt.Sprintf("Case %s %s %s", colsCoq, chkCoq, lib.CoqList(events))
	key := ""
	if len(cs.Checks) > 0 || len(cs.Cols) > 3 {
		key = fmt.Sprintf("%v|%v|%d", colsCoq, chkCoq, len(events))
		for _, st := range cs.H {
			key += st.sql()
		}
	}
	c.Count(fmt.Sprintf("checks/%d", len(cs.Checks)))
	ng := 0
	for _, cl := range cs.Cols {
		if cl.Gen != nil {
			ng++
		}
		if cl.DefExpr != nil {
			c.Count("expression-default-columns")
		}
		if cl.Ty != "I32" && cl.Ty != "I64" {
			c.Count("narrow-or-unsigned-columns")
		}
	}
	if hasVirtual {
		c.Count("schemas-with-virtual-column")
	}
	c.Count(fmt.Sprintf("generated-columns/%d", ng))
	for _, st := range cs.H {
		c.Count("stmt/" + st.shape(cs.Cols))
	}
	if nViol > 0 {
		c.Count("case-with-stored-violation")
	}
	id := c.Case(term, cs, key)
	report(c, id, fails, cs)
}

// ---- one DECIMAL(p,1) column ----

var dops = map[string]string{"Lt": "DLt", "Le": "DLe", "Gt": "DGt", "Ge": "DGe", "Eq": "DEq", "Ne": "DNe"}

func hundredths(h int64) string {
	s := ""
	if h < 0 {
		s, h = "-", -h
	}
	return fmt.Sprintf("%s%d.%02d", s, h/100, h%100)
}

func (k ScalarCheck) sql() string {
	switch k.K {
	case "cmp":
		return fmt.Sprintf("d %s %d", opSQL[k.Op], k.Lit)
	case "mulcmp":
		return fmt.Sprintf("d * %d %s %d", k.M, opSQL[k.Op], k.Lit)
	case "ne":
		return fmt.Sprintf("s <> '%s'", k.S)
	}
	return fmt.Sprintf("CHAR_LENGTH(s) %s %d", opSQL[k.Op], k.Lit)
}

func (k ScalarCheck) coq() string {
	switch k.K {
	case "cmp":
		return fmt.Sprintf("DCmp %s %s", dops[k.Op], coqZ(k.Lit))
	case "mulcmp":
		return fmt.Sprintf("DMulCmp %s %s %s", coqZ(k.M), dops[k.Op], coqZ(k.Lit))
	case "ne":
		return fmt.Sprintf("SNe \"%s\"%%string", k.S)
	}
	return fmt.Sprintf("SLen %s %s", dops[k.Op], coqZ(k.Lit))
}

func pow10(p int) int64 {
	x := int64(1)
	for i := 0; i < p; i++ {
		x *= 10
	}
	return x
}

func roundHalfAway(h int64) int64 {
	if h >= 0 {
		return (h + 5) / 10
	}
	return -((-h + 5) / 10)
}

func decTenths(v interface{}) (int64, bool) {
	var d apd.Decimal
	switch x := v.(type) {
	case *apd.Decimal:
		d = *x
	case apd.Decimal:
		d = x
	default:
		return 0, false
	}
	var t apd.Decimal
	apd.BaseContext.WithPrecision(40).Mul(&t, &d, apd.New(10, 0))
	i, err := t.Int64()
	return i, err == nil
}

func runDec(c *lib.Ctx, cs caseT) {
	e := eng.New("db")
	s := e.Session()
	defs := []string{"c0 INT PRIMARY KEY", fmt.Sprintf("d DECIMAL(%d,1)", cs.P)}
	for _, k := range cs.SChecks {
		defs = append(defs, "CHECK ("+k.sql()+")")
	}
	s.MustExec("CREATE TABLE t (" + strings.Join(defs, ", ") + ")")
	var fails []failT
	prevBad := map[int]int64{}
	var evs []string
	for si, st := range cs.SH {
		ign := ""
		if st.Ignore {
			ign = " IGNORE"
		}
		var q string
		old, oldOK := int64(0), false
		if st.Upd {
			r0 := s.Query(fmt.Sprintf("SELECT d FROM t WHERE c0 = %d", st.ID))
			if len(r0.Rows) == 1 && r0.Rows[0][0] != nil {
				old, oldOK = decTenths(r0.Rows[0][0])
			}
			if !oldOK {
				continue
			}
			q = fmt.Sprintf("UPDATE%s t SET d = %s WHERE c0 = %d", ign, hundredths(st.H), st.ID)
		} else {
			q = fmt.Sprintf("INSERT%s INTO t VALUES (%d, %s)", ign, st.ID, hundredths(st.H))
		}
		r := s.Query(q)
		nWarn := len(s.Ctx.Session.Warnings())
		kind := errKind(r.Err)
		r1 := s.Query(fmt.Sprintf("SELECT d FROM t WHERE c0 = %d", st.ID))
		var res string
		switch {
		case r.Panic != "":
			fails = append(fails, failT{"panic", q + " panicked: " + r.Panic})
			continue
		case kind == "ECheck":
			res = "DErr DkCheck"
		case kind == "ERange":
			res = "DErr DkRange"
		case kind != "":
			fails = append(fails, failT{"unexpected-error/decimal", fmt.Sprintf("%s failed: %v", q, r.Err)})
			continue
		default:
			now, ok := int64(0), false
			if len(r1.Rows) == 1 && r1.Rows[0][0] != nil {
				now, ok = decTenths(r1.Rows[0][0])
			}
			switch {
			case !st.Upd && ok:
				res = fmt.Sprintf("DStored %s %d%%N", coqZ(now), nWarn)
			case st.Upd && ok && now != old:
				res = fmt.Sprintf("DStored %s %d%%N", coqZ(now), nWarn)
			default:
				res = fmt.Sprintf("DSkipped %d%%N", nWarn)
			}
		}
		if st.Upd {
			evs = append(evs, fmt.Sprintf("(DUpd %s %s %s, %s)", lib.CoqBool(st.Ignore), coqZ(old), coqZ(st.H), res))
		} else {
			evs = append(evs, fmt.Sprintf("(DIns %s %s, %s)", lib.CoqBool(st.Ignore), coqZ(st.H), res))
		}
		v := roundHalfAway(st.H)
		shape := "decimal-other"
		switch {
		case st.Upd:
			shape = "update-decimal"
		case st.Ignore && (v >= pow10(cs.P) || -v >= pow10(cs.P)):
			shape = "insert-ignore-out-of-range"
		case st.H%10 != 0:
			shape = "insert-decimal-rounding"
		}
		c.Count("stmt/" + shape)
		for ci, k := range cs.SChecks {
			cq := "SELECT COUNT(*) FROM t WHERE NOT (" + k.sql() + ")"
			n := count(s, cq)
			if n > prevBad[ci] {
				fails = append(fails, failT{"check-false-stored/" + shape, fmt.Sprintf("after statement %d %s: %d row(s) make CHECK (%s) false [%s]", si, q, n, k.sql(), cq)})
			}
			prevBad[ci] = n
		}
	}
	term := fmt.Sprintf("CaseD %d %s %s", cs.P, lib.CoqListOf(cs.SChecks, func(k ScalarCheck) string { return k.coq() }), lib.CoqList(evs))
	c.Count("decimal-cases")
	id := c.Case(term, cs, fmt.Sprintf("dec|%v|%v", cs.SChecks, cs.SH))
	report(c, id, fails, cs)
}

func genDec(r *lib.RNG) caseT {
	cs := caseT{Kind: "dec", P: r.Range(2, 3)}
	for i, n := 0, r.Range(1, 2); i < n; i++ {
		op := lib.Pick(r, []string{"Lt", "Le", "Gt", "Ge", "Ne", "Lt", "Ne"})
		if r.Chance(1, 2) {
			cs.SChecks = append(cs.SChecks, ScalarCheck{K: "cmp", Op: op, Lit: int64(lib.Pick(r, []int{0, 5, 10, 3, 7}))})
		} else {
			cs.SChecks = append(cs.SChecks, ScalarCheck{K: "mulcmp", Op: op, M: int64(r.Range(2, 3)), Lit: int64(lib.Pick(r, []int{0, 10, 20, 15, 30}))})
		}
	}
	next := int64(1)
	for i, n := 0, r.Range(5, 9); i < n; i++ {
		h := int64(r.Range(-200, 1300))
		if r.Chance(1, 3) {
			h = int64(lib.Pick(r, []int{495, 496, 504, 995, 996, 994, 1496, 5, -4, 4, 0})) // near the CHECK literals
		}
		if r.Chance(1, 8) {
			h = lib.Pick(r, []int64{100050, -100050, 99996, 9996, -9996, 1000000})
		}
		if next > 1 && r.Chance(1, 3) {
			cs.SH = append(cs.SH, ScalarStmt{Upd: true, Ignore: r.Chance(1, 2), ID: int64(r.Range(1, int(next-1))), H: h})
		} else {
			cs.SH = append(cs.SH, ScalarStmt{Ignore: r.Chance(1, 2), ID: next, H: h})
			next++
		}
	}
	return cs
}

// ---- one VARCHAR(n) column with g INT AS (CHAR_LENGTH(s)) STORED ----

func runStr(c *lib.Ctx, cs caseT) {
	e := eng.New("db")
	s := e.Session()
	defs := []string{"c0 INT PRIMARY KEY", fmt.Sprintf("s VARCHAR(%d)", cs.P), "g INT GENERATED ALWAYS AS (CHAR_LENGTH(s)) STORED"}
	for _, k := range cs.SChecks {
		defs = append(defs, "CHECK ("+k.sql()+")")
	}
	s.MustExec("CREATE TABLE t (" + strings.Join(defs, ", ") + ")")
	var fails []failT
	prevBad := map[int]int64{}
	var evs []string
	for si, st := range cs.SH {
		ign := ""
		if st.Ignore {
			ign = " IGNORE"
		}
		var q string
		old := ""
		if st.Upd {
			r0 := s.Query(fmt.Sprintf("SELECT s FROM t WHERE c0 = %d", st.ID))
			if len(r0.Rows) != 1 || r0.Rows[0][0] == nil {
				continue
			}
			old = r0.Rows[0][0].(string)
			q = fmt.Sprintf("UPDATE%s t SET s = '%s' WHERE c0 = %d", ign, st.S, st.ID)
		} else {
			q = fmt.Sprintf("INSERT%s INTO t (c0, s) VALUES (%d, '%s')", ign, st.ID, st.S)
		}
		r := s.Query(q)
		nWarn := len(s.Ctx.Session.Warnings())
		kind := errKind(r.Err)
		r1 := s.Query(fmt.Sprintf("SELECT s, g FROM t WHERE c0 = %d", st.ID))
		var res string
		switch {
		case r.Panic != "":
			fails = append(fails, failT{"panic", q + " panicked: " + r.Panic})
			continue
		case kind == "ECheck":
			res = "SErr SkCheck"
		case kind == "ETooLong":
			res = "SErr SkTooLong"
		case kind != "":
			fails = append(fails, failT{"unexpected-error/varchar", fmt.Sprintf("%s failed: %v", q, r.Err)})
			continue
		default:
			if len(r1.Rows) == 1 && r1.Rows[0][0] != nil && (!st.Upd || r1.Rows[0][0].(string) != old) {
				res = fmt.Sprintf("SStored \"%s\"%%string %s %d%%N", r1.Rows[0][0].(string), coqZ(toI(r1.Rows[0][1])), nWarn)
			} else {
				res = fmt.Sprintf("SSkipped %d%%N", nWarn)
			}
		}
		if st.Upd {
			evs = append(evs, fmt.Sprintf("(SUpd %s \"%s\"%%string \"%s\"%%string, %s)", lib.CoqBool(st.Ignore), old, st.S, res))
		} else {
			evs = append(evs, fmt.Sprintf("(SIns %s \"%s\"%%string, %s)", lib.CoqBool(st.Ignore), st.S, res))
		}
		shape := "varchar-other"
		switch {
		case st.Upd:
			shape = "update-varchar"
		case st.Ignore && len(st.S) > cs.P:
			shape = "insert-ignore-truncate"
		}
		c.Count("stmt/" + shape)
		for ci, k := range cs.SChecks {
			cq := "SELECT COUNT(*) FROM t WHERE NOT (" + k.sql() + ")"
			n := count(s, cq)
			if n > prevBad[ci] {
				fails = append(fails, failT{"check-false-stored/" + shape, fmt.Sprintf("after statement %d %s: %d row(s) make CHECK (%s) false [%s]", si, q, n, k.sql(), cq)})
			}
			prevBad[ci] = n
		}
		cq := "SELECT COUNT(*) FROM t WHERE NOT (g <=> CHAR_LENGTH(s))"
		n := count(s, cq)
		if n > prevBad[-1] {
			fails = append(fails, failT{"generated-differs/" + shape, fmt.Sprintf("after statement %d %s: %d row(s) have generated column g <> CHAR_LENGTH(s) [%s]", si, q, n, cq)})
		}
		prevBad[-1] = n
	}
	term := fmt.Sprintf("CaseS %d%%nat %s %s", cs.P, lib.CoqListOf(cs.SChecks, func(k ScalarCheck) string { return k.coq() }), lib.CoqList(evs))
	c.Count("varchar-cases")
	id := c.Case(term, cs, fmt.Sprintf("str|%v|%v", cs.SChecks, cs.SH))
	report(c, id, fails, cs)
}

func genStr(r *lib.RNG) caseT {
	cs := caseT{Kind: "str", P: r.Range(2, 4)}
	word := func(n int) string {
		b := make([]byte, n)
		for i := range b {
			b[i] = "abc"[r.Intn(3)]
		}
		return string(b)
	}
	for i, n := 0, r.Range(1, 2); i < n; i++ {
		if r.Chance(1, 2) {
			cs.SChecks = append(cs.SChecks, ScalarCheck{K: "ne", S: word(r.Range(cs.P-1, cs.P))})
		} else {
			cs.SChecks = append(cs.SChecks, ScalarCheck{K: "len", Op: lib.Pick(r, []string{"Ne", "Lt", "Gt", "Le"}), Lit: int64(r.Range(1, cs.P))})
		}
	}
	next := int64(1)
	for i, n := 0, r.Range(5, 9); i < n; i++ {
		w := word(r.Range(0, cs.P+2))
		if cs.SChecks[0].K == "ne" && r.Chance(1, 3) {
			w = cs.SChecks[0].S + word(r.Range(0, 2))
		}
		if next > 1 && r.Chance(1, 3) {
			cs.SH = append(cs.SH, ScalarStmt{Upd: true, Ignore: r.Chance(1, 2), ID: int64(r.Range(1, int(next-1))), S: w})
		} else {
			cs.SH = append(cs.SH, ScalarStmt{Ignore: r.Chance(1, 2), ID: next, S: w})
			next++
		}
	}
	return cs
}

// ---- scripts outside the model: BEFORE triggers, foreign key actions ----

func runScript(c *lib.Ctx, cs caseT) {
	e := eng.New("db")
	s := e.Session()
	var fails []failT
	for _, q := range cs.Script.Setup {
		if r := s.Query(q); r.Err != nil {
			panic(fmt.Sprintf("setup statement failed: %s: %v", q, r.Err))
		}
	}
	prev := make([]int64, len(cs.Script.Counts))
	for si, q := range cs.Script.Stmts {
		r := s.Query(q)
		if r.Panic != "" {
			fails = append(fails, failT{"panic", q + " panicked: " + r.Panic})
		}
		for i, cq := range cs.Script.Counts {
			n := count(s, cq)
			if n > prev[i] {
				fails = append(fails, failT{cs.Script.Sigs[i], fmt.Sprintf("after statement %d %s (err=%v): %d row(s) [%s]", si, q, r.Err, n, cq)})
			}
			prev[i] = n
		}
	}
	c.Count("script-cases")
	id := c.CaseNoModel(cs, "script|"+strings.Join(cs.Script.Stmts, ";"))
	report(c, id, fails, cs)
}

func iptr(z int64) *int64 { return &z }
func ri(z int64) Raw      { return Raw{K: "int", Z: z} }

func corpus() []caseT {
	i32 := func(c Col) Col { c.Ty = "I32"; return c }
	id := Col{Ty: "I32", NotNull: true}
	cs := []caseT{
		// known finding: CHECK evaluated before the conversion: '9.6' passes c1 < 10 and is stored as 10
		{Cols: []Col{id, i32(Col{})}, Checks: []Check{{Op: "Lt", L: col(1), R: lit(10)}},
			H: []Stmt{{K: "insert", Cols: []int{0, 1}, Rows: [][]Raw{{ri(1), {K: "strf", Z: 96}}}},
				{K: "insert", Cols: []int{0, 1}, Rows: [][]Raw{{ri(2), {K: "dec", Z: 96}}}},
				{K: "insert", Cols: []int{0, 1}, Rows: [][]Raw{{ri(3), ri(10)}}}}},
		// known finding: stored generated column computed from the unconverted value: '9.6' -> c1 = 10, c2 = 9*2
		{Cols: []Col{id, i32(Col{}), i32(Col{Gen: mul(col(1), lit(2))})},
			H: []Stmt{{K: "insert", Cols: []int{0, 1}, Rows: [][]Raw{{ri(1), {K: "strf", Z: 96}}}}}},
		// known finding: UPDATE IGNORE sets NULL := 0 after the checks and after the generated columns
		{Cols: []Col{id, i32(Col{NotNull: true}), i32(Col{Gen: add(col(1), lit(1))})}, Checks: []Check{{Op: "Gt", L: col(1), R: lit(5)}},
			H: []Stmt{{K: "insert", Cols: []int{0, 1}, Rows: [][]Raw{{ri(1), ri(7)}}},
				{K: "update", Ignore: true, Sets: []Set{{I: 1, Raw: &Raw{K: "null"}}}, Where: iptr(1)}}},
		// known finding: INSERT IGNORE sets NULL := 0 after the generated column was computed from NULL
		{Cols: []Col{id, i32(Col{NotNull: true}), i32(Col{HasDef: true, Def: 4}), i32(Col{Gen: add(col(1), col(2))})},
			H: []Stmt{{K: "insert", Ignore: true, Cols: []int{0, 1}, Rows: [][]Raw{{ri(1), {K: "null"}}}}}},
		// defaults, NOT NULL errors, update recomputation
		{Cols: []Col{id, i32(Col{NotNull: true}), i32(Col{HasDef: true, Def: 4}), i32(Col{Gen: add(col(1), col(2))})}, Checks: []Check{{Op: "Lt", L: col(2), R: col(1)}},
			H: []Stmt{{K: "insert", Cols: []int{0, 1}, Rows: [][]Raw{{ri(1), ri(7)}}},
				{K: "insert", Cols: []int{0, 2}, Rows: [][]Raw{{ri(2), ri(1)}}},
				{K: "insert", Cols: []int{0, 1, 2}, Rows: [][]Raw{{ri(3), ri(9), {K: "null"}}, {ri(4), ri(2), {K: "def"}}}},
				{K: "update", Sets: []Set{{I: 2, Raw: &Raw{K: "int", Z: 2}}, {I: 1, T: add(col(2), lit(10))}}, Where: iptr(1)},
				{K: "update", Sets: []Set{{I: 1, T: add(col(1), lit(-8))}}}}},
		// generated column over a generated column through UPDATE and ON DUPLICATE KEY UPDATE (VALUES(), two rows), REPLACE
		{Cols: []Col{id, i32(Col{}), i32(Col{Gen: add(col(1), lit(1))}), i32(Col{Gen: mul(col(2), lit(2))})}, Checks: []Check{{Op: "Lt", L: col(2), R: lit(100)}},
			H: []Stmt{{K: "insert", Cols: []int{0, 1}, Rows: [][]Raw{{ri(1), ri(5)}, {ri(2), {K: "null"}}}},
				{K: "update", Sets: []Set{{I: 1, Raw: &Raw{K: "int", Z: 7}}}, Where: iptr(1)},
				{K: "update", Sets: []Set{{I: 1, Raw: &Raw{K: "int", Z: 150}}}, Where: iptr(1)},
				{K: "upsert", Cols: []int{0, 1}, Rows: [][]Raw{{ri(1), ri(9)}}, Sets: []Set{{I: 1, Raw: &Raw{K: "int", Z: 20}}}},
				{K: "upsert", Cols: []int{0, 1}, Rows: [][]Raw{{ri(1), ri(9)}}, Sets: []Set{{I: 1, Raw: &Raw{K: "int", Z: 150}}}},
				{K: "upsert", Cols: []int{0, 1}, Rows: [][]Raw{{ri(3), ri(9)}, {ri(1), ri(30)}}, Sets: []Set{{I: 1, T: add(newv(1), lit(1))}}},
				{K: "upsert", Ignore: true, Cols: []int{0, 1}, Rows: [][]Raw{{ri(2), ri(9)}, {ri(4), ri(4)}}, Sets: []Set{{I: 1, Raw: &Raw{K: "int", Z: 500}}}},
				{K: "replace", Cols: []int{0, 1}, Rows: [][]Raw{{ri(2), ri(11)}, {ri(5), ri(12)}}},
				{K: "replace", Cols: []int{0, 1}, Rows: [][]Raw{{ri(6), ri(1)}, {ri(1), ri(200)}}},
				{K: "update", Sets: []Set{{I: 1, T: add(col(1), lit(40))}}}}},
		// new finding: IGNORE clamps (TINYINT 200 -> 127) / wraps (UNSIGNED -5 -> 251) after the CHECK and the generated column saw the written value
		{Cols: []Col{id, {Ty: "I8"}, {Ty: "U8"}, {Ty: "I64", Gen: add(col(1), lit(1))}}, Checks: []Check{{Op: "Ne", L: col(1), R: lit(127)}, {Op: "Lt", L: col(2), R: lit(100)}},
			H: []Stmt{{K: "insert", Cols: []int{0, 1, 2}, Rows: [][]Raw{{ri(1), ri(200), ri(1)}}},
				{K: "insert", Ignore: true, Cols: []int{0, 1, 2}, Rows: [][]Raw{{ri(2), ri(200), ri(1)}}},
				{K: "insert", Ignore: true, Cols: []int{0, 1, 2}, Rows: [][]Raw{{ri(3), ri(1), ri(-5)}}},
				{K: "insert", Ignore: true, Cols: []int{0, 1, 2}, Rows: [][]Raw{{ri(4), ri(127), ri(1)}, {ri(5), {K: "stri", Z: -200}, ri(300)}}},
				{K: "update", Sets: []Set{{I: 1, Raw: &Raw{K: "int", Z: 200}}}, Where: iptr(3)},
				{K: "update", Sets: []Set{{I: 1, Raw: &Raw{K: "int", Z: -200}}, {I: 2, T: add(col(2), lit(-300))}}, Where: iptr(3)}}},
		// new finding: IGNORE keeps the numeric prefix of '12abc' although the CHECK compared it as 0
		{Cols: []Col{id, {Ty: "I8"}}, Checks: []Check{{Op: "Ne", L: col(1), R: lit(12)}},
			H: []Stmt{{K: "insert", Cols: []int{0, 1}, Rows: [][]Raw{{ri(1), {K: "bad", Z: 12}}}},
				{K: "insert", Ignore: true, Cols: []int{0, 1}, Rows: [][]Raw{{ri(2), {K: "bad", Z: 12}}, {ri(3), {K: "bad", Z: 0}}}},
				{K: "update", Ignore: true, Sets: []Set{{I: 1, Raw: &Raw{K: "bad", Z: 12}}}, Where: iptr(3)},
				{K: "update", Sets: []Set{{I: 1, Raw: &Raw{K: "bad", Z: 12}}}, Where: iptr(3)}}},
		// new finding: an expression default is computed from the value as written ('3.6' + 1 = 4, c1 stored as 4)
		{Cols: []Col{id, i32(Col{}), {Ty: "I64", DefExpr: add(col(1), lit(1))}, {Ty: "I64", DefExpr: mul(col(2), lit(2))}},
			H: []Stmt{{K: "insert", Cols: []int{0, 1}, Rows: [][]Raw{{ri(1), ri(3)}}},
				{K: "insert", Cols: []int{0, 1, 2}, Rows: [][]Raw{{ri(2), ri(3), ri(7)}, {ri(3), ri(5), {K: "def"}}}},
				{K: "insert", Cols: []int{0, 1}, Rows: [][]Raw{{ri(4), {K: "strf", Z: 36}}}},
				{K: "update", Sets: []Set{{I: 1, Raw: &Raw{K: "int", Z: 9}}, {I: 2, Raw: &Raw{K: "def"}}}, Where: iptr(1)}}},
		// a NOT NULL expression default that evaluates to NULL is an error
		{Cols: []Col{id, i32(Col{}), {Ty: "I64", NotNull: true, DefExpr: add(col(1), lit(1))}},
			H: []Stmt{{K: "insert", Cols: []int{0, 1}, Rows: [][]Raw{{ri(1), ri(3)}, {ri(2), {K: "null"}}}},
				{K: "insert", Ignore: true, Cols: []int{0, 1}, Rows: [][]Raw{{ri(3), {K: "null"}}}},
				{K: "insert", Cols: []int{0, 1}, Rows: [][]Raw{{ri(4), ri(5)}}},
				{K: "update", Sets: []Set{{I: 1, Raw: &Raw{K: "null"}}, {I: 2, Raw: &Raw{K: "def"}}}, Where: iptr(4)}}},
		// new finding: no CHECK is enforced on a table with a VIRTUAL generated column (INSERT and UPDATE)
		{Cols: []Col{id, i32(Col{}), {Ty: "I64", Gen: add(col(1), lit(1)), Virt: true}, {Ty: "I64", Gen: mul(col(2), lit(2))}}, Checks: []Check{{Op: "Lt", L: col(1), R: lit(10)}},
			H: []Stmt{{K: "insert", Cols: []int{0, 1}, Rows: [][]Raw{{ri(1), ri(3)}}},
				{K: "insert", Cols: []int{0, 1}, Rows: [][]Raw{{ri(2), ri(30)}}},
				{K: "update", Sets: []Set{{I: 1, Raw: &Raw{K: "int", Z: 50}}}, Where: iptr(1)},
				{K: "insert", Cols: []int{0, 1}, Rows: [][]Raw{{ri(3), {K: "strf", Z: 86}}}}}},
		// new finding: an explicit value for a generated column is accepted in every tuple but the first
		{Cols: []Col{id, i32(Col{}), {Ty: "I64", Gen: add(col(1), lit(1))}},
			H: []Stmt{{K: "insert", Cols: []int{0, 1, 2}, Rows: [][]Raw{{ri(1), ri(1), ri(99)}}},
				{K: "insert", Cols: []int{0, 1, 2}, Rows: [][]Raw{{ri(2), ri(1), {K: "def"}}, {ri(3), ri(1), ri(99)}}},
				{K: "replace", Cols: []int{0, 1, 2}, Rows: [][]Raw{{ri(4), ri(1), {K: "def"}}, {ri(2), ri(1), ri(98)}}}}},
		// DECIMAL(3,1): CHECK (d * 2 < 20) passes on 9.96 which is stored as 10.0; IGNORE stores 0.0 for an out-of-range value after CHECK (d <> 0) passed
		{Kind: "dec", P: 3, SChecks: []ScalarCheck{{K: "mulcmp", M: 2, Op: "Lt", Lit: 20}, {K: "cmp", Op: "Ne", Lit: 0}},
			SH: []ScalarStmt{{ID: 1, H: 996}, {ID: 2, H: 994}, {ID: 3, H: -100050}, {Ignore: true, ID: 4, H: -100050}, {Upd: true, ID: 2, H: 996}, {Upd: true, Ignore: true, ID: 2, H: 996}, {Upd: true, Ignore: true, ID: 2, H: -100050}}},
		{Kind: "dec", P: 3, SChecks: []ScalarCheck{{K: "cmp", Op: "Lt", Lit: 10}, {K: "cmp", Op: "Ne", Lit: 5}},
			SH: []ScalarStmt{{ID: 1, H: 995}, {ID: 2, H: 994}, {ID: 3, H: 496}, {ID: 4, H: 504}, {Ignore: true, ID: 5, H: 999}, {Upd: true, ID: 2, H: 496}}},
		// VARCHAR(3): IGNORE truncates 'abcd' to 'abc' after the CHECKs and the generated column saw 'abcd'
		{Kind: "str", P: 3, SChecks: []ScalarCheck{{K: "ne", S: "abc"}, {K: "len", Op: "Ne", Lit: 3}},
			SH: []ScalarStmt{{ID: 1, S: "abcd"}, {Ignore: true, ID: 2, S: "abcd"}, {Ignore: true, ID: 3, S: "xy"}, {ID: 4, S: "abc"}, {Upd: true, ID: 3, S: "abcd"}, {Upd: true, Ignore: true, ID: 3, S: "abcd"}, {Upd: true, Ignore: true, ID: 3, S: "zz"}}},
		// BEFORE triggers that set NEW.c1 leave the stored generated column computed from the value before the trigger
		{Kind: "script", Script: &Script{
			Setup: []string{"CREATE TABLE t (c0 INT PRIMARY KEY, c1 INT, c2 INT AS (c1 + 1) STORED, CHECK (c1 < 10))",
				"CREATE TRIGGER tr BEFORE UPDATE ON t FOR EACH ROW SET NEW.c1 = NEW.c1 + 2", "INSERT INTO t (c0, c1) VALUES (1, 1)"},
			Stmts:  []string{"UPDATE t SET c1 = 3 WHERE c0 = 1", "UPDATE t SET c1 = 8 WHERE c0 = 1"},
			Counts: []string{"SELECT COUNT(*) FROM t WHERE NOT (c2 <=> (c1 + 1))", "SELECT COUNT(*) FROM t WHERE NOT (c1 < 10)"},
			Sigs:   []string{"generated-differs/before-trigger-sets-new", "check-false-stored/before-trigger-sets-new"}}},
		{Kind: "script", Script: &Script{
			Setup: []string{"CREATE TABLE t (c0 INT PRIMARY KEY, c1 INT, c2 INT AS (c1 + 1) STORED, CHECK (c1 < 10))",
				"CREATE TRIGGER tr BEFORE INSERT ON t FOR EACH ROW SET NEW.c1 = NEW.c1 + 2"},
			Stmts:  []string{"INSERT INTO t (c0, c1) VALUES (1, 1)", "INSERT INTO t (c0, c1) VALUES (2, 8)"},
			Counts: []string{"SELECT COUNT(*) FROM t WHERE NOT (c2 <=> (c1 + 1))", "SELECT COUNT(*) FROM t WHERE NOT (c1 < 10)"},
			Sigs:   []string{"generated-differs/before-trigger-sets-new", "check-false-stored/before-trigger-sets-new"}}},
		// a decimal literal written into an UNSIGNED column reaches the CHECK unrounded: 0.3 <> 0 passes, 0 is stored (strict mode)
		{Kind: "script", Script: &Script{
			Setup:  []string{"CREATE TABLE t (c0 INT PRIMARY KEY, c1 TINYINT UNSIGNED, c2 INT, CHECK (c1 <> 0), CHECK (c2 <> 0))"},
			Stmts:  []string{"INSERT INTO t VALUES (1, 1, 0.3)", "INSERT INTO t VALUES (2, 0.3, 1)"},
			Counts: []string{"SELECT COUNT(*) FROM t WHERE NOT (c1 <> 0)", "SELECT COUNT(*) FROM t WHERE NOT (c2 <> 0)"},
			Sigs:   []string{"check-false-stored/insert-decimal-literal-unsigned", "check-false-stored/insert-decimal-literal-signed"}}},
		// foreign key actions write the child row without evaluating its CHECKs
		{Kind: "script", Script: &Script{
			Setup: []string{"CREATE TABLE p (id INT PRIMARY KEY, k INT, UNIQUE KEY (k))",
				"CREATE TABLE t (c0 INT PRIMARY KEY, k INT, CHECK (k < 10), CHECK (k IS NOT NULL), FOREIGN KEY (k) REFERENCES p (k) ON UPDATE CASCADE ON DELETE SET NULL)",
				"INSERT INTO p VALUES (1, 5), (2, 6)", "INSERT INTO t VALUES (1, 5), (2, 6)"},
			Stmts:  []string{"UPDATE p SET k = 20 WHERE id = 1", "DELETE FROM p WHERE id = 2"},
			Counts: []string{"SELECT COUNT(*) FROM t WHERE NOT (k < 10)", "SELECT COUNT(*) FROM t WHERE NOT (k IS NOT NULL)"},
			Sigs:   []string{"check-false-stored/foreign-key-cascade", "check-false-stored/foreign-key-set-null"}}},
	}
	return cs
}

func main() {
	lib.Main("C19", func(c *lib.Ctx) {
		c.Header = "From Coq Require Import List ZArith String.\nImport ListNotations.\nFrom GMS Require Import Store.C19Check Store.C19Scalar Corr.C19.\nOpen Scope N_scope."
		c.CaseType = "C19.case"
		c.MismatchFn = "C19.mismatches"
		c.SetRule("table t (c0 INT PRIMARY KEY, 2-3 columns of TINYINT/SMALLINT/INT [UNSIGNED] (half of the schemas: INT only) with random NOT NULL / literal DEFAULT / " +
			"expression DEFAULT over an earlier column, 0-2 STORED or VIRTUAL generated columns col+k | col*k | col+col | over the previous generated column, " +
			"0-3 CHECKs col op lit | col op col | col+col op lit | col+k op lit | col op type-bound); histories of 5-11 INSERT [IGNORE] (1-3 rows, column subsets, " +
			"values: ints, NULL, DEFAULT, decimal literals, integer strings, fractional strings, malformed strings, out-of-range values; sometimes an explicit value " +
			"for a generated column), UPDATE [IGNORE] (1-2 SET of literal or expression, WHERE c0 = k or all rows), INSERT [IGNORE] .. ON DUPLICATE KEY UPDATE " +
			"(1-2 rows, VALUES()), REPLACE (1-2 rows). 1/8 of the cases: one DECIMAL(p,1) column, 1/8: one VARCHAR(n) column with a generated CHAR_LENGTH. " +
			"Non-trivial = at least one CHECK or generated column; distinct = distinct (schema, history).")
		if c.ReplayFile != "" {
			var cs caseT
			lib.LoadReplay(c.ReplayFile, &cs)
			run(c, cs)
			return
		}
		cp := corpus()
		for _, cs := range cp {
			run(c, cs)
		}
		for i := len(cp); i < c.N; i++ {
			r := c.R.Fork()
			switch r.Intn(8) {
			case 0:
				run(c, genDec(r))
			case 1:
				run(c, genStr(r))
			default:
				run(c, gen(r))
			}
		}
	})
}
