// Driver for C23 (triggers): generated trigger sets (BEFORE/AFTER x INSERT/UPDATE/DELETE, FOLLOWS/PRECEDES) on
// t (id INT PRIMARY KEY, v INT) whose bodies write audit rows (and SET NEW.v in BEFORE triggers), and DML statements run
// on the real engine.  After every statement the table and the audit rows written by that statement go to the Coq model
// (Store/C23Trigger.v).  Property predicate on the implementation alone, against an independent reference written here
// (MySQL placement of FOLLOWS/PRECEDES at creation; per affected row: BEFORE triggers in order, the row, AFTER triggers
// in order): every trigger fires exactly once per affected row, in the prescribed order, with the right OLD/NEW values,
// the stored value is what the BEFORE triggers left in NEW, and a failing statement leaves no audit rows behind.
package main

import (
	"fmt"
	"math/big"
	"sort"
	"strings"

	"verifharness/lib"
	"verifharness/lib/eng"
)

type Trig struct {
	Time   string `json:"time"` // Before After
	Ev     string `json:"ev"`   // ins upd del
	Tag    int64  `json:"tag"`
	X      string `json:"x"` // OldId OldV NewId NewV
	Y      string `json:"y"`
	Set    string `json:"set,omitempty"` // "", add, mul
	C      int64  `json:"c,omitempty"`
	Clause string `json:"clause,omitempty"` // "", Follows, Precedes
	Ref    int64  `json:"ref,omitempty"`    // tag of the referenced trigger
}

type Stmt struct {
	K    string     `json:"k"` // ins upd del
	Rows [][2]int64 `json:"rows,omitempty"`
	C    int64      `json:"c,omitempty"`
	Key  *int64     `json:"key,omitempty"`
}

type caseT struct {
	Trigs   []Trig `json:"trigs"` // creation order
	H       []Stmt `json:"h"`
	NoModel bool   `json:"nomodel,omitempty"` // several placement clauses for one event: plan.OrderTriggers is not modelled
	// Pre: before the case proper, the SAME-NAMED triggers are created on another table t0 (events rotated), DML runs
	// there, and t0 is dropped (which drops its triggers); the triggers of the case must then be creatable and fire on t
	Pre bool `json:"pre,omitempty"`
}

var fieldSQL = map[string]string{"OldId": "OLD.id", "OldV": "OLD.v", "NewId": "NEW.id", "NewV": "NEW.v"}
var evSQL = map[string]string{"ins": "INSERT", "upd": "UPDATE", "del": "DELETE"}

func (t Trig) name() string { return fmt.Sprintf("tr%d", t.Tag) }

func (t Trig) sql() string {
	order := ""
	if t.Clause != "" {
		order = fmt.Sprintf(" %s tr%d", strings.ToUpper(t.Clause), t.Ref)
	}
	body := fmt.Sprintf("INSERT INTO audit (tag, x, y) VALUES (%d, %s, %s)", t.Tag, fieldSQL[t.X], fieldSQL[t.Y])
	if t.Set != "" {
		op := "+"
		if t.Set == "mul" {
			op = "*"
		}
		body = fmt.Sprintf("BEGIN %s; SET NEW.v = NEW.v %s %d; END", body, op, t.C)
	}
	return fmt.Sprintf("CREATE TRIGGER %s %s %s ON t FOR EACH ROW%s %s", t.name(), strings.ToUpper(t.Time), evSQL[t.Ev], order, body)
}

func coqZ(z int64) string {
	if z < 0 {
		return fmt.Sprintf("(%d)", z)
	}
	return fmt.Sprintf("%d", z)
}

func (t Trig) coq() string {
	set := "None"
	switch t.Set {
	case "add":
		set = "(Some (SAdd " + coqZ(t.C) + "))"
	case "mul":
		set = "(Some (SMul " + coqZ(t.C) + "))"
	}
	cl := "NoClause"
	if t.Clause != "" {
		cl = fmt.Sprintf("(%s %s)", t.Clause, coqZ(t.Ref))
	}
	return fmt.Sprintf("T %s %s %s %s %s %s", t.Time, coqZ(t.Tag), t.X, t.Y, set, cl)
}

func (s Stmt) sql() string {
	switch s.K {
	case "ins":
		var vs []string
		for _, r := range s.Rows {
			vs = append(vs, fmt.Sprintf("(%d, %d)", r[0], r[1]))
		}
		return "INSERT INTO t VALUES " + strings.Join(vs, ", ")
	case "upd":
		q := fmt.Sprintf("UPDATE t SET v = v + %d", s.C)
		if s.Key != nil {
			q += fmt.Sprintf(" WHERE id = %d", *s.Key)
		}
		return q
	}
	return fmt.Sprintf("DELETE FROM t WHERE id >= %d", *s.Key)
}

func (s Stmt) coq() string {
	switch s.K {
	case "ins":
		return "SIns " + lib.CoqListOf(s.Rows, func(r [2]int64) string { return fmt.Sprintf("R %s %s", coqZ(r[0]), coqZ(r[1])) })
	case "upd":
		k := "None"
		if s.Key != nil {
			k = "(Some " + coqZ(*s.Key) + "%Z)"
		}
		return fmt.Sprintf("SUpd %s %s", coqZ(s.C), k)
	}
	return "SDel " + coqZ(*s.Key)
}

func ip(z int64) *int64 { return &z }

// ---- reference (independent of the engine and of the Coq model) ----

type entry [3]int64

// MySQL: a trigger is placed at creation, after all triggers of its (time, event) unless FOLLOWS / PRECEDES names another
func refOrder(trigs []Trig, ev, time string) []Trig {
	var l []Trig
	for _, t := range trigs {
		if t.Ev != ev || t.Time != time {
			continue
		}
		pos := len(l)
		if t.Clause != "" {
			for i, o := range l {
				if o.Tag == t.Ref {
					if t.Clause == "Precedes" {
						pos = i
					} else {
						pos = i + 1
					}
				}
			}
		}
		l = append(l[:pos], append([]Trig{t}, l[pos:]...)...)
	}
	return l
}

func val(f string, old, nw [2]int64) int64 {
	switch f {
	case "OldId":
		return old[0]
	case "OldV":
		return old[1]
	case "NewId":
		return nw[0]
	}
	return nw[1]
}

// one affected row: log and the NEW row that must be stored
func refRow(trigs []Trig, ev string, old, nw [2]int64) ([]entry, [2]int64) {
	var log []entry
	for _, t := range refOrder(trigs, ev, "Before") {
		log = append(log, entry{t.Tag, val(t.X, old, nw), val(t.Y, old, nw)})
		switch t.Set {
		case "add":
			nw[1] += t.C
		case "mul":
			nw[1] *= t.C
		}
	}
	for _, t := range refOrder(trigs, ev, "After") {
		log = append(log, entry{t.Tag, val(t.X, old, nw), val(t.Y, old, nw)})
	}
	return log, nw
}

// ---- generator ----

func gen(r *lib.RNG) caseT {
	var c caseT
	tag := int64(0)
	// one case in three: any number of placement clauses per event and up to 6 triggers (cap(triggers) = 8 > len)
	multi := r.Chance(1, 3)
	for _, ev := range []string{"ins", "upd", "del"} {
		n := r.Intn(5)
		if multi {
			n = r.Intn(7)
		}
		clauseUsed := false
		var tags []int64
		var times []string
		for i := 0; i < n; i++ {
			tag++
			t := Trig{Time: lib.Pick(r, []string{"Before", "After"}), Ev: ev, Tag: tag}
			fs := []string{"NewId", "NewV"}
			if ev == "upd" {
				fs = []string{"OldV", "NewV", "OldId", "NewV"}
			} else if ev == "del" {
				fs = []string{"OldId", "OldV"}
			}
			t.X, t.Y = lib.Pick(r, fs), lib.Pick(r, fs)
			if t.Time == "Before" && ev != "del" && r.Chance(1, 2) {
				t.Set, t.C = lib.Pick(r, []string{"add", "mul"}), int64(r.Range(2, 3))
			}
			if (multi && r.Chance(1, 2)) || (!multi && !clauseUsed && r.Chance(1, 3)) {
				// reference an earlier trigger of the same time and event
				var cand []int64
				for j, g := range tags {
					if times[j] == t.Time {
						cand = append(cand, g)
					}
				}
				if len(cand) > 0 {
					t.Clause, t.Ref = lib.Pick(r, []string{"Follows", "Precedes"}), lib.Pick(r, cand)
					clauseUsed = true
				}
			}
			tags, times = append(tags, tag), append(times, t.Time)
			c.Trigs = append(c.Trigs, t)
		}
	}
	next := int64(1)
	for i, n := 0, r.Range(3, 7); i < n; i++ {
		switch x := r.Intn(10); {
		case x < 5 || next == 1:
			s := Stmt{K: "ins"}
			for j, m := 0, r.Range(1, 3); j < m; j++ {
				id := next
				next++
				if r.Chance(1, 8) && id > 1 {
					id = int64(r.Range(1, int(id)-1)) // duplicate key: the statement fails at this row
				}
				s.Rows = append(s.Rows, [2]int64{id, int64(r.Range(1, 9))})
			}
			c.H = append(c.H, s)
		case x < 8:
			s := Stmt{K: "upd", C: int64(r.Range(1, 5))}
			if r.Chance(1, 2) {
				s.Key = ip(int64(r.Range(1, int(next))))
			}
			c.H = append(c.H, s)
		default:
			c.H = append(c.H, Stmt{K: "del", Key: ip(int64(r.Range(1, int(next))))})
		}
	}
	return c
}

// ---- running ----

func toI(v interface{}) int64 {
	switch x := v.(type) {
	case int32:
		return int64(x)
	case int64:
		return x
	}
	panic(fmt.Sprintf("unexpected value %T", v))
}

func pattern(trigs []Trig, ev string) string {
	var parts []string
	idx := map[int64]int{}
	for _, t := range trigs {
		if t.Ev != ev {
			continue
		}
		p := t.Time[:1]
		if t.Clause != "" {
			p += fmt.Sprintf("%s%d", t.Clause[:1], idx[t.Ref])
		}
		idx[t.Tag] = len(parts)
		parts = append(parts, p)
	}
	return strings.Join(parts, ",")
}

func nClauses(trigs []Trig, ev string) int {
	n := 0
	for _, t := range trigs {
		if t.Ev == ev && t.Clause != "" {
			n++
		}
	}
	return n
}

func run(c *lib.Ctx, cs caseT) {
	e := eng.New("db")
	s := e.Session()
	s.MustExec("CREATE TABLE t (id INT PRIMARY KEY, v INT)", "CREATE TABLE audit (k INT PRIMARY KEY AUTO_INCREMENT, tag INT, x INT, y INT)")
	type failT struct{ sig, what string }
	var fails []failT
	fail := func(sig, what string) { fails = append(fails, failT{sig, what}) }
	if cs.Pre {
		s.MustExec("CREATE TABLE t0 (id INT PRIMARY KEY, v INT)")
		rot := map[string]string{"ins": "upd", "upd": "del", "del": "ins"}
		for _, t := range cs.Trigs {
			p := t
			p.Ev, p.Clause, p.Set = rot[t.Ev], "", ""
			p.X, p.Y = "NewId", "NewV"
			if p.Ev == "del" {
				p.X, p.Y = "OldId", "OldV"
			}
			s.MustExec(strings.Replace(p.sql(), " ON t FOR", " ON t0 FOR", 1))
		}
		s.MustExec("INSERT INTO t0 VALUES (1, 1), (2, 2)", "UPDATE t0 SET v = v + 1", "DELETE FROM t0 WHERE id = 1", "DROP TABLE t0")
		if r := s.Query("SHOW TRIGGERS"); r.Err == nil && len(r.Rows) > 0 {
			fail("triggers-survive-drop-table", fmt.Sprintf("DROP TABLE t0 left %d trigger(s) behind", len(r.Rows)))
		}
	}
	for _, t := range cs.Trigs {
		if r := s.Query(t.sql()); r.Err != nil {
			fail("trigger-recreate-failed", fmt.Sprintf("%s failed: %v (pre-phase with same-named triggers on a dropped table: %v)", t.sql(), r.Err, cs.Pre))
		}
	}
	readT := func() [][2]int64 {
		r := s.Query("SELECT id, v FROM t ORDER BY id")
		if r.Err != nil {
			panic(r.Err)
		}
		out := [][2]int64{}
		for _, row := range r.Rows {
			out = append(out, [2]int64{toI(row[0]), toI(row[1])})
		}
		return out
	}
	var events []string
	prev := readT()
	nFired := 0
	for si, st := range cs.H {
		s.MustExec("DELETE FROM audit")
		q := st.sql()
		r := s.Query(q)
		failed := r.Err != nil
		multiCl := nClauses(cs.Trigs, st.K) >= 2
		if r.Panic != "" {
			sig := "panic/" + st.K
			if multiCl {
				sig = "panic/several-placement-clauses"
			}
			fail(sig, q+" panicked: "+r.Panic+" (triggers: "+st.K+"["+pattern(cs.Trigs, st.K)+"])")
		} else if failed && eng.ErrKind(r.Err) != "dup-key" {
			fail("unexpected-error/"+st.K, fmt.Sprintf("%s failed: %v", q, r.Err))
		}
		cur := readT()
		ar := s.Query("SELECT tag, x, y FROM audit ORDER BY k")
		if ar.Err != nil {
			panic(ar.Err)
		}
		var log []entry
		for _, row := range ar.Rows {
			log = append(log, entry{toI(row[0]), toI(row[1]), toI(row[2])})
		}
		nFired += len(log)
		if r.Panic != "" {
			events = append(events, fmt.Sprintf("EvP (%s) %s", st.coq(),
				lib.CoqListOf(cur, func(r [2]int64) string { return fmt.Sprintf("R %s %s", coqZ(r[0]), coqZ(r[1])) })))
			prev = cur
			continue
		}
		events = append(events, fmt.Sprintf("Ev (%s) %s %s %s", st.coq(), lib.CoqBool(failed),
			lib.CoqListOf(cur, func(r [2]int64) string { return fmt.Sprintf("R %s %s", coqZ(r[0]), coqZ(r[1])) }),
			lib.CoqListOf(log, func(e entry) string { return fmt.Sprintf("E %s %s %s", coqZ(e[0]), coqZ(e[1]), coqZ(e[2])) })))

		// reference: affected rows in id order
		var wantLog []entry
		want := [][2]int64{}
		wantFail := false
		evName := st.K
		switch st.K {
		case "ins":
			tb := append([][2]int64{}, prev...)
			for _, row := range st.Rows {
				l, nw := refRow(cs.Trigs, "ins", row, row)
				dup := false
				for _, x := range tb {
					if x[0] == nw[0] {
						dup = true
					}
				}
				if dup {
					wantFail = true
					break
				}
				wantLog = append(wantLog, l...)
				tb = append(tb, nw)
			}
			sort.Slice(tb, func(i, j int) bool { return tb[i][0] < tb[j][0] })
			want = tb
		case "upd":
			for _, row := range prev {
				if st.Key != nil && row[0] != *st.Key {
					want = append(want, row)
					continue
				}
				l, nw := refRow(cs.Trigs, "upd", row, [2]int64{row[0], row[1] + st.C})
				wantLog = append(wantLog, l...)
				want = append(want, nw)
			}
		case "del":
			for _, row := range prev {
				if row[0] < *st.Key {
					want = append(want, row)
					continue
				}
				l, _ := refRow(cs.Trigs, "del", row, row)
				wantLog = append(wantLog, l...)
			}
		}
		pat := evName + "[" + pattern(cs.Trigs, evName) + "]"
		patSig := pat
		if multiCl {
			// root cause: plan.OrderTriggers with two or more placement clauses among the triggers of one event
			patSig = "several-placement-clauses"
		}
		eqT := func(a, b [][2]int64) bool {
			if len(a) != len(b) {
				return false
			}
			for i := range a {
				if a[i] != b[i] {
					return false
				}
			}
			return true
		}
		switch {
		case wantFail != failed:
			fail("statement-outcome-differs/"+st.K, fmt.Sprintf("statement %d %s: failed=%v, reference failed=%v", si, q, failed, wantFail))
		case failed:
			// the triggers' own effects are discarded together with the triggering statement
			if !eqT(cur, prev) {
				fail("failed-statement-changed-table/"+st.K, fmt.Sprintf("statement %d %s failed but t changed from %v to %v", si, q, prev, cur))
			}
			if len(log) > 0 {
				fail("audit-rows-survive-failed-statement/"+st.K, fmt.Sprintf("statement %d %s failed (%v) but %d audit row(s) written by its triggers remain: %v", si, q, r.Err, len(log), log))
			}
		default:
			if !eqT(cur, want) {
				fail("stored-rows-differ/"+patSig, fmt.Sprintf("statement %d %s: t is %v, reference %v", si, q, cur, want))
			}
			same := len(log) == len(wantLog)
			for i := 0; same && i < len(log); i++ {
				same = log[i] == wantLog[i]
			}
			if !same {
				// narrow: is it only the order within rows (same multiset)?
				a, b := append([]entry{}, log...), append([]entry{}, wantLog...)
				less := func(l []entry) func(i, j int) bool {
					return func(i, j int) bool { return fmt.Sprint(l[i]) < fmt.Sprint(l[j]) }
				}
				sort.Slice(a, less(a))
				sort.Slice(b, less(b))
				kind := "audit-log-differs"
				if fmt.Sprint(a) == fmt.Sprint(b) {
					kind = "trigger-order-differs"
				}
				fail(kind+"/"+patSig, fmt.Sprintf("statement %d %s: audit rows %v, prescribed %v (triggers: %s)", si, q, log, wantLog, pat))
			}
		}
		prev = cur
	}
	byEv := map[string][]string{}
	for _, t := range cs.Trigs {
		byEv[t.Ev] = append(byEv[t.Ev], t.coq())
		c.Count("trigger/" + t.Time + "-" + t.Ev)
		if t.Clause != "" {
			c.Count("trigger/" + t.Clause)
		}
	}
	for _, st := range cs.H {
		c.Count("stmt/" + st.K)
	}
	key := ""
	if nFired > 0 {
		key = fmt.Sprintf("%v|%v", cs.Trigs, cs.H)
	}
	var id int
	{
		term := fmt.Sprintf("Case %s %s %s %s", lib.CoqList(byEv["ins"]), lib.CoqList(byEv["upd"]), lib.CoqList(byEv["del"]), lib.CoqList(events))
		id = c.Case(term, cs, key)
	}
	c.PredChecked()
	seen := map[string]bool{}
	for _, f := range fails {
		if !seen[f.sig] {
			seen[f.sig] = true
			c.PredFail(id, f.sig, f.what, cs)
		}
	}
}

func main() {
	lib.Main("C23", func(c *lib.Ctx) {
		c.Header = "From Coq Require Import List ZArith.\nImport ListNotations.\nFrom GMS Require Import Store.C23Trigger Store.C23Rich Corr.C23.\nOpen Scope N_scope."
		c.CaseType = "C23.case"
		c.MismatchFn = "C23.mismatches"
		c.SetRule("0-4 triggers per event (BEFORE/AFTER x INSERT/UPDATE/DELETE) on t (id INT PRIMARY KEY, v INT), bodies INSERT INTO audit (tag, OLD/NEW fields) " +
			"optionally + SET NEW.v = NEW.v +|* c, at most one FOLLOWS/PRECEDES per event; 3-7 statements: multi-row INSERT (1/8 rows with a duplicate key), " +
			"UPDATE t SET v = v + c [WHERE id = k], DELETE WHERE id >= k. One case in four first creates the SAME-NAMED triggers on another table " +
			"(other events), runs DML there and drops that table; one case in six is a typed-NEW-value case (INT / DECIMAL(5,2) columns, decimal and " +
			"string literals, AFTER INSERT trigger writing NEW.* into DECIMAL(14,5) audit columns; implementation-side predicate only). Non-trivial = at least one trigger fired; distinct = distinct (triggers, history).")
		if c.ReplayFile != "" {
			var tc typedCase
			lib.LoadReplay(c.ReplayFile, &tc)
			if tc.Typed {
				runTyped(c, tc)
				return
			}
			var sc scriptCase
			lib.LoadReplay(c.ReplayFile, &sc)
			if sc.Script {
				runScript(c, sc)
				return
			}
			var rc richCase
			lib.LoadReplay(c.ReplayFile, &rc)
			if rc.Rich {
				runRich(c, rc)
				return
			}
			var cs caseT
			lib.LoadReplay(c.ReplayFile, &cs)
			run(c, cs)
			return
		}
		corpus := []caseT{
			// known finding: BEFORE/AFTER INSERT audit rows survive a failing multi-row insert
			{Trigs: []Trig{{Time: "Before", Ev: "ins", Tag: 1, X: "NewId", Y: "NewV", Set: "add", C: 10}, {Time: "After", Ev: "ins", Tag: 2, X: "NewId", Y: "NewV"}},
				H: []Stmt{{K: "ins", Rows: [][2]int64{{1, 1}, {2, 2}}}, {K: "ins", Rows: [][2]int64{{3, 3}, {1, 5}}}}},
			// known finding: two placement clauses for one event: tr6 FOLLOWS tr4 is lost once tr3 PRECEDES tr1 was processed
			{Trigs: []Trig{{Time: "After", Ev: "ins", Tag: 1, X: "NewId", Y: "NewV"}, {Time: "After", Ev: "ins", Tag: 2, X: "NewId", Y: "NewV"},
				{Time: "After", Ev: "ins", Tag: 3, X: "NewId", Y: "NewV", Clause: "Precedes", Ref: 1}, {Time: "Before", Ev: "ins", Tag: 4, X: "NewId", Y: "NewV"},
				{Time: "Before", Ev: "ins", Tag: 5, X: "NewId", Y: "NewV"}, {Time: "Before", Ev: "ins", Tag: 6, X: "NewId", Y: "NewV", Clause: "Follows", Ref: 4}},
				H: []Stmt{{K: "ins", Rows: [][2]int64{{1, 1}}}}},
			// known finding: tr3 PRECEDES tr2 fires after tr2 when tr2 FOLLOWS tr1
			{Trigs: []Trig{{Time: "After", Ev: "ins", Tag: 1, X: "NewId", Y: "NewV"}, {Time: "After", Ev: "ins", Tag: 2, X: "NewId", Y: "NewV", Clause: "Follows", Ref: 1},
				{Time: "After", Ev: "ins", Tag: 3, X: "NewId", Y: "NewV", Clause: "Precedes", Ref: 2}},
				H: []Stmt{{K: "ins", Rows: [][2]int64{{1, 1}, {2, 2}}}}},
			// known finding: every clause names an earlier trigger of its class, yet tr3 fires twice and tr4 never (2,3,1,3,5)
			{Trigs: []Trig{{Time: "Before", Ev: "ins", Tag: 1, X: "NewId", Y: "NewV"}, {Time: "Before", Ev: "ins", Tag: 2, X: "NewId", Y: "NewV", Clause: "Precedes", Ref: 1},
				{Time: "Before", Ev: "ins", Tag: 3, X: "NewId", Y: "NewV", Clause: "Precedes", Ref: 1}, {Time: "Before", Ev: "ins", Tag: 4, X: "NewId", Y: "NewV"},
				{Time: "Before", Ev: "ins", Tag: 5, X: "NewId", Y: "NewV", Clause: "Precedes", Ref: 4}},
				H: []Stmt{{K: "ins", Rows: [][2]int64{{1, 1}, {2, 2}}}}},
			// update / delete triggers, chained SET NEW.v
			{Trigs: []Trig{{Time: "Before", Ev: "ins", Tag: 1, X: "NewId", Y: "NewV", Set: "add", C: 10}, {Time: "Before", Ev: "ins", Tag: 2, X: "NewId", Y: "NewV", Set: "mul", C: 2},
				{Time: "Before", Ev: "upd", Tag: 3, X: "OldV", Y: "NewV", Set: "add", C: 1}, {Time: "After", Ev: "upd", Tag: 4, X: "OldV", Y: "NewV"},
				{Time: "Before", Ev: "del", Tag: 5, X: "OldId", Y: "OldV"}, {Time: "After", Ev: "del", Tag: 6, X: "OldId", Y: "OldV"}},
				H: []Stmt{{K: "ins", Rows: [][2]int64{{1, 1}, {2, 2}}}, {K: "upd", C: 100}, {K: "upd", C: 1, Key: ip(1)}, {K: "del", Key: ip(2)}}},
		}
		for _, cs := range corpus {
			run(c, cs)
		}
		// same-named trigger re-created after DROP TABLE, on another table and event
		run(c, caseT{Pre: true, Trigs: []Trig{{Time: "Before", Ev: "ins", Tag: 1, X: "NewId", Y: "NewV"}, {Time: "After", Ev: "upd", Tag: 2, X: "OldV", Y: "NewV"}},
			H: []Stmt{{K: "ins", Rows: [][2]int64{{5, 5}}}, {K: "upd", C: 2}}})
		// typed NEW values: 1.6 into INT -> 2, '3.14159' into DECIMAL(5,2) -> 3.14
		runTyped(c, typedCase{Typed: true, Before: true, Rows: [][][3]string{{{"1", "1.6", "'3.14159'"}, {"2", "'7'", "1.005"}}, {{"3", "2.4", "2"}, {"4", "'2.5'", "'2.5'"}}}})
		for _, sc := range scriptCorpus {
			runScript(c, sc)
		}
		for _, rc := range richCorpus {
			runRich(c, rc)
		}
		for i := len(corpus) + 2 + len(scriptCorpus) + len(richCorpus); i < c.N; i++ {
			switch {
			case i%12 == 0:
				runTyped(c, genTyped(c.R.Fork()))
			case i%3 == 2:
				runRich(c, genRich(c.R.Fork()))
			case i%4 == 1:
				cs := gen(c.R.Fork())
				cs.Pre = true
				run(c, cs)
			default:
				run(c, gen(c.R.Fork()))
			}
		}
	})
}

// ---------------------------------------------------------------------------------------------------------------
// Typed NEW values: AFTER INSERT triggers must see the STORED (converted) values when the INSERT supplies literals that
// are not of the column's type (1.6 into INT -> 2, '3.14159' into DECIMAL(5,2) -> 3.14).  The audit columns are wider
// than the table columns (DECIMAL(14,5)) so that an unconverted value would show.  Implementation-side predicate only.

type typedCase struct {
	Typed  bool        `json:"typed"`
	Before bool        `json:"before"` // also a BEFORE INSERT trigger (not judged, it only has to leave the AFTER one alone)
	Rows   [][][3]string `json:"rows"`  // statements -> rows -> (id, v literal, d literal) as SQL text
}

func genTyped(r *lib.RNG) typedCase {
	tc := typedCase{Typed: true, Before: r.Chance(1, 2)}
	id := 0
	lit := func(dec bool) string {
		n, f := r.Range(0, 40), r.Range(0, 99999)
		var s string
		switch r.Intn(4) {
		case 0:
			return fmt.Sprintf("%d", n)
		case 1:
			s = fmt.Sprintf("%d.%d", n, r.Range(1, 9))
		case 2:
			s = fmt.Sprintf("%d.%05d", n, f)
		default:
			s = fmt.Sprintf("%d.%03d", n, f%1000)
		}
		if r.Chance(1, 2) {
			return "'" + s + "'"
		}
		_ = dec
		return s
	}
	for i, n := 0, r.Range(1, 3); i < n; i++ {
		var rows [][3]string
		for j, m := 0, r.Range(1, 3); j < m; j++ {
			id++
			rows = append(rows, [3]string{fmt.Sprintf("%d", id), lit(false), lit(true)})
		}
		tc.Rows = append(tc.Rows, rows)
	}
	return tc
}

func ratOf(v interface{}) *big.Rat {
	s := eng.Val(v)
	s = strings.TrimPrefix(s, "d:")
	x, ok := new(big.Rat).SetString(s)
	if !ok {
		return nil
	}
	return x
}

func runTyped(c *lib.Ctx, tc typedCase) {
	e := eng.New("db")
	s := e.Session()
	s.MustExec("CREATE TABLE tt (id INT PRIMARY KEY, v INT, d DECIMAL(5,2))",
		"CREATE TABLE audit2 (k INT PRIMARY KEY AUTO_INCREMENT, tag INT, rid INT, xi DECIMAL(14,5), xd DECIMAL(14,5))",
		"CREATE TRIGGER ta AFTER INSERT ON tt FOR EACH ROW INSERT INTO audit2 (tag, rid, xi, xd) VALUES (1, NEW.id, NEW.v, NEW.d)")
	if tc.Before {
		s.MustExec("CREATE TRIGGER tb BEFORE INSERT ON tt FOR EACH ROW INSERT INTO audit2 (tag, rid, xi, xd) VALUES (2, NEW.id, NEW.v, NEW.d)")
	}
	type failT struct{ sig, what string }
	var fails []failT
	for si, rows := range tc.Rows {
		var vs []string
		for _, r := range rows {
			vs = append(vs, "("+r[0]+", "+r[1]+", "+r[2]+")")
		}
		q := "INSERT INTO tt VALUES " + strings.Join(vs, ", ")
		s.MustExec("DELETE FROM audit2")
		r := s.Query(q)
		if r.Err != nil {
			// out of range etc. would be a generator bug: the literals are all convertible
			fails = append(fails, failT{"typed-unexpected-error", fmt.Sprintf("%s failed: %v", q, r.Err)})
			continue
		}
		for _, row := range rows {
			st := s.Query("SELECT v, d FROM tt WHERE id = " + row[0])
			au := s.Query("SELECT xi, xd FROM audit2 WHERE tag = 1 AND rid = " + row[0])
			if st.Err != nil || au.Err != nil || len(st.Rows) != 1 {
				panic(fmt.Sprintf("typed read back failed: %v %v", st.Err, au.Err))
			}
			if len(au.Rows) != 1 {
				fails = append(fails, failT{"typed-after-trigger-count", fmt.Sprintf("statement %d %s: AFTER INSERT trigger fired %d times for row %s", si, q, len(au.Rows), row[0])})
				continue
			}
			for j, name := range []string{"v", "d"} {
				a, b := ratOf(st.Rows[0][j]), ratOf(au.Rows[0][j])
				if a == nil || b == nil || a.Cmp(b) != 0 {
					fails = append(fails, failT{"after-trigger-sees-unconverted-new/" + name, fmt.Sprintf("statement %d %s: row %s stores %s = %s but the AFTER INSERT trigger saw NEW.%s = %s",
						si, q, row[0], name, eng.Val(st.Rows[0][j]), name, eng.Val(au.Rows[0][j]))})
				}
			}
		}
	}
	c.Count("typed-new-value-cases")
	id := c.CaseNoModel(tc, fmt.Sprintf("%v", tc))
	c.PredChecked()
	seen := map[string]bool{}
	for _, f := range fails {
		if !seen[f.sig] {
			seen[f.sig] = true
			c.PredFail(id, f.sig, f.what, tc)
		}
	}
}
