// Rich trigger bodies for C23: BEGIN ... END bodies with several statements, IF NEW.v > k THEN ... END IF, conditional
// SIGNAL, SET NEW.v = c, a nested INSERT INTO t2 whose table has its own INSERT triggers (depth 2), UPDATE of the primary
// key.  Tied to Store/C23Rich.v (CaseR); predicate against an independent reference with MySQL's semantics (statements
// of an IF branch run in sequence; a failing statement leaves nothing behind).
package main

import (
	"encoding/json"
	"fmt"
	"sort"
	"strings"

	"verifharness/lib"
	"verifharness/lib/eng"
)

type SStmt struct {
	K   string `json:"k"` // audit set child
	Tag int64  `json:"tag,omitempty"`
	X   string `json:"x,omitempty"`
	Y   string `json:"y,omitempty"`
	Op  string `json:"op,omitempty"` // add mul const
	C   int64  `json:"c,omitempty"`
}

type BStmt struct {
	K  string  `json:"k"` // s signal if
	S  *SStmt  `json:"s,omitempty"`
	F  string  `json:"f,omitempty"`
	Kk int64   `json:"kk,omitempty"`
	L  []SStmt `json:"l,omitempty"`
}

type RTrig struct {
	Time string  `json:"time"`
	Ev   string  `json:"ev"` // ins upd del t2
	Name string  `json:"name"`
	Body []BStmt `json:"body"`
}

type RStmt struct {
	K    string     `json:"k"` // ins updv updid del
	Rows [][2]int64 `json:"rows,omitempty"`
	C    int64      `json:"c,omitempty"`
	Key  *int64     `json:"key,omitempty"`
}

type richCase struct {
	Rich  bool    `json:"rich"`
	Trigs []RTrig `json:"trigs"`
	H     []RStmt `json:"h"`
}

func rField(ev, f string) string {
	if ev == "t2" {
		return map[string]string{"NewId": "NEW.a", "NewV": "NEW.b"}[f]
	}
	return fieldSQL[f]
}

func (s SStmt) sql(ev string) string {
	switch s.K {
	case "audit":
		return fmt.Sprintf("INSERT INTO audit (tag, x, y) VALUES (%d, %s, %s)", s.Tag, rField(ev, s.X), rField(ev, s.Y))
	case "child":
		return fmt.Sprintf("INSERT INTO t2 (a, b) VALUES (%s, %s)", rField(ev, s.X), rField(ev, s.Y))
	}
	v := rField(ev, "NewV")
	switch s.Op {
	case "add":
		return fmt.Sprintf("SET %s = %s + %d", v, v, s.C)
	case "mul":
		return fmt.Sprintf("SET %s = %s * %d", v, v, s.C)
	}
	return fmt.Sprintf("SET %s = %d", v, s.C)
}

func (s SStmt) coq() string {
	switch s.K {
	case "audit":
		return fmt.Sprintf("SAudit %s %s %s", coqZ(s.Tag), s.X, s.Y)
	case "child":
		return fmt.Sprintf("SChild %s %s", s.X, s.Y)
	}
	return fmt.Sprintf("SSetV (%s %s)", map[string]string{"add": "RAdd", "mul": "RMul", "const": "RConst"}[s.Op], coqZ(s.C))
}

func condField(ev string) string {
	if ev == "del" {
		return "OLD.v"
	}
	return rField(ev, "NewV")
}

func (b BStmt) sql(ev string) string {
	switch b.K {
	case "s":
		return b.S.sql(ev)
	case "signal":
		return fmt.Sprintf("IF %s > %d THEN SIGNAL SQLSTATE '45000' SET MESSAGE_TEXT = 'c23'; END IF", rField(ev, b.F), b.Kk)
	}
	var l []string
	for _, s := range b.L {
		l = append(l, s.sql(ev)+";")
	}
	return fmt.Sprintf("IF %s > %d THEN %s END IF", condField(ev), b.Kk, strings.Join(l, " "))
}

func (b BStmt) coq() string {
	switch b.K {
	case "s":
		return "BS (" + b.S.coq() + ")"
	case "signal":
		return fmt.Sprintf("BSignal %s %s", b.F, coqZ(b.Kk))
	}
	return fmt.Sprintf("BIf %s %s", coqZ(b.Kk), lib.CoqListOf(b.L, func(s SStmt) string { return s.coq() }))
}

func (t RTrig) sql() string {
	var l []string
	for _, b := range t.Body {
		l = append(l, b.sql(t.Ev)+";")
	}
	tbl, ev := "t", evSQL[t.Ev]
	if t.Ev == "t2" {
		tbl, ev = "t2", "INSERT"
	}
	return fmt.Sprintf("CREATE TRIGGER %s %s %s ON %s FOR EACH ROW BEGIN %s END", t.Name, strings.ToUpper(t.Time), ev, tbl, strings.Join(l, " "))
}

func (t RTrig) coq() string {
	return fmt.Sprintf("mkR %s %s", t.Time, lib.CoqListOf(t.Body, func(b BStmt) string { return b.coq() }))
}

func (s RStmt) sql() string {
	switch s.K {
	case "ins":
		var vs []string
		for _, r := range s.Rows {
			vs = append(vs, fmt.Sprintf("(%d, %d)", r[0], r[1]))
		}
		return "INSERT INTO t VALUES " + strings.Join(vs, ", ")
	case "updv":
		q := fmt.Sprintf("UPDATE t SET v = v + %d", s.C)
		if s.Key != nil {
			q += fmt.Sprintf(" WHERE id = %d", *s.Key)
		}
		return q
	case "updid":
		return fmt.Sprintf("UPDATE t SET id = id + %d WHERE v >= %d", s.C, *s.Key)
	}
	return fmt.Sprintf("DELETE FROM t WHERE id >= %d", *s.Key)
}

func (s RStmt) coq() string {
	switch s.K {
	case "ins":
		return "RIns " + lib.CoqListOf(s.Rows, func(r [2]int64) string { return fmt.Sprintf("R %s %s", coqZ(r[0]), coqZ(r[1])) })
	case "updv":
		k := "None"
		if s.Key != nil {
			k = "(Some " + coqZ(*s.Key) + "%Z)"
		}
		return fmt.Sprintf("RUpdV %s %s", coqZ(s.C), k)
	case "updid":
		return fmt.Sprintf("RUpdId %s %s", coqZ(s.C), coqZ(*s.Key))
	}
	return "RDel " + coqZ(*s.Key)
}

func (s RStmt) ev() string {
	switch s.K {
	case "ins":
		return "ins"
	case "del":
		return "del"
	}
	return "upd"
}

// ---- reference: MySQL semantics ----

type refRun struct {
	trigs  []RTrig
	audit  []entry
	t2     [][2]int64
	failed bool
}

func (rr *refRun) of(ev, time string) []RTrig {
	var l []RTrig
	for _, t := range rr.trigs {
		if t.Ev == ev && t.Time == time {
			l = append(l, t)
		}
	}
	return l
}

func (rr *refRun) stmt(s SStmt, ev string, old, nw [2]int64) [2]int64 {
	switch s.K {
	case "audit":
		rr.audit = append(rr.audit, entry{s.Tag, val(s.X, old, nw), val(s.Y, old, nw)})
	case "child":
		row := [2]int64{val(s.X, old, nw), val(s.Y, old, nw)}
		for _, t := range rr.of("t2", "Before") {
			row = rr.body(t, row, row)
		}
		rr.t2 = append(rr.t2, row)
		for _, t := range rr.of("t2", "After") {
			rr.body(t, row, row)
		}
	default:
		switch s.Op {
		case "add":
			nw[1] += s.C
		case "mul":
			nw[1] *= s.C
		default:
			nw[1] = s.C
		}
	}
	return nw
}

func (rr *refRun) body(t RTrig, old, nw [2]int64) [2]int64 {
	for _, b := range t.Body {
		if rr.failed {
			break
		}
		switch b.K {
		case "s":
			nw = rr.stmt(*b.S, t.Ev, old, nw)
		case "signal":
			if val(b.F, old, nw) > b.Kk {
				rr.failed = true
			}
		default:
			if nw[1] > b.Kk {
				for _, s := range b.L {
					nw = rr.stmt(s, t.Ev, old, nw)
				}
			}
		}
	}
	return nw
}

// a SET that is not the last statement of its IF branch (the engine takes the branch's row from its last statement)
func ifSetNotLast(trigs []RTrig, ev string) bool {
	child := false
	bad := func(t RTrig) bool {
		for _, b := range t.Body {
			if b.K == "s" && b.S.K == "child" {
				child = true
			}
			for i, s := range b.L {
				if s.K == "child" {
					child = true
				}
				if s.K == "set" && i < len(b.L)-1 {
					return true
				}
			}
		}
		return false
	}
	for _, t := range trigs {
		if t.Ev == ev && bad(t) {
			return true
		}
	}
	if child {
		for _, t := range trigs {
			if t.Ev == "t2" && bad(t) {
				return true
			}
		}
	}
	return false
}

// ---- generator ----

func genRich(r *lib.RNG) richCase {
	c := richCase{Rich: true}
	tag := int64(0)
	genS := func(ev, time string, allowChild bool) SStmt {
		fs := []string{"NewId", "NewV"}
		if ev == "upd" {
			fs = []string{"OldId", "OldV", "NewId", "NewV", "NewV"}
		} else if ev == "del" {
			fs = []string{"OldId", "OldV"}
		}
		x := r.Intn(8)
		switch {
		case x < 2 && time == "Before" && ev != "del":
			op := lib.Pick(r, []string{"add", "mul", "const"})
			cv := int64(r.Range(1, 6))
			if op == "mul" {
				cv = 2
			}
			return SStmt{K: "set", Op: op, C: cv}
		case x < 4 && allowChild && ev != "t2":
			return SStmt{K: "child", X: lib.Pick(r, fs), Y: lib.Pick(r, fs)}
		}
		tag++
		return SStmt{K: "audit", Tag: tag, X: lib.Pick(r, fs), Y: lib.Pick(r, fs)}
	}
	nTrig := 0
	for _, ev := range []string{"ins", "upd", "del", "t2"} {
		n := r.Intn(4)
		if ev == "t2" {
			n = r.Intn(3)
		}
		for i := 0; i < n; i++ {
			nTrig++
			t := RTrig{Time: lib.Pick(r, []string{"Before", "After"}), Ev: ev, Name: fmt.Sprintf("r%d", nTrig)}
			for j, m := 0, r.Range(1, 3); j < m; j++ {
				x := r.Intn(20)
				switch {
				case x < 3 && ev != "t2":
					f := "NewV"
					if ev == "del" {
						f = "OldV"
					}
					t.Body = append(t.Body, BStmt{K: "signal", F: f, Kk: int64(r.Range(8, 40))})
				case x < 8:
					b := BStmt{K: "if", Kk: int64(r.Range(1, 12))}
					for a, nb := 0, r.Range(1, 3); a < nb; a++ {
						// no nested INSERT inside an IF branch: validateNoCircularUpdates then takes the branch for a
						// statement on audit (getTableName returns the last table of the node) and rejects the chain
						b.L = append(b.L, genS(ev, t.Time, false))
					}
					// a SET before the end of the branch is the known defect: keep it in one case out of three only
					last := len(b.L) - 1
					for a := 0; a < last; a++ {
						if b.L[a].K == "set" && !r.Chance(1, 3) {
							b.L[a], b.L[last] = b.L[last], b.L[a]
						}
					}
					// the model does not cover a branch with a SET that ends in the nested INSERT
					hasSet := false
					for _, s := range b.L {
						hasSet = hasSet || s.K == "set"
					}
					if hasSet && b.L[last].K != "set" && ev != "ins" {
						// outside INSERT triggers on t the row is wider than (x, y): the engine fails with "unable to find
						// field"; keep the SET last there (SET; SET stays possible)
						for a := 0; a < last; a++ {
							if b.L[a].K == "set" {
								b.L[a], b.L[last] = b.L[last], b.L[a]
								break
							}
						}
					}
					t.Body = append(t.Body, b)
				default:
					s := genS(ev, t.Time, true)
					t.Body = append(t.Body, BStmt{K: "s", S: &s})
				}
			}
			c.Trigs = append(c.Trigs, t)
		}
	}
	next := int64(1)
	for i, n := 0, r.Range(3, 6); i < n; i++ {
		switch x := r.Intn(12); {
		case x < 5 || next == 1:
			s := RStmt{K: "ins"}
			for j, m := 0, r.Range(1, 3); j < m; j++ {
				id := next
				next++
				if r.Chance(1, 8) && id > 1 {
					id = int64(r.Range(1, int(id)-1))
				}
				s.Rows = append(s.Rows, [2]int64{id, int64(r.Range(1, 9))})
			}
			c.H = append(c.H, s)
		case x < 8:
			s := RStmt{K: "updv", C: int64(r.Range(1, 5))}
			if r.Chance(1, 2) {
				s.Key = ip(int64(r.Range(1, int(next))))
			}
			c.H = append(c.H, s)
		case x < 10:
			c.H = append(c.H, RStmt{K: "updid", C: lib.Pick(r, []int64{1, 10, 10, 100, -1}), Key: ip(int64(r.Range(1, 12)))})
		default:
			c.H = append(c.H, RStmt{K: "del", Key: ip(int64(r.Range(1, int(next))))})
		}
	}
	return c
}

// ---- running ----

func eq2(a, b [][2]int64) bool {
	if len(a) != len(b) {
		return false
	}
	for i := range a {
		if a[i] != b[i] {
			return false
		}
	}
	return true
}

func runRich(c *lib.Ctx, cs richCase) {
	e := eng.New("db")
	s := e.Session()
	s.MustExec("CREATE TABLE t (id INT PRIMARY KEY, v INT)", "CREATE TABLE t2 (k INT PRIMARY KEY AUTO_INCREMENT, a INT, b INT)",
		"CREATE TABLE audit (k INT PRIMARY KEY AUTO_INCREMENT, tag INT, x INT, y INT)")
	type failT struct{ sig, what string }
	var fails []failT
	fail := func(sig, what string) { fails = append(fails, failT{sig, what}) }
	for _, t := range cs.Trigs {
		s.MustExec(t.sql())
	}
	read2 := func(q string) ([][2]int64, bool) {
		r := s.Query(q)
		out := [][2]int64{}
		if r.Err != nil || r.Panic != "" {
			return out, false
		}
		for _, row := range r.Rows {
			if len(row) != 2 || row[0] == nil || row[1] == nil {
				return out, false
			}
			out = append(out, [2]int64{toI(row[0]), toI(row[1])})
		}
		return out, true
	}
	var events []string
	prev := [][2]int64{}
	nFired := 0
	for si, st := range cs.H {
		s.MustExec("DELETE FROM audit", "DELETE FROM t2")
		q := st.sql()
		r := s.Query(q)
		failed := r.Err != nil
		ev := st.ev()
		if r.Panic != "" {
			fail("panic/rich-"+ev, q+" panicked: "+r.Panic)
			break
		}
		cur, okT := read2("SELECT id, v FROM t ORDER BY id")
		ch, okC := read2("SELECT a, b FROM t2 ORDER BY k")
		ar := s.Query("SELECT tag, x, y FROM audit ORDER BY k")
		if !okT || !okC || ar.Err != nil {
			fail("table-unreadable-after-statement/"+ev, fmt.Sprintf("statement %d %s: t / t2 / audit cannot be read back", si, q))
			break
		}
		var log []entry
		for _, row := range ar.Rows {
			log = append(log, entry{toI(row[0]), toI(row[1]), toI(row[2])})
		}
		nFired += len(log) + len(ch)
		r2 := func(r [2]int64) string { return fmt.Sprintf("R %s %s", coqZ(r[0]), coqZ(r[1])) }
		events = append(events, fmt.Sprintf("EvR (%s) %s %s %s %s", st.coq(), lib.CoqBool(failed), lib.CoqListOf(cur, r2),
			lib.CoqListOf(log, func(e entry) string { return fmt.Sprintf("E %s %s %s", coqZ(e[0]), coqZ(e[1]), coqZ(e[2])) }), lib.CoqListOf(ch, r2)))

		// reference
		rr := &refRun{trigs: cs.Trigs}
		tb := append([][2]int64{}, prev...)
		var aff [][2][2]int64
		switch st.K {
		case "ins":
			for _, row := range st.Rows {
				aff = append(aff, [2][2]int64{row, row})
			}
		case "updv":
			for _, row := range prev {
				if st.Key == nil || row[0] == *st.Key {
					aff = append(aff, [2][2]int64{row, {row[0], row[1] + st.C}})
				}
			}
		case "updid":
			for _, row := range prev {
				if row[1] >= *st.Key {
					aff = append(aff, [2][2]int64{row, {row[0] + st.C, row[1]}})
				}
			}
		default:
			for _, row := range prev {
				if row[0] >= *st.Key {
					aff = append(aff, [2][2]int64{row, row})
				}
			}
		}
		phase := ""
		for _, p := range aff {
			old, nw := p[0], p[1]
			for _, t := range rr.of(ev, "Before") {
				nw = rr.body(t, old, nw)
			}
			if rr.failed {
				phase = "before"
				break
			}
			// the row operation
			var nt [][2]int64
			dup := false
			for _, x := range tb {
				if ev != "ins" && x[0] == old[0] {
					continue
				}
				if ev != "del" && x[0] == nw[0] {
					dup = true
				}
				nt = append(nt, x)
			}
			if dup {
				rr.failed, phase = true, "rowop"
				break
			}
			if ev != "del" {
				nt = append(nt, nw)
			}
			sort.Slice(nt, func(i, j int) bool { return nt[i][0] < nt[j][0] })
			tb = nt
			for _, t := range rr.of(ev, "After") {
				rr.body(t, old, nw)
			}
			if rr.failed {
				phase = "after"
				break
			}
		}
		ifBad := ifSetNotLast(cs.Trigs, ev)
		ifSig := "if-branch-set-not-last"
		switch {
		case rr.failed != failed:
			sig := "statement-outcome-differs/rich-" + ev
			if ifBad {
				sig = ifSig
			}
			fail(sig, fmt.Sprintf("statement %d %s: failed=%v (%v), reference failed=%v", si, q, failed, r.Err, rr.failed))
		case failed:
			if k := eng.ErrKind(r.Err); k != "dup-key" && !strings.Contains(r.Err.Error(), "c23") {
				fail("unexpected-error/rich-"+ev, fmt.Sprintf("%s failed: %v", q, r.Err))
			}
			if !eq2(cur, prev) {
				sig := "failed-statement-changed-table/rich-" + ev
				if phase == "after" {
					// root cause: the AFTER trigger runs outside the DML node, whose editor has already committed the row
					sig = "after-trigger-failure-keeps-row-changes"
				} else if ifBad {
					sig = ifSig
				}
				fail(sig, fmt.Sprintf("statement %d %s failed (%v, in the %s phase) but t changed from %v to %v", si, q, r.Err, phase, prev, cur))
			}
			if len(log) > 0 || len(ch) > 0 {
				fail("audit-rows-survive-failed-statement/"+ev, fmt.Sprintf("statement %d %s failed (%v) but %d audit row(s) and %d t2 row(s) written by its triggers remain: %v %v", si, q, r.Err, len(log), len(ch), log, ch))
			}
		default:
			same := eq2(cur, tb) && eq2(ch, rr.t2) && len(log) == len(rr.audit)
			for i := 0; same && i < len(log); i++ {
				same = log[i] == rr.audit[i]
			}
			if !same {
				sig := "rich-result-differs/" + ev
				if ifBad {
					sig = ifSig
				}
				fail(sig, fmt.Sprintf("statement %d %s: t %v audit %v t2 %v; prescribed t %v audit %v t2 %v", si, q, cur, log, ch, tb, rr.audit, rr.t2))
			}
		}
		prev = cur
	}
	byEv := map[string][]string{}
	for _, t := range cs.Trigs {
		byEv[t.Ev] = append(byEv[t.Ev], t.coq())
		c.Count("rich-trigger/" + t.Time + "-" + t.Ev)
		for _, b := range t.Body {
			k := b.K
			if b.K == "s" {
				k = b.S.K
			}
			c.Count("rich-body/" + k)
		}
	}
	for _, st := range cs.H {
		c.Count("rich-stmt/" + st.K)
	}
	key := ""
	if nFired > 0 {
		kb, _ := json.Marshal(cs)
		key = string(kb)
	}
	term := fmt.Sprintf("CaseR %s %s %s %s %s", lib.CoqList(byEv["ins"]), lib.CoqList(byEv["upd"]), lib.CoqList(byEv["del"]), lib.CoqList(byEv["t2"]), lib.CoqList(events))
	id := c.Case(term, cs, key)
	c.PredChecked()
	seen := map[string]bool{}
	for _, f := range fails {
		if !seen[f.sig] {
			seen[f.sig] = true
			c.PredFail(id, f.sig, f.what, cs)
		}
	}
}

func sp(s SStmt) *SStmt { return &s }

var richCorpus = []richCase{
	// known finding: a SET NEW.v before the end of an IF branch is lost (stored 9, logged 9; MySQL 5 and 5)
	{Rich: true, Trigs: []RTrig{{Time: "Before", Ev: "ins", Name: "r1", Body: []BStmt{{K: "if", Kk: 5, L: []SStmt{{K: "set", Op: "const", C: 5}, {K: "audit", Tag: 1, X: "NewId", Y: "NewV"}}}}}},
		H: []RStmt{{K: "ins", Rows: [][2]int64{{1, 3}}}, {K: "ins", Rows: [][2]int64{{2, 9}}}}},
	// known finding: an AFTER trigger that fails leaves the rows written so far (INSERT / UPDATE / DELETE)
	{Rich: true, Trigs: []RTrig{{Time: "After", Ev: "ins", Name: "r1", Body: []BStmt{{K: "signal", F: "NewV", Kk: 5}}},
		{Time: "After", Ev: "upd", Name: "r2", Body: []BStmt{{K: "signal", F: "NewV", Kk: 4}}},
		{Time: "After", Ev: "del", Name: "r3", Body: []BStmt{{K: "s", S: sp(SStmt{K: "audit", Tag: 1, X: "OldId", Y: "OldV"})}, {K: "signal", F: "OldV", Kk: 3}}}},
		H: []RStmt{{K: "ins", Rows: [][2]int64{{1, 3}, {2, 9}, {3, 1}}}, {K: "ins", Rows: [][2]int64{{4, 4}}}, {K: "updv", C: 1}, {K: "del", Key: ip(1)}}},
	// BEFORE trigger SIGNAL in UPDATE and DELETE: t restored, audit rows stay (known finding)
	{Rich: true, Trigs: []RTrig{{Time: "Before", Ev: "upd", Name: "r1", Body: []BStmt{{K: "s", S: sp(SStmt{K: "audit", Tag: 1, X: "OldV", Y: "NewV"})}, {K: "signal", F: "NewV", Kk: 5}}},
		{Time: "Before", Ev: "del", Name: "r2", Body: []BStmt{{K: "s", S: sp(SStmt{K: "audit", Tag: 2, X: "OldId", Y: "OldV"})}, {K: "signal", F: "OldV", Kk: 4}}}},
		H: []RStmt{{K: "ins", Rows: [][2]int64{{1, 4}, {2, 5}}}, {K: "updv", C: 1}, {K: "del", Key: ip(1)}}},
	// nested chain of depth 2, primary key update
	{Rich: true, Trigs: []RTrig{{Time: "Before", Ev: "ins", Name: "r1", Body: []BStmt{{K: "s", S: sp(SStmt{K: "audit", Tag: 1, X: "NewId", Y: "NewV"})}, {K: "s", S: sp(SStmt{K: "child", X: "NewId", Y: "NewV"})}}},
		{Time: "After", Ev: "ins", Name: "r2", Body: []BStmt{{K: "s", S: sp(SStmt{K: "audit", Tag: 2, X: "NewId", Y: "NewV"})}}},
		{Time: "After", Ev: "upd", Name: "r3", Body: []BStmt{{K: "s", S: sp(SStmt{K: "child", X: "OldId", Y: "NewId"})}}},
		{Time: "Before", Ev: "t2", Name: "r4", Body: []BStmt{{K: "s", S: sp(SStmt{K: "audit", Tag: 11, X: "NewId", Y: "NewV"})}, {K: "s", S: sp(SStmt{K: "set", Op: "add", C: 1})}}},
		{Time: "After", Ev: "t2", Name: "r5", Body: []BStmt{{K: "s", S: sp(SStmt{K: "audit", Tag: 12, X: "NewId", Y: "NewV"})}}}},
		H: []RStmt{{K: "ins", Rows: [][2]int64{{1, 3}, {2, 9}}}, {K: "updid", C: 10, Key: ip(1)}, {K: "updid", C: 1, Key: ip(1)}}},
}
