// Fixed scripts for C23: statements outside the modelled fragment whose trigger behaviour was reported by seeding agents
// and confirmed on the engine.  Implementation-side predicate only: the final query must return what MySQL prescribes.
package main

import (
	"fmt"

	"verifharness/lib"
	"verifharness/lib/eng"
)

type scriptCase struct {
	Script bool     `json:"script"`
	Sig    string   `json:"sig"`
	SQL    []string `json:"sql"`
	Query  string   `json:"query"`
	Want   string   `json:"want"`
}

const sixTriggers = "CREATE TRIGGER bi BEFORE INSERT ON t FOR EACH ROW INSERT INTO audit (tag,x,y) VALUES (1, NEW.id, NEW.v)|" +
	"CREATE TRIGGER ai AFTER INSERT ON t FOR EACH ROW INSERT INTO audit (tag,x,y) VALUES (2, NEW.id, NEW.v)|" +
	"CREATE TRIGGER bu BEFORE UPDATE ON t FOR EACH ROW INSERT INTO audit (tag,x,y) VALUES (3, OLD.v, NEW.v)|" +
	"CREATE TRIGGER au AFTER UPDATE ON t FOR EACH ROW INSERT INTO audit (tag,x,y) VALUES (4, OLD.v, NEW.v)|" +
	"CREATE TRIGGER bd BEFORE DELETE ON t FOR EACH ROW INSERT INTO audit (tag,x,y) VALUES (5, OLD.id, OLD.v)|" +
	"CREATE TRIGGER ad AFTER DELETE ON t FOR EACH ROW INSERT INTO audit (tag,x,y) VALUES (6, OLD.id, OLD.v)"

var scriptCorpus = []scriptCase{
	{Script: true, Sig: "update-with-subquery-filter-fires-no-triggers",
		SQL: []string{"CREATE TABLE t (id INT PRIMARY KEY, v INT)", "CREATE TABLE audit (k INT PRIMARY KEY AUTO_INCREMENT, tag INT, x INT, y INT)",
			"CREATE TABLE s (id INT PRIMARY KEY)", "INSERT INTO t VALUES (1,1),(2,2),(3,3)", "INSERT INTO s VALUES (1),(3)",
			"CREATE TRIGGER tr1 BEFORE UPDATE ON t FOR EACH ROW INSERT INTO audit (tag,x,y) VALUES (1, OLD.v, NEW.v)",
			"CREATE TRIGGER tr2 AFTER UPDATE ON t FOR EACH ROW INSERT INTO audit (tag,x,y) VALUES (2, OLD.v, NEW.v)",
			"UPDATE t SET v = v + 10 WHERE id IN (SELECT id FROM s)"},
		Query: "SELECT tag, x, y FROM audit ORDER BY k", Want: "[1,1,11 2,1,11 1,3,13 2,3,13]"},
	{Script: true, Sig: "on-duplicate-key-update-fires-after-insert-instead-of-update-triggers",
		SQL: []string{"CREATE TABLE t (id INT PRIMARY KEY, v INT)", "CREATE TABLE audit (k INT PRIMARY KEY AUTO_INCREMENT, tag INT, x INT, y INT)",
			"INSERT INTO t VALUES (1,1),(2,2)", sixTriggers, "INSERT INTO t VALUES (1, 50), (3, 3) ON DUPLICATE KEY UPDATE v = v + 100"},
		Query: "SELECT tag, x, y FROM audit ORDER BY k", Want: "[1,1,50 3,1,101 4,1,101 1,3,3 2,3,3]"},
	{Script: true, Sig: "replace-after-insert-trigger-sees-wrong-row",
		SQL: []string{"CREATE TABLE t (id INT PRIMARY KEY, v INT)", "CREATE TABLE audit (k INT PRIMARY KEY AUTO_INCREMENT, tag INT, x INT, y INT)",
			"INSERT INTO t VALUES (1,1),(2,2)", sixTriggers, "REPLACE INTO t VALUES (2, 70), (4, 4)"},
		Query: "SELECT tag, x, y FROM audit ORDER BY k", Want: "[1,2,70 5,2,2 6,2,2 2,2,70 1,4,4 2,4,4]"},
	{Script: true, Sig: "nested-update-with-set-new-trigger-replaces-outer-row",
		SQL: []string{"CREATE TABLE t (id INT PRIMARY KEY, v INT)", "CREATE TABLE t2 (id INT PRIMARY KEY, v INT)",
			"INSERT INTO t VALUES (1,1),(2,2),(3,3)", "INSERT INTO t2 VALUES (1,10),(2,20),(3,30)",
			"CREATE TRIGGER b2 BEFORE UPDATE ON t2 FOR EACH ROW SET NEW.v = NEW.v + 1000",
			"CREATE TRIGGER bd BEFORE DELETE ON t FOR EACH ROW BEGIN UPDATE t2 SET v = v + OLD.v WHERE id = 1; END",
			"DELETE FROM t WHERE id = 2"},
		Query: "SELECT id, v FROM t ORDER BY id", Want: "[1,1 3,3]"},
}

func runScript(c *lib.Ctx, sc scriptCase) {
	e := eng.New("db")
	s := e.Session()
	what := ""
	for _, q := range sc.SQL {
		for _, one := range splitBar(q) {
			if r := s.Query(one); r.Err != nil || r.Panic != "" {
				what = fmt.Sprintf("%s failed: %v %s", one, r.Err, r.Panic)
			}
		}
	}
	r := s.Query(sc.Query)
	got := fmt.Sprint(eng.Rows(r.Rows))
	if what == "" && (r.Err != nil || r.Panic != "" || got != sc.Want) {
		what = fmt.Sprintf("after %q: %s returns %s (err %v %s), MySQL prescribes %s", sc.SQL[len(sc.SQL)-1], sc.Query, got, r.Err, r.Panic, sc.Want)
	}
	c.Count("script/" + sc.Sig)
	id := c.CaseNoModel(sc, sc.Sig)
	c.PredChecked()
	if what != "" {
		c.PredFail(id, sc.Sig, what, sc)
	}
}

func splitBar(q string) []string {
	var out []string
	cur := ""
	for _, ch := range q {
		if ch == '|' {
			out = append(out, cur)
			cur = ""
		} else {
			cur += string(ch)
		}
	}
	return append(out, cur)
}
