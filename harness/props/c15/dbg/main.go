package main

import (
	"fmt"

	"github.com/dolthub/go-mysql-server/memory"
	"verifharness/lib/eng"
)

func main() {
	for _, stmt := range []string{
		"UPDATE t SET c = 9 WHERE a >= 0",
		"UPDATE t SET pk = pk + 10 WHERE a >= 0",
		"INSERT INTO t VALUES (20, 1, 'x', 1), (21, 1, 'y', 2)",
		"DELETE FROM t WHERE a = 1",
		"REPLACE INTO t VALUES (1, 2, NULL, 8), (30, 0, NULL, 9)",
	} {
		for n := int64(0); n <= 3; n++ {
			e := eng.New("db")
			s := e.Session()
			s.MustExec("CREATE TABLE t (pk BIGINT PRIMARY KEY, a BIGINT NOT NULL, b VARCHAR(8), c BIGINT, UNIQUE KEY ub (b), KEY ia (a))",
				"INSERT INTO t VALUES (1, 1, 'a', 5), (2, 1, 'b', 6), (3, 2, NULL, 7)")
			memory.VerifC15ResetApplyFault(n)
			r := s.Query(stmt)
			calls := memory.VerifC15ApplyCalls()
			memory.VerifC15ResetApplyFault(0)
			r2 := s.Query("SELECT * FROM t")
			r3 := s.Query("SELECT pk FROM t WHERE a >= 0")
			fmt.Printf("%-55s n=%d calls=%d err=%v\n    rows=%v\n    idx =%v\n", stmt, n, calls, r.Err, eng.Bag(r2.Rows), eng.Bag(r3.Rows))
		}
	}
}
