// Driver for C15 (a failed data-modifying statement has no effect; a successful one applies all of its row changes).
//
// A case is (setup, statement, fault position k).  The setup builds a table t with a primary key, a NOT NULL column, a
// UNIQUE index, a secondary index and a CHECK constraint (optionally a BEFORE INSERT trigger writing into table
// audit).  The statement (multi-row INSERT / UPDATE / DELETE / REPLACE) fails naturally at a chosen row (duplicate
// primary key, duplicate unique key, CHECK, NOT NULL, conversion) or runs clean; every statement is additionally
// re-run on a fresh engine with memory.VerifResetFault(k) for every k <= number of row-edit calls it made, and
// (statements that succeed) with memory.VerifC15ResetApplyFault(n) for every ApplyEdits call n it made.
// Predicate on the implementation alone: after an error the table's rows, raw partitions, raw index storage and
// index-driven reads (and the audit table) are what they were before; after success the rows are exactly those the
// driver's own evaluation of the statement predicts; an injected error is never swallowed.
package main

import (
	"fmt"
	"sort"
	"strings"

	"github.com/dolthub/go-mysql-server/memory"
	"github.com/dolthub/go-mysql-server/sql"

	"verifharness/lib"
	"verifharness/lib/eng"
)

type rowT struct {
	PK int64   `json:"pk"`
	A  *int64  `json:"a"`
	B  *string `json:"b"`
	C  *int64  `json:"c"`
}

type stmtT struct {
	Kind  string  `json:"kind"` // insert update delete replace
	SQL   string  `json:"sql"`
	Rows  []rowT  `json:"rows,omitempty"`  // insert / replace rows (the valid reading of each row)
	Bad   int     `json:"bad"`             // 1-based row that is made invalid (0 = none)
	How   string  `json:"how,omitempty"`   // dup-pk dup-unique check not-null conversion
	WPK   []int64 `json:"wpk,omitempty"`   // insert: primary keys as written in the statement (what the trigger sees)
	Where string  `json:"where,omitempty"` // update / delete
	Set   string  `json:"set,omitempty"`   // update: column
	Val   string  `json:"val,omitempty"`   // update: literal
}

type caseT struct {
	Init    []rowT `json:"init"`
	Trigger bool   `json:"trigger"`
	SelfRef bool   `json:"selfref"` // t.c is a self-referential foreign key to t.pk (no UNIQUE / CHECK)
	Signal  bool   `json:"signal"`  // (with Trigger) the trigger body SIGNALs an error for rows with c = 77 before writing the audit row
	FT      bool   `json:"ft"`      // t.b is VARCHAR(32) with a FULLTEXT index (hidden full-text tables); no UNIQUE
	Stmt    stmtT  `json:"stmt"`
	K       int    `json:"k"`  // fault position (0 = none)
	AK      int    `json:"ak"` // ApplyEdits fault: the AK-th ApplyEdits call of the statement fails after its deletes (0 = none)
}

func ip(v int64) *int64   { return &v }
func sp(v string) *string { return &v }

func (r rowT) text() string {
	f := func(p *int64) string {
		if p == nil {
			return "NULL"
		}
		return fmt.Sprint(*p)
	}
	b := "NULL"
	if r.B != nil {
		b = "s:" + *r.B
	}
	return fmt.Sprintf("%d,%s,%s,%s", r.PK, f(r.A), b, f(r.C))
}

func (r rowT) sqlTuple() string {
	f := func(p *int64) string {
		if p == nil {
			return "NULL"
		}
		return fmt.Sprint(*p)
	}
	b := "NULL"
	if r.B != nil {
		b = "'" + *r.B + "'"
	}
	return fmt.Sprintf("(%d, %s, %s, %s)", r.PK, f(r.A), b, f(r.C))
}

func rowFromSQL(r sql.Row) rowT {
	var out rowT
	out.PK = r[0].(int64)
	if r[1] != nil {
		out.A = ip(r[1].(int64))
	}
	if r[2] != nil {
		out.B = sp(r[2].(string))
	}
	if r[3] != nil {
		out.C = ip(r[3].(int64))
	}
	return out
}

func texts(rs []rowT) []string {
	out := make([]string, len(rs))
	for i, r := range rs {
		out[i] = r.text()
	}
	sort.Strings(out)
	return out
}

func eqS(a, b []string) bool {
	if len(a) != len(b) {
		return false
	}
	for i := range a {
		if a[i] != b[i] {
			return false
		}
	}
	return true
}

// ---------- world ----------

type world struct {
	e *eng.E
	s *eng.S
}

func build(cs caseT) *world {
	w := &world{e: eng.New("db")}
	w.s = w.e.Session()
	if cs.FT {
		w.s.MustExec(
			"CREATE TABLE t (pk BIGINT PRIMARY KEY, a BIGINT NOT NULL, b VARCHAR(32), c BIGINT, FULLTEXT KEY fb (b), KEY ia (a), CONSTRAINT ck CHECK (c < 100))",
			"CREATE TABLE audit (v BIGINT)")
	} else if cs.SelfRef {
		w.s.MustExec(
			"CREATE TABLE t (pk BIGINT PRIMARY KEY, a BIGINT NOT NULL, b VARCHAR(8), c BIGINT, KEY ia (a), KEY ic (c), CONSTRAINT fk FOREIGN KEY (c) REFERENCES t(pk))",
			"CREATE TABLE audit (v BIGINT)")
	} else {
		w.s.MustExec(
			"CREATE TABLE t (pk BIGINT PRIMARY KEY, a BIGINT NOT NULL, b VARCHAR(8), c BIGINT, UNIQUE KEY ub (b), KEY ia (a), KEY ica (c, a), CONSTRAINT ck CHECK (c < 100))",
			"CREATE TABLE audit (v BIGINT)")
	}
	if len(cs.Init) > 0 {
		ts := make([]string, len(cs.Init))
		for i, r := range cs.Init {
			ts[i] = r.sqlTuple()
		}
		w.s.MustExec("INSERT INTO t VALUES " + strings.Join(ts, ", "))
	}
	if cs.Trigger {
		if cs.Signal {
			w.s.MustExec("CREATE TRIGGER trg BEFORE INSERT ON t FOR EACH ROW BEGIN IF NEW.c = 77 THEN SIGNAL SQLSTATE '45000' SET MESSAGE_TEXT = 'no 77'; END IF; INSERT INTO audit VALUES (NEW.pk); END")
		} else {
			w.s.MustExec("CREATE TRIGGER trg BEFORE INSERT ON t FOR EACH ROW INSERT INTO audit VALUES (NEW.pk)")
		}
	}
	return w
}

type snapshot struct {
	rows  []rowT
	raw   string   // raw partitions + raw index storage
	reads []string // index-driven reads
	audit []string
}

func (w *world) snap(ft bool) snapshot {
	var sn snapshot
	r := w.s.Query("SELECT * FROM t")
	for _, x := range r.Rows {
		sn.rows = append(sn.rows, rowFromSQL(x))
	}
	ctx := sql.NewContext(w.s.Ctx.Context, sql.WithSession(w.s.Ctx.Session))
	ctx.SetCurrentDatabase("db")
	dbi, _ := w.e.Pro.Database(ctx, "db")
	tb, _, _ := dbi.GetTableInsensitive(ctx, "t")
	st := memory.VerifC16Dump(ctx, tb.(*memory.Table))
	var sb strings.Builder
	for _, k := range st.PartitionKeys {
		fmt.Fprintf(&sb, "P%s:%v;", k, eng.Rows(st.Partitions[k]))
	}
	for _, ix := range st.Indexes {
		es := make([]string, len(ix.Entries))
		for i, e := range ix.Entries {
			es[i] = fmt.Sprintf("%v@%s/%d", e.Key, e.Partition, e.Idx)
		}
		// entries with equal sort keys may legally appear in any order
		sort.Strings(es)
		fmt.Fprintf(&sb, "I%s:%v;", ix.Name, es)
	}
	fmt.Fprintf(&sb, "K%v", st.StorageKeys)
	sn.raw = sb.String()
	for _, q := range []string{"SELECT * FROM t WHERE a >= 0", "SELECT * FROM t WHERE a = 1", "SELECT * FROM t WHERE b >= ''",
		"SELECT * FROM t WHERE b = 'b'", "SELECT * FROM t WHERE c < 50", "SELECT * FROM t WHERE pk >= 3", "SELECT pk FROM t WHERE c = 5 AND a = 1"} {
		rq := w.s.Query(q)
		sn.reads = append(sn.reads, fmt.Sprintf("%s => %v %s", q, eng.Bag(rq.Rows), eng.ErrKind(rq.Err)))
	}
	if ft {
		for _, word := range ftWords {
			rq := w.s.Query(fmt.Sprintf("SELECT pk FROM t WHERE MATCH(b) AGAINST ('%s')", word))
			sn.reads = append(sn.reads, fmt.Sprintf("MATCH %s => %v %s", word, eng.Bag(rq.Rows), eng.ErrKind(rq.Err)))
		}
		rt := w.s.Query("SHOW TABLES")
		for _, tr := range rt.Rows {
			name := fmt.Sprint(tr[0])
			if strings.Contains(strings.ToUpper(name), "_FTS_") {
				rq := w.s.Query("SELECT * FROM `" + name + "`")
				sn.reads = append(sn.reads, fmt.Sprintf("hidden %s => %v %s", name, eng.Bag(rq.Rows), eng.ErrKind(rq.Err)))
			}
		}
	}
	ra := w.s.Query("SELECT * FROM audit")
	sn.audit = eng.Bag(ra.Rows)
	return sn
}

// ---------- the driver's own reading of a statement ----------

type cond struct {
	col, op string
	val     int64
	sval    string
}

func parseCond(w string) cond {
	f := strings.Fields(w)
	c := cond{col: f[0], op: f[1]}
	if strings.HasPrefix(f[2], "'") {
		c.sval = strings.Trim(f[2], "'")
	} else {
		fmt.Sscan(f[2], &c.val)
	}
	return c
}

func (c cond) holds(r rowT) bool {
	cmpI := func(p *int64) (int, bool) {
		if p == nil {
			return 0, false
		}
		switch {
		case *p < c.val:
			return -1, true
		case *p > c.val:
			return 1, true
		}
		return 0, true
	}
	var k int
	var ok bool
	switch c.col {
	case "pk":
		k, ok = cmpI(&r.PK)
	case "a":
		k, ok = cmpI(r.A)
	case "c":
		k, ok = cmpI(r.C)
	case "b":
		if r.B == nil {
			return false
		}
		k, ok = strings.Compare(*r.B, c.sval), true
	}
	if !ok {
		return false
	}
	switch c.op {
	case "=":
		return k == 0
	case "<":
		return k < 0
	case ">=":
		return k >= 0
	}
	return false
}

// one row-edit call of the statement: an accumulated edit (ins del upd), an error the row iterator handles itself
// ("handled": the rejected insert of REPLACE / ON DUPLICATE KEY UPDATE) or an ignorable error ("ign": a duplicate row of
// INSERT IGNORE)
type edit struct {
	kind     string // ins del upd handled ign
	old, new rowT
}

// expected computes, for a statement the driver believes to be valid, the row-edit calls in order.
func expected(before []rowT, st stmtT) []edit {
	var out []edit
	cur := append([]rowT(nil), before...)
	sort.Slice(cur, func(i, j int) bool { return cur[i].PK < cur[j].PK })
	switch st.Kind {
	case "insert":
		for _, r := range st.Rows {
			out = append(out, edit{kind: "ins", new: r})
		}
	case "replace":
		for _, r := range st.Rows {
			for i, x := range cur {
				if x.PK == r.PK {
					out = append(out, edit{kind: "handled"}, edit{kind: "del", old: x})
					cur = append(cur[:i:i], cur[i+1:]...)
					break
				}
			}
			out = append(out, edit{kind: "ins", new: r})
			cur = append(cur, r)
		}
	case "insert-ignore":
		for _, r := range st.Rows {
			dup := false
			for _, x := range cur {
				if x.PK == r.PK || (x.B != nil && r.B != nil && *x.B == *r.B) {
					dup = true
				}
			}
			if dup {
				out = append(out, edit{kind: "ign"})
				continue
			}
			out = append(out, edit{kind: "ins", new: r})
			cur = append(cur, r)
		}
	case "odku":
		for _, r := range st.Rows {
			found := -1
			for i, x := range cur {
				if x.PK == r.PK {
					found = i
				}
			}
			if found < 0 {
				out = append(out, edit{kind: "ins", new: r})
				cur = append(cur, r)
				continue
			}
			out = append(out, edit{kind: "handled"})
			n := cur[found]
			var v int64
			fmt.Sscan(st.Val, &v)
			n.C = ip(v)
			if n.text() != cur[found].text() {
				out = append(out, edit{kind: "upd", old: cur[found], new: n})
				cur[found] = n
			}
		}
	case "delete":
		c := parseCond(st.Where)
		for _, x := range cur {
			if c.holds(x) {
				out = append(out, edit{kind: "del", old: x})
			}
		}
	case "update":
		c := parseCond(st.Where)
		for _, x := range cur {
			if !c.holds(x) {
				continue
			}
			n := x
			switch st.Set {
			case "pk":
				fmt.Sscan(st.Val, &n.PK)
			case "a":
				if st.Val == "NULL" {
					n.A = nil
				} else {
					var v int64
					fmt.Sscan(st.Val, &v)
					n.A = ip(v)
				}
			case "c":
				if st.Val == "NULL" {
					n.C = nil
				} else {
					var v int64
					fmt.Sscan(st.Val, &v)
					n.C = ip(v)
				}
			case "b":
				if st.Val == "NULL" {
					n.B = nil
				} else {
					n.B = sp(strings.Trim(st.Val, "'"))
				}
			}
			if n.text() != x.text() {
				out = append(out, edit{kind: "upd", old: x, new: n})
			}
		}
	}
	return out
}

func applyEdits(before []rowT, es []edit) []rowT {
	cur := append([]rowT(nil), before...)
	rm := func(r rowT) {
		for i, x := range cur {
			if x.text() == r.text() {
				cur = append(cur[:i:i], cur[i+1:]...)
				return
			}
		}
	}
	for _, e := range es {
		switch e.kind {
		case "ins":
			cur = append(cur, e.new)
		case "del":
			rm(e.old)
		case "upd":
			rm(e.old)
			cur = append(cur, e.new)
		}
	}
	return cur
}

// violates reports whether the edits, applied in order, break a constraint of t (so the statement must fail),
// and how many calls succeed before the failing one.
func violates(before []rowT, es []edit, selfRef, ft bool) (bool, int) {
	cur := append([]rowT(nil), before...)
	for i, e := range es {
		if e.kind == "handled" || e.kind == "ign" {
			continue
		}
		if e.kind == "del" {
			cur = applyEdits(cur, []edit{e})
			continue
		}
		n := e.new
		rest := cur
		if e.kind == "upd" {
			rest = applyEdits(cur, []edit{{kind: "del", old: e.old}})
		}
		if n.A == nil || (!selfRef && n.C != nil && *n.C >= 100) {
			return true, i
		}
		parent := n.C == nil || *n.C == n.PK
		for _, x := range rest {
			if x.PK == n.PK || (!selfRef && !ft && x.B != nil && n.B != nil && *x.B == *n.B) {
				return true, i
			}
			if n.C != nil && x.PK == *n.C {
				parent = true
			}
		}
		if selfRef && !parent {
			return true, i
		}
		cur = append(rest, n)
	}
	return false, len(es)
}

// ---------- Coq terms ----------

func coqRowT(r rowT) string { return lib.CoqStr(r.text()) }
func coqRowsT(rs []rowT) string {
	return lib.CoqListOf(rs, coqRowT)
}
func coqEdit(e edit) string {
	switch e.kind {
	case "handled":
		return "KHandled"
	case "ign":
		return "KIgn"
	}
	return "(KGood " + coqEdit1(e) + ")"
}

func coqEdit1(e edit) string {
	switch e.kind {
	case "ins":
		return "(EIns " + coqRowT(e.new) + ")"
	case "del":
		return "(EDel " + coqRowT(e.old) + ")"
	}
	return "(EUpd " + coqRowT(e.old) + " " + coqRowT(e.new) + ")"
}

// ---------- generator ----------

var bs = []string{"a", "b", "c", "d", "e", "f", "g", "h"}

var ftWords = []string{"red", "blue", "grey", "fox", "cat", "owl"}
var ftDocs = []string{"red fox", "blue fox", "red cat", "grey owl", "blue cat owl", "fox fox red"}

func genRow(r *lib.RNG, pk int64) rowT {
	row := rowT{PK: pk, A: ip(int64(r.Intn(3)))}
	if r.Chance(3, 4) {
		row.C = ip(int64(r.Intn(60)))
	}
	return row
}

func gen(r *lib.RNG) caseT {
	var cs caseT
	n := r.Range(2, 6)
	usedB := map[string]bool{}
	freshB := func() *string {
		for try := 0; try < 20; try++ {
			b := lib.Pick(r, bs)
			if !usedB[b] {
				usedB[b] = true
				return sp(b)
			}
		}
		return nil
	}
	pks := r.Intn(3)
	for i := 0; i < n; i++ {
		row := genRow(r, int64(pks))
		pks += r.Range(1, 2)
		if r.Chance(2, 3) {
			row.B = freshB()
		}
		cs.Init = append(cs.Init, row)
	}
	st := &cs.Stmt
	if r.Chance(1, 8) {
		// self-referential foreign key: rows referencing rows of the same statement make the editor apply its pending
		// edits in the middle of the statement (tableEditor.IndexedAccess)
		cs.SelfRef = true
		for i := range cs.Init {
			cs.Init[i].B = nil
			cs.Init[i].C = nil
			cs.Init[i].PK += 10
		}
		for i := range cs.Init {
			if i > 0 && r.Bool() {
				cs.Init[i].C = ip(cs.Init[r.Intn(i)].PK)
			}
		}
		st.Kind = "insert"
		m := r.Range(2, 4)
		tuples := make([]string, m)
		for i := 0; i < m; i++ {
			row := rowT{PK: int64(i + r.Intn(2)*30 + 1), A: ip(int64(r.Intn(3)))}
			if i > 0 && row.PK == st.Rows[i-1].PK {
				row.PK++
			}
			switch r.Intn(3) {
			case 0:
				row.C = ip(lib.Pick(r, cs.Init).PK)
			case 1:
				if i > 0 {
					row.C = ip(st.Rows[r.Intn(i)].PK)
				}
			}
			st.Rows = append(st.Rows, row)
			st.WPK = append(st.WPK, row.PK)
			tuples[i] = row.sqlTuple()
		}
		if r.Chance(3, 4) {
			st.Bad, st.How = m, "fk"
			b := st.Rows[m-1]
			b.C = ip(999)
			tuples[m-1] = b.sqlTuple()
		}
		st.SQL = "INSERT INTO t VALUES " + strings.Join(tuples, ", ")
		if r.Chance(1, 3) {
			st.Kind = "replace" // fresh keys: same row edits, the failure is the foreign key, not a duplicate
			st.SQL = "REPLACE INTO t VALUES " + strings.Join(tuples, ", ")
		}
		return cs
	}
	if r.Chance(1, 8) {
		// FULLTEXT index: every row edit also edits the hidden full-text tables, which must be restored as well
		cs.FT = true
		for i := range cs.Init {
			cs.Init[i].B = nil
			if r.Chance(3, 4) {
				cs.Init[i].B = sp(lib.Pick(r, ftDocs))
			}
		}
		if r.Bool() {
			st.Kind = "insert"
			m := r.Range(2, 3)
			tuples := make([]string, m)
			for i := 0; i < m; i++ {
				row := genRow(r, int64(20+2*i))
				row.B = sp(lib.Pick(r, ftDocs))
				st.Rows = append(st.Rows, row)
				st.WPK = append(st.WPK, row.PK)
				tuples[i] = row.sqlTuple()
			}
			if r.Chance(3, 4) {
				st.Bad = r.Range(2, m)
				b := st.Rows[st.Bad-1]
				switch st.How = lib.Pick(r, []string{"dup-pk", "check", "not-null"}); st.How {
				case "dup-pk":
					b.PK = lib.Pick(r, cs.Init).PK
				case "check":
					b.C = ip(int64(100 + r.Intn(50)))
				default:
					b.A = nil
				}
				tuples[st.Bad-1] = b.sqlTuple()
			}
			st.SQL = "INSERT INTO t VALUES " + strings.Join(tuples, ", ")
		} else {
			st.Kind = "update"
			st.Where = lib.Pick(r, []string{"a >= 0", "pk >= 2", "a < 2"})
			switch r.Intn(4) {
			case 0:
				st.Set, st.Val = "b", "'grey owl fox'"
			case 1:
				st.Set, st.Val = "pk", fmt.Sprint(50+r.Intn(5)) // duplicate key at the second changed row
			case 2:
				st.Set, st.Val = "c", fmt.Sprint(100+r.Intn(20))
			default:
				st.Set, st.Val = "b", "NULL"
			}
			st.SQL = fmt.Sprintf("UPDATE t SET %s = %s WHERE %s", st.Set, st.Val, st.Where)
		}
		return cs
	}
	switch k := r.Intn(12); {
	case k < 5: // insert, possibly with a trigger
		st.Kind = "insert"
		cs.Trigger = r.Chance(1, 3)
		cs.Signal = cs.Trigger && r.Chance(1, 2)
		m := r.Range(1, 4)
		next := int64(20)
		for i := 0; i < m; i++ {
			row := genRow(r, next)
			next += int64(r.Range(1, 3))
			if r.Bool() {
				row.B = freshB()
			}
			st.Rows = append(st.Rows, row)
		}
		tuples := make([]string, m)
		for i, row := range st.Rows {
			tuples[i] = row.sqlTuple()
			st.WPK = append(st.WPK, row.PK)
		}
		if r.Chance(2, 3) {
			st.Bad = r.Range(1, m)
			st.How = lib.Pick(r, []string{"dup-pk", "dup-pk-in-stmt", "dup-unique", "check", "not-null", "conversion"})
			if cs.Signal && r.Chance(2, 3) {
				st.How = "signal"
			}
			b := st.Rows[st.Bad-1]
			switch st.How {
			case "dup-pk":
				b.PK = lib.Pick(r, cs.Init).PK
			case "dup-pk-in-stmt":
				if st.Bad > 1 {
					b.PK = st.Rows[0].PK
				} else {
					b.PK = cs.Init[0].PK
				}
			case "dup-unique":
				var have *string
				for _, x := range cs.Init {
					if x.B != nil {
						have = x.B
					}
				}
				if have == nil {
					b.PK = cs.Init[0].PK
				} else {
					b.B = have
				}
			case "check":
				b.C = ip(int64(100 + r.Intn(50)))
			case "not-null":
				b.A = nil
			case "signal":
				b.C = ip(77) // the trigger body raises an error for this row
			}
			tuples[st.Bad-1] = b.sqlTuple()
			st.WPK[st.Bad-1] = b.PK
			if st.How == "conversion" {
				tuples[st.Bad-1] = fmt.Sprintf("(%d, 'xyz', NULL, 1)", b.PK)
			}
		}
		st.SQL = "INSERT INTO t VALUES " + strings.Join(tuples, ", ")
	case k < 8:
		st.Kind = "update"
		st.Where = lib.Pick(r, []string{"a >= 0", "a = 1", "pk >= 2", "c < 30", "pk < 4", "a < 2"})
		switch r.Intn(6) {
		case 0:
			st.Set, st.Val = "c", fmt.Sprint(r.Intn(60))
		case 1:
			st.Set, st.Val = "c", fmt.Sprint(100+r.Intn(20)) // CHECK fails at the first changed row
		case 2:
			st.Set, st.Val = "pk", fmt.Sprint(50+r.Intn(5)) // duplicate key at the second row
		case 3:
			st.Set, st.Val = "b", "'z'" // duplicate unique key at the second row
		case 4:
			st.Set, st.Val = "a", "NULL" // NOT NULL
		default:
			st.Set, st.Val = "a", fmt.Sprint(r.Intn(3))
		}
		st.SQL = fmt.Sprintf("UPDATE t SET %s = %s WHERE %s", st.Set, st.Val, st.Where)
	case k == 10:
		// INSERT IGNORE (checkpointing iterator): duplicate rows are skipped with a warning
		st.Kind = "insert-ignore"
		m := r.Range(2, 4)
		tuples := make([]string, m)
		for i := 0; i < m; i++ {
			row := genRow(r, int64(20+2*i))
			switch r.Intn(4) {
			case 0:
				row.PK = lib.Pick(r, cs.Init).PK
			case 1:
				for _, x := range cs.Init {
					if x.B != nil {
						row.B = x.B
					}
				}
			}
			st.Rows = append(st.Rows, row)
			tuples[i] = row.sqlTuple()
		}
		st.SQL = "INSERT IGNORE INTO t VALUES " + strings.Join(tuples, ", ")
	case k == 11:
		// INSERT ... ON DUPLICATE KEY UPDATE: the rejected insert is handled by the row iterator, an update follows
		st.Kind = "odku"
		m := r.Range(1, 3)
		tuples := make([]string, m)
		for i := 0; i < m; i++ {
			row := genRow(r, int64(20+2*i))
			if r.Bool() {
				row.PK = lib.Pick(r, cs.Init).PK
			}
			st.Rows = append(st.Rows, row)
			tuples[i] = row.sqlTuple()
		}
		st.Set, st.Val = "c", fmt.Sprint(r.Intn(60))
		if r.Chance(1, 4) {
			st.Val = fmt.Sprint(100 + r.Intn(50)) // the update violates the CHECK constraint
		}
		st.SQL = "INSERT INTO t VALUES " + strings.Join(tuples, ", ") + " ON DUPLICATE KEY UPDATE c = " + st.Val
	case k < 9:
		st.Kind = "delete"
		st.Where = lib.Pick(r, []string{"a >= 0", "a = 1", "pk >= 2", "c < 30", "b >= 'c'"})
		st.SQL = "DELETE FROM t WHERE " + st.Where
	default:
		st.Kind = "replace"
		m := r.Range(1, 3)
		tuples := make([]string, m)
		used := map[int64]bool{}
		for i := 0; i < m; i++ {
			pk := int64(30 + i)
			if r.Bool() {
				pk = lib.Pick(r, cs.Init).PK
			}
			if used[pk] {
				pk = int64(40 + i)
			}
			used[pk] = true
			row := genRow(r, pk)
			st.Rows = append(st.Rows, row)
			tuples[i] = row.sqlTuple()
		}
		if m > 1 && r.Bool() {
			// a NON-duplicate error after the first edit call: CHECK or NOT NULL on a later row
			st.Bad = r.Range(2, m)
			b := st.Rows[st.Bad-1]
			if r.Bool() {
				st.How = "check"
				b.C = ip(int64(100 + r.Intn(50)))
			} else {
				st.How = "not-null"
				b.A = nil
			}
			tuples[st.Bad-1] = b.sqlTuple()
		}
		st.SQL = "REPLACE INTO t VALUES " + strings.Join(tuples, ", ")
	}
	return cs
}

// ---------- running one (statement, k) ----------

func runOne(c *lib.Ctx, cs caseT) (calls int64, applyCalls int64, failed bool) {
	w := build(cs)
	before := w.snap(cs.FT)
	memory.VerifResetFault(int64(cs.K))
	memory.VerifC15ResetApplyFault(int64(cs.AK))
	res := w.s.Query(cs.Stmt.SQL)
	calls = memory.VerifEditCalls()
	applyCalls = memory.VerifC15ApplyCalls()
	memory.VerifResetFault(0)
	memory.VerifC15ResetApplyFault(0)
	after := w.snap(cs.FT)
	failed = res.Err != nil

	es := expected(before.rows, cs.Stmt)
	natural, goodCalls := violates(before.rows, es, cs.SelfRef, cs.FT)
	if cs.Stmt.Bad > 0 {
		natural = true
		if goodCalls > cs.Stmt.Bad-1 {
			goodCalls = cs.Stmt.Bad - 1
		}
	}
	// model input: which call fails first
	failAt := "None"
	switch {
	case cs.K > 0 && cs.Trigger:
		// calls alternate audit insert / table insert; only even k (the table's own insert) are generated
		if !natural || cs.K/2-1 < goodCalls {
			failAt = fmt.Sprintf("(Some %d%%nat)", cs.K/2-1)
		} else {
			failAt = fmt.Sprintf("(Some %d%%nat)", goodCalls)
		}
	case cs.K > 0:
		failAt = fmt.Sprintf("(Some %d%%nat)", cs.K-1)
	case natural:
		failAt = fmt.Sprintf("(Some %d%%nat)", goodCalls)
	}
	trig := "None"
	if cs.Trigger {
		au := make([]string, len(cs.Stmt.Rows))
		for i, r := range cs.Stmt.Rows {
			pk := r.PK
			if i < len(cs.Stmt.WPK) {
				pk = cs.Stmt.WPK[i] // the trigger sees the row as written in the statement
			}
			au[i] = "(Some " + lib.CoqStr(fmt.Sprint(pk)) + ")"
			if cs.Signal && cs.Stmt.Bad == i+1 && cs.Stmt.How == "signal" {
				au[i] = "None" // the trigger body fails for this row
			}
		}
		trig = fmt.Sprintf("(Some (%s, %s))", lib.CoqListOf(before.audit, lib.CoqStr), lib.CoqList(au))
	}
	afault := "None"
	if cs.AK > 0 {
		afault = fmt.Sprintf("(Some %d%%nat)", cs.AK)
	}
	term := lib.CoqTuple(coqRowsT(before.rows), lib.CoqListOf(es, coqEdit), failAt, trig, lib.CoqBool(failed),
		coqRowsT(after.rows), lib.CoqListOf(after.audit, lib.CoqStr), afault, lib.CoqBool(cs.Stmt.Kind == "insert-ignore"))
	key := ""
	if failed && len(before.rows) > 0 {
		key = fmt.Sprintf("%v|%s|%d", texts(cs.Init), cs.Stmt.SQL, cs.K)
	}
	kind := cs.Stmt.Kind
	if cs.Trigger {
		kind += "+trigger"
	}
	if cs.SelfRef {
		kind += "+selfref-fk"
	}
	if cs.FT {
		kind += "+fulltext"
	}
	switch {
	case cs.AK > 0 && failed:
		c.Count(fmt.Sprintf("%s/apply_edits_fault_at_call_%d:reported", kind, cs.AK))
	case cs.AK > 0:
		c.Count(fmt.Sprintf("%s/apply_edits_fault_at_call_%d:NOT_reported", kind, cs.AK))
	case cs.K > 0:
		c.Count(fmt.Sprintf("%s/injected_at_call_%d", kind, min(cs.K, 6)))
	case failed:
		c.Count(kind + "/natural_failure:" + eng.ErrKind(res.Err))
	default:
		c.Count(kind + "/success")
	}
	id := c.Case(term, cs, key)

	// ----- property predicate on the implementation alone -----
	c.PredChecked()
	if res.Panic != "" {
		c.PredFail(id, "statement-panics", fmt.Sprintf("%q panicked: %s", cs.Stmt.SQL, res.Panic), cs)
		return
	}
	if cs.K > 0 && int64(cs.K) <= calls && !failed {
		c.PredFail(id, "injected-storage-error-swallowed", fmt.Sprintf("%q: the storage error injected at row-edit call %d of %d was not reported", cs.Stmt.SQL, cs.K, calls), cs)
	}
	if failed && cs.AK > 0 && !eqS(texts(before.rows), texts(after.rows)) {
		// a storage error inside ApplyEdits: classify by what is left behind
		// The error is reported (StatementComplete no longer swallows it), but nothing discards the pending edits and
		// tableEditor.Close re-runs ApplyEdits and publishes: what stays is ApplyEdits of a prefix of the statement's
		// edits (all of them for a plain statement; the rows up to the failing one for INSERT IGNORE).
		sig := "apply-edits-failure-leaves-partial-edits"
		for j := 1; j <= len(es); j++ {
			if eqS(texts(applyEdits(before.rows, es[:j])), texts(after.rows)) {
				sig = "apply-edits-error-at-close-reported-after-changes-published"
			}
		}
		c.PredFail(id, sig, fmt.Sprintf("%q with a storage error in ApplyEdits call %d of %d reports %v, yet the rows went from %v to %v", cs.Stmt.SQL, cs.AK, applyCalls, res.Err, texts(before.rows), texts(after.rows)), cs)
		return
	}
	if failed && cs.Stmt.Kind == "insert-ignore" && !eqS(texts(before.rows), texts(after.rows)) {
		// every row of INSERT IGNORE is its own statement: a hard error keeps the rows accepted before it
		sig := "failed-insert-ignore-changes-rows"
		if cs.K > 0 && cs.K-1 <= len(es) && eqS(texts(applyEdits(before.rows, es[:cs.K-1])), texts(after.rows)) {
			sig = "insert-ignore-storage-error-keeps-earlier-rows"
		}
		c.PredFail(id, sig, fmt.Sprintf("%q failed (%v, fault at row-edit call %d) but rows went from %v to %v", cs.Stmt.SQL, res.Err, cs.K, texts(before.rows), texts(after.rows)), cs)
		return
	}
	if failed {
		tOK := eqS(texts(before.rows), texts(after.rows)) && before.raw == after.raw && eqS(before.reads, after.reads)
		switch {
		case cs.SelfRef && eqS(texts(before.rows), texts(after.rows)) && (before.raw != after.raw || !eqS(before.reads, after.reads)):
			c.PredFail(id, "failed-insert-after-mid-statement-apply-corrupts-index-storage", fmt.Sprintf("%q failed (%v, fault at %d); rows are restored (%v) but index storage / index-driven reads are not: raw %s -> %s; reads %v -> %v", cs.Stmt.SQL, res.Err, cs.K, texts(after.rows), before.raw, after.raw, before.reads, after.reads), cs)
		case !eqS(texts(before.rows), texts(after.rows)):
			c.PredFail(id, "failed-"+cs.Stmt.Kind+"-changes-rows", fmt.Sprintf("%q failed (%v, fault at %d) but rows went from %v to %v", cs.Stmt.SQL, res.Err, cs.K, texts(before.rows), texts(after.rows)), cs)
		case before.raw != after.raw:
			c.PredFail(id, "failed-"+cs.Stmt.Kind+"-changes-index-storage", fmt.Sprintf("%q failed (%v, fault at %d) but raw storage went from %s to %s", cs.Stmt.SQL, res.Err, cs.K, before.raw, after.raw), cs)
		case !eqS(before.reads, after.reads):
			c.PredFail(id, "failed-"+cs.Stmt.Kind+"-changes-index-reads", fmt.Sprintf("%q failed (%v, fault at %d) but index-driven reads changed: %v -> %v", cs.Stmt.SQL, res.Err, cs.K, before.reads, after.reads), cs)
		}
		if cs.FT && tOK {
			// a valid statement afterwards must leave the same full-text state as on a table that never saw the failure
			follow := "INSERT INTO t VALUES (90, 1, 'red owl', 1), (91, 2, 'grey fox cat', 2)"
			w2 := build(cs)
			r1, r2 := w.s.Query(follow), w2.s.Query(follow)
			s1, s2 := w.snap(true), w2.snap(true)
			if (r1.Err == nil) != (r2.Err == nil) || !eqS(s1.reads, s2.reads) || !eqS(texts(s1.rows), texts(s2.rows)) {
				c.PredFail(id, "fulltext-state-differs-after-failed-statement-and-reinsert", fmt.Sprintf("%q failed (%v, fault at %d); a following valid insert gives %v %v, on a fresh table %v %v", cs.Stmt.SQL, res.Err, cs.K, r1.Err, s1.reads, r2.Err, s2.reads), cs)
			}
		}
		if !eqS(before.audit, after.audit) {
			sig := "failed-statement-changes-other-table"
			if cs.Trigger && tOK && cs.Stmt.Kind == "insert" {
				sig = "before-insert-trigger-rows-survive-failed-insert"
			}
			c.PredFail(id, sig, fmt.Sprintf("%q failed (%v, fault at %d) but the trigger's audit rows stay: %v -> %v", cs.Stmt.SQL, res.Err, cs.K, before.audit, after.audit), cs)
		}
	} else {
		if natural {
			c.PredFail(id, "invalid-statement-succeeds", fmt.Sprintf("%q should fail (%s) but succeeded; rows %v", cs.Stmt.SQL, cs.Stmt.How, texts(after.rows)), cs)
		} else if want := texts(applyEdits(before.rows, es)); !eqS(want, texts(after.rows)) && cs.AK > 0 {
			// (fixed by /repo 647a7064d) StatementComplete returned nil although ApplyEdits failed: the statement went on and
			// succeeded without the edits that were pending (INSERT IGNORE: the next ignorable row cleared the accumulator)
			c.PredFail(id, "apply-edits-error-swallowed-by-statement-complete-loses-rows",
				fmt.Sprintf("%q with a one-shot storage error in ApplyEdits call %d of %d SUCCEEDS; expected rows %v, found %v", cs.Stmt.SQL, cs.AK, applyCalls, want, texts(after.rows)), cs)
		} else if !eqS(want, texts(after.rows)) {
			c.PredFail(id, "successful-"+cs.Stmt.Kind+"-does-not-apply-all-changes", fmt.Sprintf("%q succeeded; expected rows %v, found %v", cs.Stmt.SQL, want, texts(after.rows)), cs)
		}
	}
	return
}

// runAll runs the statement clean and then with a fault at every row-edit call it made.
func runAll(c *lib.Ctx, cs caseT) {
	cs.K, cs.AK = 0, 0
	calls, applyCalls, failed := runOne(c, cs)
	if !failed && !cs.Trigger && !cs.SelfRef && !cs.FT && cs.Stmt.Kind != "odku" {
		// (ON DUPLICATE KEY UPDATE runs two editors over one accumulator: four ApplyEdits calls, not modelled)
		// a one-shot storage error inside each ApplyEdits call the statement makes (StatementComplete, Close)
		for n := int64(1); n <= applyCalls && n <= 4; n++ {
			cs.AK = int(n)
			runOne(c, cs)
		}
		cs.AK = 0
	}
	for k := int64(1); k <= calls && k <= 40; k++ {
		if cs.Trigger && k%2 == 1 {
			continue // the trigger's own insert into audit: not modelled
		}
		cs.K = int(k)
		runOne(c, cs)
	}
}

func main() {
	lib.Main("C15", func(c *lib.Ctx) {
		c.Header = "From Coq Require Import List NArith.\nImport ListNotations.\nFrom GMS Require Import Store.C15Editor Corr.C15.\nOpen Scope N_scope."
		c.CaseType = "C15.case"
		c.MismatchFn = "C15.mismatches"
		c.SetRule("table t(pk PRIMARY KEY, a NOT NULL, b UNIQUE, c CHECK c<100, two secondary indexes) with 2-6 rows; statements: " +
			"1-4 row INSERT (2/3 with one row made invalid at a random position: duplicate primary key against the table or the " +
			"statement, duplicate unique key, CHECK, NOT NULL, conversion; 1/3 of inserts with a BEFORE INSERT trigger writing an " +
			"audit row), multi-row UPDATE (incl. ones failing at the first or second changed row), DELETE, REPLACE; every statement " +
			"is re-run on a fresh engine with a storage error injected at every row-edit call it made. -n counts statements; a case " +
			"is one (statement, fault position); non-trivial = the statement failed on a non-empty table.")
		if c.ReplayFile != "" {
			var cs caseT
			lib.LoadReplay(c.ReplayFile, &cs)
			runOne(c, cs)
			return
		}
		base := []rowT{{PK: 1, A: ip(1), B: sp("a"), C: ip(5)}, {PK: 2, A: ip(1), B: sp("b"), C: ip(6)}, {PK: 3, A: ip(2), C: ip(7)}}
		corpus := []caseT{
			// known: audit rows of a BEFORE INSERT trigger survive the failed multi-row insert
			{Init: base, Trigger: true, Stmt: stmtT{Kind: "insert", SQL: "INSERT INTO t VALUES (20, 1, NULL, 1), (21, 1, NULL, 2), (1, 1, NULL, 3)",
				Rows: []rowT{{PK: 20, A: ip(1), C: ip(1)}, {PK: 21, A: ip(1), C: ip(2)}, {PK: 22, A: ip(1), C: ip(3)}}, WPK: []int64{20, 21, 1}, Bad: 3, How: "dup-pk"}},
			// known: a row referencing a row of the same statement forces a mid-statement ApplyEdits; the later failure
			// restores the rows but not the (shared, patched in place) index storage rows
			{Init: []rowT{{PK: 50, A: ip(1)}, {PK: 60, A: ip(2), C: ip(50)}, {PK: 70, A: ip(0), C: ip(50)}}, SelfRef: true,
				Stmt: stmtT{Kind: "insert", SQL: "INSERT INTO t VALUES (10, 1, NULL, 50), (11, 2, NULL, 10), (12, 0, NULL, 999)",
					Rows: []rowT{{PK: 10, A: ip(1), C: ip(50)}, {PK: 11, A: ip(2), C: ip(10)}, {PK: 12, A: ip(0)}}, WPK: []int64{10, 11, 12}, Bad: 3, How: "fk"}},
			{Init: base, Stmt: stmtT{Kind: "insert", SQL: "INSERT INTO t VALUES (20, 1, 'x', 1), (21, 1, 'a', 2)",
				Rows: []rowT{{PK: 20, A: ip(1), B: sp("x"), C: ip(1)}, {PK: 21, A: ip(1), B: sp("y"), C: ip(2)}}, Bad: 2, How: "dup-unique"}},
			{Init: base, Stmt: stmtT{Kind: "update", SQL: "UPDATE t SET pk = 50 WHERE a >= 0", Set: "pk", Val: "50", Where: "a >= 0"}},
			// known: INSERT IGNORE keeps the rows accepted before an (injected) storage error
			{Init: base, Stmt: stmtT{Kind: "insert-ignore", SQL: "INSERT IGNORE INTO t VALUES (20, 1, NULL, 1), (1, 1, NULL, 2), (22, 1, NULL, 3)",
				Rows: []rowT{{PK: 20, A: ip(1), C: ip(1)}, {PK: 1, A: ip(1), C: ip(2)}, {PK: 22, A: ip(1), C: ip(3)}}}},
			// ON DUPLICATE KEY UPDATE whose update violates the CHECK constraint at the second row
			{Init: base, Stmt: stmtT{Kind: "odku", SQL: "INSERT INTO t VALUES (20, 1, NULL, 1), (1, 1, NULL, 2) ON DUPLICATE KEY UPDATE c = 150",
				Rows: []rowT{{PK: 20, A: ip(1), C: ip(1)}, {PK: 1, A: ip(1), C: ip(2)}}, Set: "c", Val: "150"}},
			// the trigger body SIGNALs at row 2: the audit row of row 1 stays (same root cause as the first entry)
			{Init: base, Trigger: true, Signal: true, Stmt: stmtT{Kind: "insert", SQL: "INSERT INTO t VALUES (20, 1, NULL, 1), (21, 1, NULL, 77), (22, 1, NULL, 3)",
				Rows: []rowT{{PK: 20, A: ip(1), C: ip(1)}, {PK: 21, A: ip(1), C: ip(5)}, {PK: 22, A: ip(1), C: ip(3)}}, WPK: []int64{20, 21, 22}, Bad: 2, How: "signal"}},
			// multi-row REPLACE failing with a non-duplicate error after the first edit call
			{Init: base, Stmt: stmtT{Kind: "replace", SQL: "REPLACE INTO t VALUES (1, 2, NULL, 8), (2, 0, NULL, 150)",
				Rows: []rowT{{PK: 1, A: ip(2), C: ip(8)}, {PK: 2, A: ip(0), C: ip(9)}}, Bad: 2, How: "check"}},
			// FULLTEXT: failure after one row, and an update failing at its second row
			{Init: []rowT{{PK: 1, A: ip(1), B: sp("red fox"), C: ip(1)}, {PK: 2, A: ip(1), B: sp("blue fox"), C: ip(2)}, {PK: 3, A: ip(2), B: sp("red cat"), C: ip(3)}}, FT: true,
				Stmt: stmtT{Kind: "insert", SQL: "INSERT INTO t VALUES (20, 1, 'grey owl', 1), (1, 1, 'fox fox red', 2)",
					Rows: []rowT{{PK: 20, A: ip(1), B: sp("grey owl"), C: ip(1)}, {PK: 22, A: ip(1), B: sp("fox fox red"), C: ip(2)}}, WPK: []int64{20, 1}, Bad: 2, How: "dup-pk"}},
			{Init: []rowT{{PK: 1, A: ip(1), B: sp("red fox"), C: ip(1)}, {PK: 2, A: ip(1), B: sp("blue fox"), C: ip(2)}, {PK: 3, A: ip(2), B: sp("red cat"), C: ip(3)}}, FT: true,
				Stmt: stmtT{Kind: "update", SQL: "UPDATE t SET pk = 50 WHERE a >= 0", Set: "pk", Val: "50", Where: "a >= 0"}},
			{Init: base, Stmt: stmtT{Kind: "update", SQL: "UPDATE t SET c = 9 WHERE a >= 0", Set: "c", Val: "9", Where: "a >= 0"}},
			{Init: base, Stmt: stmtT{Kind: "delete", SQL: "DELETE FROM t WHERE a >= 0", Where: "a >= 0"}},
			{Init: base, Stmt: stmtT{Kind: "replace", SQL: "REPLACE INTO t VALUES (1, 2, NULL, 8), (30, 0, NULL, 9)",
				Rows: []rowT{{PK: 1, A: ip(2), C: ip(8)}, {PK: 30, A: ip(0), C: ip(9)}}}},
		}
		for _, cs := range corpus {
			runAll(c, cs)
		}
		for i := len(corpus); i < c.N; i++ {
			runAll(c, gen(c.R.Fork()))
		}
	})
}
