// Driver for C09 (result values conform to the result schema).  Two streams:
//
//	(1) projections of expressions of the modelled fragment over a typed table: the reported schema (type class,
//	    nullability) and every value are recorded for the Coq typing model;
//	(2) a mix of statements (ORDER BY/LIMIT, GROUP BY aggregates, window functions, joins, set operations, CASE/
//	    functions) checked by the predicate only.
//
// Predicate (implementation alone): every returned value v of result column c satisfies c.Type.Convert(v) == v,
// in range, and v != nil when c is reported NOT NULL.
package main

import (
	"fmt"
	"math"
	"os"
	"reflect"
	"regexp"
	"strings"
	"time"

	"github.com/cockroachdb/apd/v3"
	"github.com/dolthub/go-mysql-server/sql"
	"github.com/dolthub/go-mysql-server/sql/types"

	"verifharness/lib"
	"verifharness/lib/eng"
)

// ---------- expression language of the model ----------

type Expr struct {
	Op   string  `json:"op"` // field lit neg add sub mul intdiv mod eq lt isnull coalesce if concat
	I    int     `json:"i,omitempty"`
	Null bool    `json:"null,omitempty"`
	Int  *int64  `json:"int,omitempty"`
	Str  *string `json:"str,omitempty"`
	A    *Expr   `json:"a,omitempty"`
	B    *Expr   `json:"b,omitempty"`
	C    *Expr   `json:"c,omitempty"`
}

var colNames = []string{"a", "b", "s", "t"} // a BIGINT NOT NULL, b BIGINT NULL, s VARCHAR NOT NULL, t VARCHAR NULL
var colIsStr = []bool{false, false, true, true}

func (e *Expr) SQL() string {
	switch e.Op {
	case "field":
		return colNames[e.I]
	case "lit":
		switch {
		case e.Int != nil:
			return fmt.Sprintf("%d", *e.Int)
		case e.Str != nil:
			return "'" + *e.Str + "'"
		}
		return "NULL"
	case "neg":
		return "(-" + e.A.SQL() + ")"
	case "add":
		return "(" + e.A.SQL() + " + " + e.B.SQL() + ")"
	case "sub":
		return "(" + e.A.SQL() + " - " + e.B.SQL() + ")"
	case "mul":
		return "(" + e.A.SQL() + " * " + e.B.SQL() + ")"
	case "intdiv":
		return "(" + e.A.SQL() + " DIV " + e.B.SQL() + ")"
	case "mod":
		return "(" + e.A.SQL() + " % " + e.B.SQL() + ")"
	case "eq":
		return "(" + e.A.SQL() + " = " + e.B.SQL() + ")"
	case "lt":
		return "(" + e.A.SQL() + " < " + e.B.SQL() + ")"
	case "isnull":
		return "(" + e.A.SQL() + " IS NULL)"
	case "coalesce":
		return "COALESCE(" + e.A.SQL() + ", " + e.B.SQL() + ")"
	case "if":
		return "IF(" + e.C.SQL() + ", " + e.A.SQL() + ", " + e.B.SQL() + ")"
	case "concat":
		return "CONCAT(" + e.A.SQL() + ", " + e.B.SQL() + ")"
	}
	panic("op " + e.Op)
}

func coqVal(null bool, i *int64, s *string) string {
	switch {
	case i != nil:
		return "(VInt " + lib.CoqZ(*i) + ")"
	case s != nil:
		b := []byte(*s)
		items := make([]string, len(b))
		for k, c := range b {
			items[k] = fmt.Sprintf("%d%%Z", c)
		}
		return "(VStr " + lib.CoqList(items) + ")"
	}
	return "VNull"
}

func (e *Expr) Coq() string {
	switch e.Op {
	case "field":
		return fmt.Sprintf("(EField %d)", e.I)
	case "lit":
		return "(ELit " + coqVal(e.Null, e.Int, e.Str) + ")"
	case "neg":
		return "(ENeg " + e.A.Coq() + ")"
	case "isnull":
		return "(EIsNull " + e.A.Coq() + ")"
	case "if":
		return "(EIf " + e.C.Coq() + " " + e.A.Coq() + " " + e.B.Coq() + ")"
	}
	name := map[string]string{"add": "EAdd", "sub": "ESub", "mul": "EMul", "intdiv": "EIntDiv", "mod": "EMod", "eq": "EEq",
		"lt": "ELt", "coalesce": "ECoalesce", "concat": "EConcat"}[e.Op]
	return "(" + name + " " + e.A.Coq() + " " + e.B.Coq() + ")"
}

// genExpr produces a well-typed expression; str selects the text class.
func genExpr(r *lib.RNG, str bool, depth int) *Expr {
	if depth == 0 || r.Chance(1, 4) {
		if r.Chance(2, 3) {
			if str {
				return &Expr{Op: "field", I: 2 + r.Intn(2)}
			}
			return &Expr{Op: "field", I: r.Intn(2)}
		}
		if str {
			s := lib.Pick(r, []string{"", "a", "b", "ab", "B"})
			return &Expr{Op: "lit", Str: &s}
		}
		v := int64(r.Range(-3, 5))
		return &Expr{Op: "lit", Int: &v}
	}
	if str {
		switch r.Intn(3) {
		case 0:
			return &Expr{Op: "concat", A: genExpr(r, true, depth-1), B: genExpr(r, true, depth-1)}
		case 1:
			return &Expr{Op: "coalesce", A: genExpr(r, true, depth-1), B: genExpr(r, true, depth-1)}
		default:
			return &Expr{Op: "if", C: genExpr(r, false, depth-1), A: genExpr(r, true, depth-1), B: genExpr(r, true, depth-1)}
		}
	}
	switch r.Intn(11) {
	case 0:
		return &Expr{Op: "neg", A: genExpr(r, false, depth-1)}
	case 1:
		return &Expr{Op: "add", A: genExpr(r, false, depth-1), B: genExpr(r, false, depth-1)}
	case 2:
		return &Expr{Op: "sub", A: genExpr(r, false, depth-1), B: genExpr(r, false, depth-1)}
	case 3:
		return &Expr{Op: "mul", A: genExpr(r, false, depth-1), B: genExpr(r, false, depth-1)}
	case 4:
		return &Expr{Op: "intdiv", A: genExpr(r, false, depth-1), B: genExpr(r, false, depth-1)}
	case 5:
		return &Expr{Op: "mod", A: genExpr(r, false, depth-1), B: genExpr(r, false, depth-1)}
	case 6:
		k := r.Bool()
		return &Expr{Op: "eq", A: genExpr(r, k, depth-1), B: genExpr(r, k, depth-1)}
	case 7:
		k := r.Bool()
		return &Expr{Op: "lt", A: genExpr(r, k, depth-1), B: genExpr(r, k, depth-1)}
	case 8:
		return &Expr{Op: "isnull", A: genExpr(r, r.Bool(), depth-1)}
	case 9:
		return &Expr{Op: "coalesce", A: genExpr(r, false, depth-1), B: genExpr(r, false, depth-1)}
	default:
		return &Expr{Op: "if", C: genExpr(r, false, depth-1), A: genExpr(r, false, depth-1), B: genExpr(r, false, depth-1)}
	}
}

type BaseRow struct {
	A int64   `json:"a"`
	B *int64  `json:"b"`
	S string  `json:"s"`
	T *string `json:"t"`
}

type caseT struct {
	Kind  string    `json:"kind"` // model | sql
	Rows  []BaseRow `json:"rows,omitempty"`
	Exprs []*Expr   `json:"exprs,omitempty"`
	Setup []string  `json:"setup,omitempty"`
	SQL   string    `json:"sql,omitempty"`
}

func genBase(r *lib.RNG) []BaseRow {
	n := r.Range(0, 5)
	rows := make([]BaseRow, n)
	for i := range rows {
		rows[i] = BaseRow{A: int64(r.Range(-3, 6)), S: lib.Pick(r, []string{"", "a", "b", "ab", "B"})}
		if !r.Chance(1, 3) {
			v := int64(r.Range(-2, 4))
			rows[i].B = &v
		}
		if !r.Chance(1, 3) {
			v := lib.Pick(r, []string{"", "a", "b", "A"})
			rows[i].T = &v
		}
	}
	return rows
}

func sqlOpt[T any](p *T, f func(T) string) string {
	if p == nil {
		return "NULL"
	}
	return f(*p)
}

func baseSetup(rows []BaseRow) []string {
	out := []string{"CREATE TABLE m (id BIGINT PRIMARY KEY, a BIGINT NOT NULL, b BIGINT, s VARCHAR(20) NOT NULL, t VARCHAR(20))"}
	for i, r := range rows {
		out = append(out, fmt.Sprintf("INSERT INTO m VALUES (%d, %d, %s, '%s', %s)", i+1, r.A,
			sqlOpt(r.B, func(v int64) string { return fmt.Sprint(v) }), r.S, sqlOpt(r.T, func(v string) string { return "'" + v + "'" })))
	}
	return out
}

// ---------- the predicate ----------

var fnRe = regexp.MustCompile(`^[A-Za-z_]+\(`)

func colLabel(name string) string {
	if m := fnRe.FindString(name); m != "" {
		return strings.ToUpper(strings.TrimSuffix(m, "("))
	}
	return "expr"
}

func sameValue(a, b interface{}) bool {
	switch x := a.(type) {
	case *apd.Decimal:
		y, ok := b.(*apd.Decimal)
		return ok && x.Cmp(y) == 0 && x.Exponent == y.Exponent
	case apd.Decimal:
		y, ok := b.(apd.Decimal)
		return ok && x.Cmp(&y) == 0
	case float64:
		y, ok := b.(float64)
		return ok && (x == y || (math.IsNaN(x) && math.IsNaN(y)))
	case time.Time:
		y, ok := b.(time.Time)
		return ok && x.Equal(y)
	}
	return reflect.DeepEqual(a, b)
}

// sameUnderType: Convert must not change the value.  Equality is the column type's own comparison, so that a Go
// representation difference (bool or int8 for a tinyint, int for a bigint, an exact decimal in a double column)
// is not reported; only a change of the SQL value is.
func sameUnderType(ctx *sql.Context, t sql.Type, conv, v interface{}) bool {
	if sameValue(conv, v) {
		return true
	}
	ok := false
	lib.Recover(func() {
		c, err := t.Compare(ctx, conv, v)
		ok = err == nil && c == 0
	})
	return ok
}

func stmtKind(q string) string {
	u := strings.ToUpper(q)
	switch {
	case strings.Contains(u, "LEFT JOIN"):
		return "left-join"
	case strings.Contains(u, "RIGHT JOIN"):
		return "right-join"
	case strings.Contains(u, " UNION ") || strings.Contains(u, " INTERSECT ") || strings.Contains(u, " EXCEPT "):
		return "set-op"
	case strings.Contains(u, " OVER ("):
		return "window"
	case strings.Contains(u, "(SELECT"):
		return "subquery"
	case strings.Contains(u, "GROUP BY"):
		return "group-by"
	}
	return "select"
}

// aggregates whose generated IsNullable returns false (unary_aggs.og.go) although they yield NULL without a value
var aggLabels = map[string]bool{"SUM": true, "MIN": true, "MAX": true, "FIRST": true, "LAST": true, "FIRST_VALUE": true, "LAST_VALUE": true,
	"ANY_VALUE": true, "GROUP_CONCAT": true, "STD": true, "STDDEV": true, "STDDEV_POP": true, "STDDEV_SAMP": true, "VAR_POP": true, "VAR_SAMP": true, "VARIANCE": true}

// notNullRootCause classifies a NULL in a NOT NULL column by the mechanism that produced it (not by the literal query)
func notNullRootCause(label, kind string) string {
	switch {
	case aggLabels[label]:
		return "not-null-column-has-null/aggregate-without-value" // any statement kind: same IsNullable()==false
	case label == "expr" && (kind == "left-join" || kind == "right-join"):
		return "not-null-column-has-null/outer-join-padded-side"
	case label == "expr" && kind == "subquery":
		return "not-null-column-has-null/derived-column-of-aggregate"
	}
	return "not-null-column-has-null/" + label + "/" + kind
}

// checkResult evaluates the property predicate on one result set.
func checkResult(c *lib.Ctx, id int, ctx *sql.Context, cs caseT, q string, res eng.Result) {
	c.PredChecked()
	reported := map[string]bool{}
	for _, row := range res.Rows {
		if len(row) != len(res.Schema) {
			c.PredFail(id, "row-width", fmt.Sprintf("%s: row of width %d for a schema of %d columns", q, len(row), len(res.Schema)), cs)
			return
		}
		for i, v := range row {
			col := res.Schema[i]
			label := colLabel(col.Name)
			if v == nil {
				if !col.Nullable {
					sig := notNullRootCause(label, stmtKind(q))
					if !reported[sig] {
						reported[sig] = true
						c.PredFail(id, sig, fmt.Sprintf("%s: column %q is reported NOT NULL (type %s) but a row holds NULL", q, col.Name, col.Type), cs)
					}
				}
				continue
			}
			var conv interface{}
			var inRange sql.ConvertInRange
			var err error
			p, pv := lib.Recover(func() { conv, inRange, err = col.Type.Convert(ctx, v) })
			var sig, why string
			switch {
			case p:
				sig, why = "convert-panics", "Convert panicked: "+pv
			case err != nil:
				sig, why = "convert-error", "Convert failed: "+err.Error()
			case inRange != sql.InRange:
				sig, why = "out-of-range", "value is out of the range of the column type"
			case !sameUnderType(ctx, col.Type, conv, v):
				sig, why = "not-a-value-of-type", fmt.Sprintf("Convert gives %T(%v)", conv, conv)
			default:
				continue
			}
			sig = fmt.Sprintf("%s/%s/%T-in-%s", sig, label, v, typeClass(col.Type))
			if !reported[sig] {
				reported[sig] = true
				c.PredFail(id, sig, fmt.Sprintf("%s: column %q has type %s but holds %T(%v): %s", q, col.Name, col.Type, v, v, why), cs)
			}
		}
	}
}

func typeClass(t sql.Type) string {
	s := strings.ToLower(t.String())
	if i := strings.IndexAny(s, "( "); i > 0 && !strings.HasPrefix(s, "bigint unsigned") {
		s = s[:i]
	}
	return s
}

// ---------- stream 1: modelled projections ----------

func tclass(t sql.Type) string {
	if types.IsText(t) {
		return "KText"
	}
	return "KNum"
}

func runModel(c *lib.Ctx, cs caseT) {
	e := eng.New("db")
	s := e.Session()
	s.MustExec(baseSetup(cs.Rows)...)
	var sel []string
	for _, ex := range cs.Exprs {
		sel = append(sel, ex.SQL())
	}
	q := "SELECT " + strings.Join(sel, ", ") + " FROM m ORDER BY id"
	cs.SQL = q
	res := s.Query(q)
	if res.Panic != "" {
		id := c.CaseNoModel(cs, "")
		c.PredChecked()
		c.PredFail(id, "panic", q+": "+res.Panic, cs)
		return
	}
	rows := make([]string, len(cs.Rows))
	for i, r := range cs.Rows {
		rows[i] = lib.CoqList([]string{coqVal(false, &r.A, nil), coqVal(r.B == nil, r.B, nil), coqVal(false, nil, &r.S), coqVal(r.T == nil, nil, r.T)})
	}
	schema := "[Col TInt false; Col TInt true; Col TStr false; Col TStr true]"
	exprs := lib.CoqListOf(cs.Exprs, func(e *Expr) string { return e.Coq() })
	var osch []string
	okTypes := true
	if res.Err == nil {
		for _, col := range res.Schema {
			osch = append(osch, fmt.Sprintf("(%s, %s)", tclass(col.Type), lib.CoqBool(col.Nullable)))
		}
	}
	out := "None"
	if res.Err == nil {
		var outs []string
		for _, row := range res.Rows {
			var vs []string
			for _, v := range row {
				switch x := v.(type) {
				case nil:
					vs = append(vs, "VNull")
				case int64:
					vs = append(vs, coqVal(false, &x, nil))
				case int8, int16, int32, int, uint8, uint64, bool:
					var y int64
					switch z := x.(type) {
					case int8:
						y = int64(z)
					case int16:
						y = int64(z)
					case int32:
						y = int64(z)
					case int:
						y = int64(z)
					case uint8:
						y = int64(z)
					case uint64:
						y = int64(z)
					case bool:
						if z {
							y = 1
						}
					}
					vs = append(vs, coqVal(false, &y, nil))
				case string:
					vs = append(vs, coqVal(false, nil, &x))
				case *apd.Decimal:
					// BIGINT % BIGINT is evaluated in decimal arithmetic: an integral decimal stands for its integer
					if y, err := x.Int64(); err == nil {
						vs = append(vs, coqVal(false, &y, nil))
					} else {
						vs = append(vs, "VNull")
					}
				default:
					okTypes = false
					vs = append(vs, "VNull")
				}
			}
			outs = append(outs, lib.CoqList(vs))
		}
		out = "(Some " + lib.CoqList(outs) + ")"
	}
	_ = okTypes
	if res.Err != nil {
		// schema unknown when the statement fails: the model must predict an evaluation error
		osch = nil
		for range cs.Exprs {
			osch = append(osch, "(KNum, true)")
		}
		c.Count("model_stmt_error:" + eng.ErrKind(res.Err))
		// an error is outside the property (no value returned): predicate-only bookkeeping
		id := c.CaseNoModel(cs, "")
		_ = id
		c.PredChecked()
		return
	}
	term := lib.CoqTuple(schema, exprs, lib.CoqList(rows), lib.CoqList(osch), out)
	key := ""
	if len(cs.Rows) > 0 {
		key = q + fmt.Sprint(cs.Rows)
	}
	id := c.Case(term, cs, key)
	c.Count("model_projection")
	for _, ex := range cs.Exprs {
		c.Count("expr_" + ex.Op)
	}
	ctx := sql.NewEmptyContext()
	checkResult(c, id, ctx, cs, q, res)
}

// ---------- stream 2: statement mix (predicate only) ----------

var mixSetup = []string{
	"CREATE TABLE t (id BIGINT PRIMARY KEY, g BIGINT, a BIGINT, x BIGINT, s VARCHAR(20), c VARCHAR(20) COLLATE utf8mb4_0900_ai_ci, d DECIMAL(10,2), f DOUBLE, dt DATE, KEY ia (a))",
	"CREATE TABLE u (id BIGINT PRIMARY KEY, a BIGINT NOT NULL, n INT, v VARCHAR(10) NOT NULL)",
	"CREATE TABLE w (id BIGINT PRIMARY KEY, i INT, iu INT UNSIGNED, bi BIGINT, bu BIGINT UNSIGNED, si SMALLINT, su SMALLINT UNSIGNED)",
}

// same-width signed/unsigned pairs with unsigned values above the signed maximum
var wRows = []string{
	"INSERT INTO w VALUES (1, -5, 4294967295, -7, 18446744073709551615, -3, 65535)",
	"INSERT INTO w VALUES (2, 2147483647, 3000000000, 9223372036854775807, 9223372036854775808, 32767, 40000)",
	"INSERT INTO w VALUES (3, NULL, 7, NULL, 9, NULL, 1)",
}

func genMixData(r *lib.RNG) []string {
	out := append([]string(nil), mixSetup...)
	n := r.Range(0, 7)
	nv := func(s string) string {
		if r.Chance(1, 4) {
			return "NULL"
		}
		return s
	}
	for i := 1; i <= n; i++ {
		out = append(out, fmt.Sprintf("INSERT INTO t VALUES (%d, %d, %s, %s, %s, %s, %s, %s, %s)", i, r.Range(1, 2),
			nv(fmt.Sprint(r.Range(0, 3))), nv(fmt.Sprint(r.Range(-20, 50))), nv("'"+lib.Pick(r, []string{"a", "b", "A", ""})+"'"),
			nv("'"+lib.Pick(r, []string{"a", "B", "b"})+"'"), nv(fmt.Sprintf("%d.%02d", r.Range(-5, 30), r.Range(0, 99))),
			nv(fmt.Sprintf("%d.5", r.Range(-3, 9))), nv(fmt.Sprintf("'2024-0%d-1%d'", r.Range(1, 9), r.Range(0, 9)))))
	}
	for _, wr := range wRows {
		if r.Chance(3, 4) {
			out = append(out, wr)
		}
	}
	m := r.Range(0, 4)
	for i := 1; i <= m; i++ {
		out = append(out, fmt.Sprintf("INSERT INTO u VALUES (%d, %d, %s, '%s')", i, r.Range(0, 3), nv(fmt.Sprint(r.Range(-2, 2))), lib.Pick(r, []string{"p", "q", ""})))
	}
	return out
}

func genMixQuery(r *lib.RNG) string {
	frame := lib.Pick(r, []string{"ROWS BETWEEN 1 PRECEDING AND CURRENT ROW", "ROWS BETWEEN CURRENT ROW AND CURRENT ROW",
		"ROWS BETWEEN 2 PRECEDING AND 1 PRECEDING", "ROWS BETWEEN UNBOUNDED PRECEDING AND UNBOUNDED FOLLOWING", "ROWS BETWEEN 1 FOLLOWING AND 2 FOLLOWING"})
	col := lib.Pick(r, []string{"x", "a", "d", "f"})
	agg := lib.Pick(r, []string{"SUM", "AVG", "MIN", "MAX", "COUNT", "BIT_OR", "BIT_AND", "BIT_XOR"})
	where := lib.Pick(r, []string{"", "", " WHERE id > 100", " WHERE x IS NULL", " WHERE a = 1"})
	qs := []string{
		// C04-like
		"SELECT id, a, x, s, a + x AS e FROM t" + where + " ORDER BY " + lib.Pick(r, []string{"a", "a DESC, x", "s, id", "c DESC", "a + x", "id DESC"}) + lib.Pick(r, []string{"", " LIMIT 2", " LIMIT 3 OFFSET 1", " LIMIT 0"}),
		// C08-like aggregates
		fmt.Sprintf("SELECT g, %s(%s), COUNT(*) FROM t%s GROUP BY g", agg, col, where),
		fmt.Sprintf("SELECT %s(%s), %s(s), COUNT(%s) FROM t%s", agg, col, lib.Pick(r, []string{"MIN", "MAX", "COUNT"}), col, where),
		fmt.Sprintf("SELECT GROUP_CONCAT(s), JSON_ARRAYAGG(x), COUNT(DISTINCT a), %s(DISTINCT x) FROM t%s", lib.Pick(r, []string{"SUM", "AVG", "COUNT"}), where),
		// windows
		fmt.Sprintf("SELECT id, %s(%s) OVER (PARTITION BY g ORDER BY id %s) FROM t%s", lib.Pick(r, []string{"SUM", "AVG", "MAX", "COUNT", "FIRST_VALUE", "LAST_VALUE"}), col, frame, where),
		fmt.Sprintf("SELECT id, %s OVER (PARTITION BY g ORDER BY a) FROM t%s", lib.Pick(r, []string{"ROW_NUMBER()", "RANK()", "DENSE_RANK()", "PERCENT_RANK()", "NTILE(2)", "LAG(x)", "LEAD(x, 1, 0)", "LAG(s, 1, 'z')", "LEAD(d)"}), where),
		// expressions / functions
		"SELECT id, " + lib.Pick(r, []string{"a / x", "x DIV a", "x % a", "a + d", "x * f", "-x", "a = x", "x IS NULL", "COALESCE(x, a)", "COALESCE(x, 0)", "IF(a > 1, x, d)", "IFNULL(x, 'n')", "NULLIF(a, x)",
			"CASE WHEN a > 1 THEN x ELSE s END", "CASE a WHEN 1 THEN 'one' END", "CONCAT(s, c)", "LENGTH(s)", "UPPER(c)", "ABS(x)", "ROUND(d, 1)", "x + 0.5", "CAST(x AS CHAR)", "CAST(s AS SIGNED)", "dt + INTERVAL 1 DAY", "YEAR(dt)", "GREATEST(a, x)", "LEAST(a, x, 2)", "x BETWEEN 0 AND 10", "s LIKE 'a%'", "a IN (1, 2)", "x IN (1, NULL)", "SUBSTRING(s, 1, 1)", "a << 2", "x & 3", "NOT a", "a AND x", "a OR x"}) + " FROM t" + where,
		// joins
		"SELECT t.id, u.id, u.a, u.n, u.v, t.x FROM t LEFT JOIN u ON t.a = u.a" + lib.Pick(r, []string{"", " WHERE u.id IS NULL", " ORDER BY t.id"}),
		"SELECT t.id, u.id, u.v, t.s FROM t RIGHT JOIN u ON t.a = u.a",
		"SELECT t.id, u.v FROM t JOIN u ON t.a = u.a",
		"SELECT t.id, u.n FROM t CROSS JOIN u",
		"SELECT u.a, COUNT(t.id), SUM(t.x) FROM u LEFT JOIN t ON t.a = u.a GROUP BY u.a",
		// set operations
		"SELECT a FROM t UNION SELECT n FROM u",
		"SELECT a, s FROM t UNION ALL SELECT a, v FROM u",
		"SELECT x FROM t UNION SELECT d FROM t",
		"SELECT a FROM u UNION SELECT NULL",
		"SELECT v FROM u UNION ALL SELECT id FROM u",
		"SELECT a FROM t INTERSECT SELECT a FROM u",
		"SELECT a FROM u EXCEPT SELECT a FROM t",
		// set operation inside a derived table / CTE: NOT NULL branch with a nullable branch
		"SELECT * FROM (SELECT a FROM u UNION SELECT n FROM u) x",
		"SELECT * FROM (SELECT n FROM u UNION ALL SELECT a FROM u) x",
		"WITH x AS (SELECT a FROM u UNION ALL SELECT n FROM u) SELECT * FROM x",
		"SELECT * FROM (SELECT id FROM t UNION SELECT x FROM t) q",
		"SELECT q.c + 1 FROM (SELECT a AS c FROM u UNION SELECT a FROM t) q",
		// same-width signed / unsigned integer pairs
		"SELECT id, CASE WHEN id > 1 THEN " + lib.Pick(r, []string{"i ELSE iu", "iu ELSE i", "bi ELSE bu", "bu ELSE bi", "si ELSE su"}) + " END FROM w",
		"SELECT id, " + lib.Pick(r, []string{"COALESCE(i, iu)", "COALESCE(bi, bu)", "IF(id > 1, bu, bi)", "IF(id = 1, iu, i)", "IFNULL(bi, bu)", "GREATEST(bi, bu)", "LEAST(i, iu)", "bi + bu", "iu - i", "bu * 1"}) + " FROM w",
		"SELECT * FROM (SELECT " + lib.Pick(r, []string{"i FROM w UNION SELECT iu", "iu FROM w UNION ALL SELECT i", "bi FROM w UNION SELECT bu", "bu FROM w UNION ALL SELECT bi", "si FROM w UNION SELECT su"}) + " FROM w) x",
		"SELECT " + lib.Pick(r, []string{"i FROM w UNION SELECT iu", "bi FROM w UNION SELECT bu", "bu FROM w UNION ALL SELECT bi"}) + " FROM w",
		// subqueries
		"SELECT id, (SELECT MAX(n) FROM u WHERE u.a = t.a) FROM t",
		"SELECT id, EXISTS (SELECT 1 FROM u WHERE u.a = t.a), a IN (SELECT a FROM u) FROM t",
		"SELECT q.m, q.c FROM (SELECT MAX(x) AS m, COUNT(*) AS c FROM t" + where + ") q",
	}
	return lib.Pick(r, qs)
}

func runSQL(c *lib.Ctx, cs caseT) {
	e := eng.New("db")
	s := e.Session()
	s.MustExec(cs.Setup...)
	res := s.Query(cs.SQL)
	id := c.CaseNoModel(cs, cs.SQL)
	if os.Getenv("C09_DEBUG") != "" {
		fmt.Fprintf(os.Stderr, "Q: %s\n  err=%v panic=%q\n", cs.SQL, res.Err, res.Panic)
		for _, col := range res.Schema {
			fmt.Fprintf(os.Stderr, "  col %q type=%s nullable=%v\n", col.Name, col.Type, col.Nullable)
		}
		for _, row := range res.Rows {
			fmt.Fprintf(os.Stderr, "  row")
			for _, v := range row {
				fmt.Fprintf(os.Stderr, " %T(%v)", v, v)
			}
			fmt.Fprintln(os.Stderr)
		}
	}
	if res.Panic != "" {
		c.Count("mix_panic")
		c.PredChecked() // panics are C10's subject; no value was returned
		return
	}
	if res.Err != nil {
		c.Count("mix_error:" + eng.ErrKind(res.Err))
		c.PredChecked()
		return
	}
	c.Count("mix_ok")
	checkResult(c, id, sql.NewEmptyContext(), cs, cs.SQL, res)
}

func run(c *lib.Ctx, cs caseT) {
	if cs.Kind == "model" {
		runModel(c, cs)
	} else {
		runSQL(c, cs)
	}
}

func main() {
	lib.Main("C09", func(c *lib.Ctx) {
		c.Header = "From Coq Require Import List NArith ZArith.\nImport ListNotations.\nFrom GMS Require Import Expr.C09Typing Corr.C09.\nOpen Scope N_scope."
		c.CaseType = "C09.case"
		c.MismatchFn = "C09.mismatches"
		c.SetRule("half of the cases: 1-4 well-typed expressions of depth <= 3 from the modelled fragment (columns a BIGINT NOT NULL, b BIGINT, " +
			"s VARCHAR NOT NULL, t VARCHAR; literals; - + * DIV %; = <; IS NULL; COALESCE; IF; CONCAT) projected over 0-5 rows: reported " +
			"type class and nullability and every value are compared with the Coq typing model. Other half: statements drawn from " +
			"ORDER BY/LIMIT, GROUP BY aggregates (incl. empty input), window functions with ROWS frames, scalar functions/CASE/CAST, " +
			"LEFT/RIGHT/INNER/CROSS joins, UNION/INTERSECT/EXCEPT, subqueries over generated tables with NULLs: predicate only " +
			"(Convert(v) == v in range; NOT NULL columns hold no NULL).")
		if c.ReplayFile != "" {
			var cs caseT
			lib.LoadReplay(c.ReplayFile, &cs)
			run(c, cs)
			return
		}
		i64 := func(v int64) *int64 { return &v }
		str := func(v string) *string { return &v }
		rows := []BaseRow{{A: 7, B: nil, S: "a", T: nil}, {A: 0, B: i64(2), S: "", T: str("b")}}
		f := func(i int) *Expr { return &Expr{Op: "field", I: i} }
		lit := func(v int64) *Expr { return &Expr{Op: "lit", Int: &v} }
		run(c, caseT{Kind: "model", Rows: rows, Exprs: []*Expr{{Op: "coalesce", A: f(1), B: &Expr{Op: "add", A: f(0), B: lit(1)}}, {Op: "intdiv", A: f(0), B: lit(0)}, {Op: "isnull", A: f(3)}, {Op: "concat", A: f(2), B: f(3)}}})
		four := int64(4)
		run(c, caseT{Kind: "model", Rows: []BaseRow{{A: 6, B: nil, S: "a", T: nil}}, Exprs: []*Expr{{Op: "mul", A: f(0), B: &Expr{Op: "mod", A: &Expr{Op: "lit", Int: &four}, B: f(0)}}}})
		mixRows := []string{"INSERT INTO t VALUES (1,1,NULL,NULL,'a','a',0.10,1.5,'2024-01-10'),(2,1,1,5,'b','B',NULL,NULL,NULL),(3,2,2,NULL,NULL,NULL,1.25,2.5,'2024-02-11')",
			"INSERT INTO u VALUES (1,1,NULL,'p'),(2,5,2,'')"}
		for _, q := range []string{
			"SELECT SUM(x), MIN(x), MAX(s), AVG(x) FROM t WHERE id > 100",
			"SELECT id, SUM(x) OVER (ORDER BY id ROWS BETWEEN 2 PRECEDING AND 1 PRECEDING) FROM t",
			"SELECT id, NTILE(2) OVER (ORDER BY id) FROM t",
			"SELECT SUM(d), AVG(d) FROM t",
			"SELECT id, LEAD(x, 1, 0) OVER (ORDER BY id) FROM t",
			"SELECT t.id, u.a, u.v FROM t LEFT JOIN u ON t.a = u.a",
			"SELECT a FROM t UNION SELECT n FROM u",
			"SELECT * FROM (SELECT a FROM u UNION SELECT n FROM u) x",
			"WITH x AS (SELECT a FROM u UNION ALL SELECT n FROM u) SELECT * FROM x",
			"SELECT id, CASE WHEN id > 1 THEN i ELSE iu END FROM w",
			"SELECT id, CASE WHEN id > 1 THEN bi ELSE bu END FROM w",
			"SELECT * FROM (SELECT i FROM w UNION SELECT iu FROM w) x",
			"SELECT * FROM (SELECT bi FROM w UNION SELECT bu FROM w) x",
			"SELECT g, MAX(x), MIN(x), SUM(x) FROM t GROUP BY g",
			"SELECT u.a, COUNT(t.id), SUM(t.x) FROM u LEFT JOIN t ON t.a = u.a GROUP BY u.a",
			"SELECT t.id, u.id, u.v, t.s FROM t RIGHT JOIN u ON t.a = u.a",
			"SELECT q.m, q.c FROM (SELECT MAX(x) AS m, COUNT(*) AS c FROM t WHERE id > 100) q",
		} {
			run(c, caseT{Kind: "sql", Setup: append(append(append([]string(nil), mixSetup...), mixRows...), wRows...), SQL: q})
		}
		for i := 19; i < c.N; i++ {
			r := c.R.Fork()
			if r.Bool() {
				n := r.Range(1, 4)
				var es []*Expr
				for j := 0; j < n; j++ {
					es = append(es, genExpr(r, r.Chance(1, 3), r.Range(1, 3)))
				}
				run(c, caseT{Kind: "model", Rows: genBase(r), Exprs: es})
			} else {
				run(c, caseT{Kind: "sql", Setup: genMixData(r), SQL: genMixQuery(r)})
			}
		}
	})
}
