// Driver for C09 (result values conform to the result schema).  Two streams:
//
//	(1) projections of expressions of the modelled fragment over a typed table: the reported schema (type class,
//	    nullability) and every value are recorded for the Coq typing model;
//	(2) a mix of statements (ORDER BY/LIMIT, GROUP BY aggregates, window functions, joins, set operations, CASE/
//	    functions) checked by the predicate only.
//
// Predicate (implementation alone): every returned value v of result column c satisfies c.Type.Convert(v) == v,
// in range, and v != nil when c is reported NOT NULL.
package main

import (
	"fmt"
	"math"
	"math/big"
	"os"
	"reflect"
	"regexp"
	"strings"
	"time"

	"github.com/cockroachdb/apd/v3"
	"github.com/dolthub/go-mysql-server/sql"
	"github.com/dolthub/go-mysql-server/sql/types"

	"verifharness/lib"
	"verifharness/lib/eng"
)

// ---------- expression language of the model ----------

type Expr struct {
	Op   string  `json:"op"`
	I    int     `json:"i,omitempty"`
	Int  *int64  `json:"int,omitempty"`
	Dec  *string `json:"dec,omitempty"` // decimal literal text
	Str  *string `json:"str,omitempty"`
	Sub  string  `json:"sub,omitempty"` // operator / cast target
	P    int     `json:"p,omitempty"`
	S    int     `json:"s,omitempty"`
	A    *Expr   `json:"a,omitempty"`
	B    *Expr   `json:"b,omitempty"`
	C    *Expr   `json:"c,omitempty"`
	L    []*Expr `json:"l,omitempty"`    // IN list; CASE: cond, value, cond, value ...
	Else *Expr   `json:"else,omitempty"` // CASE
}

// a BIGINT NOT NULL, b BIGINT, u BIGINT UNSIGNED NOT NULL, w INT UNSIGNED, k SMALLINT, d DECIMAL(10,2), s VARCHAR NOT NULL, t VARCHAR
var colNames = []string{"a", "b", "u", "w", "k", "d", "s", "t"}

const coqBaseSchema = "[Col (TInt I64) false; Col (TInt I64) true; Col (TInt U64) false; Col (TInt U32) true; Col (TInt I16) true; Col (TDec 10 2) true; Col TStr false; Col TStr true]"

var cmpSQL = map[string]string{"Eq": "=", "Ne": "<>", "Lt": "<", "Le": "<=", "Gt": ">", "Ge": ">="}
var arithSQL = map[string]string{"Add": "+", "Sub": "-", "Mul": "*"}

func (e *Expr) SQL() string {
	bin := func(op string) string { return "(" + e.A.SQL() + " " + op + " " + e.B.SQL() + ")" }
	fn := func(name string, args ...*Expr) string {
		var xs []string
		for _, x := range args {
			xs = append(xs, x.SQL())
		}
		return name + "(" + strings.Join(xs, ", ") + ")"
	}
	switch e.Op {
	case "field":
		return colNames[e.I]
	case "lit":
		switch {
		case e.Int != nil:
			return fmt.Sprintf("%d", *e.Int)
		case e.Dec != nil:
			return *e.Dec
		case e.Str != nil:
			return "'" + *e.Str + "'"
		}
		return "NULL"
	case "neg":
		return "(-" + e.A.SQL() + ")"
	case "arith":
		return bin(arithSQL[e.Sub])
	case "intdiv":
		return bin("DIV")
	case "mod":
		return bin("%")
	case "cmp":
		return bin(cmpSQL[e.Sub])
	case "and":
		return bin("AND")
	case "or":
		return bin("OR")
	case "not":
		return "(NOT " + e.A.SQL() + ")"
	case "isnull":
		return "(" + e.A.SQL() + " IS NULL)"
	case "in":
		var xs []string
		for _, x := range e.L {
			xs = append(xs, x.SQL())
		}
		return "(" + e.A.SQL() + " IN (" + strings.Join(xs, ", ") + "))"
	case "between":
		return "(" + e.A.SQL() + " BETWEEN " + e.B.SQL() + " AND " + e.C.SQL() + ")"
	case "case":
		out := "CASE"
		for i := 0; i+1 < len(e.L); i += 2 {
			out += " WHEN " + e.L[i].SQL() + " THEN " + e.L[i+1].SQL()
		}
		if e.Else != nil {
			out += " ELSE " + e.Else.SQL()
		}
		return "(" + out + " END)"
	case "nullif":
		return fn("NULLIF", e.A, e.B)
	case "ifnull":
		return fn("IFNULL", e.A, e.B)
	case "coalesce":
		return fn("COALESCE", e.A, e.B)
	case "if":
		return fn("IF", e.C, e.A, e.B)
	case "greatest":
		return fn("GREATEST", e.A, e.B)
	case "least":
		return fn("LEAST", e.A, e.B)
	case "cast":
		t := map[string]string{"CSigned": "SIGNED", "CUnsigned": "UNSIGNED", "CChar": "CHAR"}[e.Sub]
		if e.Sub == "CDecimal" {
			t = fmt.Sprintf("DECIMAL(%d,%d)", e.P, e.S)
		}
		return "CAST(" + e.A.SQL() + " AS " + t + ")"
	case "concat":
		return fn("CONCAT", e.A, e.B)
	case "upper":
		return fn("UPPER", e.A)
	case "substr":
		return fmt.Sprintf("SUBSTRING(%s, %d, %d)", e.A.SQL(), e.P, e.S)
	case "length":
		return fn("LENGTH", e.A)
	}
	panic("op " + e.Op)
}

func coqStrVal(s string) string {
	b := []byte(s)
	items := make([]string, len(b))
	for k, c := range b {
		items[k] = fmt.Sprintf("%d%%Z", c)
	}
	return "(VStr " + lib.CoqList(items) + ")"
}

// decimal text "-12.50" -> VDec (-1250) 2
func coqDecText(t string) string {
	neg := strings.HasPrefix(t, "-")
	t = strings.TrimPrefix(t, "-")
	scale := 0
	if i := strings.IndexByte(t, '.'); i >= 0 {
		scale = len(t) - i - 1
		t = t[:i] + t[i+1:]
	}
	t = strings.TrimLeft(t, "0")
	if t == "" {
		t = "0"
	}
	if neg && t != "0" {
		t = "(-" + t + ")"
	}
	return fmt.Sprintf("(VDec %s %d)", t, scale)
}

func coqInt(v int64) string { return "(VInt " + lib.CoqZ(v) + ")" }

func (e *Expr) Coq() string {
	two := func(name string) string { return "(" + name + " " + e.A.Coq() + " " + e.B.Coq() + ")" }
	switch e.Op {
	case "field":
		return fmt.Sprintf("(EField %d)", e.I)
	case "lit":
		switch {
		case e.Int != nil:
			return "(ELit " + coqInt(*e.Int) + ")"
		case e.Dec != nil:
			return "(ELit " + coqDecText(*e.Dec) + ")"
		case e.Str != nil:
			return "(ELit " + coqStrVal(*e.Str) + ")"
		}
		return "(ELit VNull)"
	case "neg":
		return "(ENeg " + e.A.Coq() + ")"
	case "arith":
		return "(EArith " + e.Sub + " " + e.A.Coq() + " " + e.B.Coq() + ")"
	case "intdiv":
		return two("EIntDiv")
	case "mod":
		return two("EMod")
	case "cmp":
		return "(ECmp " + e.Sub + " " + e.A.Coq() + " " + e.B.Coq() + ")"
	case "and":
		return two("EAnd")
	case "or":
		return two("EOr")
	case "not":
		return "(ENot " + e.A.Coq() + ")"
	case "isnull":
		return "(EIsNull " + e.A.Coq() + ")"
	case "in":
		return "(EIn " + e.A.Coq() + " " + lib.CoqListOf(e.L, func(x *Expr) string { return x.Coq() }) + ")"
	case "between":
		return "(EBetween " + e.A.Coq() + " " + e.B.Coq() + " " + e.C.Coq() + ")"
	case "case":
		var bs []string
		for i := 0; i+1 < len(e.L); i += 2 {
			bs = append(bs, "("+e.L[i].Coq()+", "+e.L[i+1].Coq()+")")
		}
		els := "None"
		if e.Else != nil {
			els = "(Some " + e.Else.Coq() + ")"
		}
		return "(ECase " + lib.CoqList(bs) + " " + els + ")"
	case "nullif":
		return two("ENullIf")
	case "ifnull":
		return two("EIfNull")
	case "coalesce":
		return two("ECoalesce")
	case "if":
		return "(EIf " + e.C.Coq() + " " + e.A.Coq() + " " + e.B.Coq() + ")"
	case "greatest":
		return two("EGreatest")
	case "least":
		return two("ELeast")
	case "cast":
		t := e.Sub
		if t == "CDecimal" {
			t = fmt.Sprintf("(CDecimal %d %d)", e.P, e.S)
		}
		return "(ECast " + e.A.Coq() + " " + t + ")"
	case "concat":
		return two("EConcat")
	case "upper":
		return "(EUpper " + e.A.Coq() + ")"
	case "substr":
		return fmt.Sprintf("(ESubstr %s %s %s)", e.A.Coq(), lib.CoqZ(int64(e.P)), lib.CoqZ(int64(e.S)))
	case "length":
		return "(ELength " + e.A.Coq() + ")"
	}
	panic("op " + e.Op)
}

func litInt(v int64) *Expr { return &Expr{Op: "lit", Int: &v} }

// genExpr produces an expression of class cls: "int" (integer typed), "num" (integer or decimal), "str", "bool"
func genExpr(r *lib.RNG, cls string, depth int) *Expr {
	if cls == "num" {
		if r.Chance(2, 3) {
			cls = "int"
		} else {
			cls = "dec"
		}
	}
	g := func(c string) *Expr { return genExpr(r, c, depth-1) }
	if depth <= 0 || r.Chance(1, 4) {
		switch cls {
		case "str":
			if r.Chance(2, 3) {
				return &Expr{Op: "field", I: 6 + r.Intn(2)}
			}
			v := lib.Pick(r, []string{"", "a", "b", "ab", "B", "xyz"})
			return &Expr{Op: "lit", Str: &v}
		case "dec":
			if r.Chance(1, 2) {
				return &Expr{Op: "field", I: 5}
			}
			v := lib.Pick(r, []string{"1.5", "0.25", "-2.75", "10.0", "3.125"})
			return &Expr{Op: "lit", Dec: &v}
		case "bool":
			return &Expr{Op: "cmp", Sub: lib.Pick(r, []string{"Eq", "Ne", "Lt", "Le", "Gt", "Ge"}), A: genExpr(r, "int", 0), B: genExpr(r, "int", 0)}
		default:
			if r.Chance(3, 5) {
				return &Expr{Op: "field", I: r.Intn(5)}
			}
			if r.Chance(1, 10) {
				return &Expr{Op: "lit"}
			}
			return litInt(int64(lib.Pick(r, []int{0, 1, 2, 3, 4, 7, -1, -3, 100, 127, 128, 200, 255, 256, 300, -129, 40000, 70000, 3000000000, 5000000000})))
		}
	}
	switch cls {
	case "str":
		switch r.Intn(8) {
		case 0:
			return &Expr{Op: "concat", A: g(lib.Pick(r, []string{"str", "str", "int"})), B: g("str")}
		case 1:
			return &Expr{Op: "upper", A: g("str")}
		case 2:
			return &Expr{Op: "substr", A: g("str"), P: r.Range(-3, 4), S: r.Range(0, 3)}
		case 3:
			return &Expr{Op: "coalesce", A: g("str"), B: g("str")}
		case 4:
			return &Expr{Op: "if", C: g("bool"), A: g("str"), B: g("str")}
		case 5:
			return &Expr{Op: "cast", Sub: "CChar", A: g("int")}
		case 6:
			return &Expr{Op: "ifnull", A: g("str"), B: g(lib.Pick(r, []string{"str", "int"}))}
		default:
			return genCase(r, "str", depth)
		}
	case "dec":
		switch r.Intn(6) {
		case 0:
			return &Expr{Op: "arith", Sub: lib.Pick(r, []string{"Add", "Sub", "Mul"}), A: g("dec"), B: g("num")}
		case 1:
			return &Expr{Op: "mod", A: genModOperand(r), B: genModOperand(r)}
		case 2:
			return &Expr{Op: "cast", Sub: "CDecimal", P: r.Range(12, 20), S: r.Range(1, 3), A: g("num")}
		case 3:
			return &Expr{Op: "neg", A: &Expr{Op: "field", I: 5}}
		case 4:
			if r.Bool() {
				return genCase(r, "dec", depth)
			}
			return &Expr{Op: "nullif", A: g("dec"), B: g("num")}
		default:
			return &Expr{Op: "arith", Sub: "Mul", A: g("int"), B: &Expr{Op: "mod", A: genModOperand(r), B: genModOperand(r)}}
		}
	case "bool":
		switch r.Intn(8) {
		case 0:
			c := lib.Pick(r, []string{"num", "str"})
			return &Expr{Op: "cmp", Sub: lib.Pick(r, []string{"Eq", "Ne", "Lt", "Le", "Gt", "Ge"}), A: g(c), B: g(c)}
		case 1:
			return &Expr{Op: "and", A: g("bool"), B: g("bool")}
		case 2:
			return &Expr{Op: "or", A: g("bool"), B: g("bool")}
		case 3:
			return &Expr{Op: "not", A: g(lib.Pick(r, []string{"bool", "int"}))}
		case 4:
			return &Expr{Op: "isnull", A: g(lib.Pick(r, []string{"int", "str", "dec"}))}
		case 5:
			n := r.Range(1, 3)
			var l []*Expr
			for i := 0; i < n; i++ {
				l = append(l, g("int"))
			}
			return &Expr{Op: "in", A: g("int"), L: l}
		case 6:
			return &Expr{Op: "between", A: g("num"), B: g("int"), C: g("int")}
		default:
			return &Expr{Op: "and", A: g("int"), B: g("bool")}
		}
	}
	switch r.Intn(14) {
	case 0:
		x := g("int")
		if x.Op == "lit" {
			x = &Expr{Op: "field", I: r.Intn(5)}
		}
		return &Expr{Op: "neg", A: x}
	case 1, 2:
		return &Expr{Op: "arith", Sub: lib.Pick(r, []string{"Add", "Sub", "Mul"}), A: g("int"), B: g("int")}
	case 3:
		return &Expr{Op: "intdiv", A: g("int"), B: g("int")}
	case 4:
		return genCase(r, "int", depth)
	case 5:
		return &Expr{Op: "nullif", A: g("int"), B: g("int")}
	case 6:
		return &Expr{Op: "ifnull", A: g("int"), B: g("int")}
	case 7:
		return &Expr{Op: "coalesce", A: g("int"), B: g("int")}
	case 8:
		return &Expr{Op: "if", C: g("bool"), A: g("int"), B: g("int")}
	case 9:
		return &Expr{Op: lib.Pick(r, []string{"greatest", "least"}), A: g("int"), B: g("int")}
	case 10:
		if r.Bool() {
			return &Expr{Op: "cast", Sub: "CSigned", A: g("num")}
		}
		return &Expr{Op: "cast", Sub: "CUnsigned", A: g("int")}
	case 11:
		return &Expr{Op: "length", A: g("str")}
	case 12:
		return g("bool")
	default:
		return &Expr{Op: "intdiv", A: g("num"), B: g("int")}
	}
}

// genModOperand: operands of % stay shallow (columns, literals, one arithmetic step): Mod.Type inspects the whole operand tree
func genModOperand(r *lib.RNG) *Expr {
	leaf := func() *Expr {
		if r.Chance(3, 5) {
			return &Expr{Op: "field", I: r.Intn(5)}
		}
		return litInt(int64(lib.Pick(r, []int{1, 2, 3, 4, 7, -3, 100, 128, 300, 40000})))
	}
	if r.Chance(1, 3) {
		return &Expr{Op: "arith", Sub: lib.Pick(r, []string{"Add", "Sub", "Mul"}), A: leaf(), B: leaf()}
	}
	return leaf()
}

func genCase(r *lib.RNG, cls string, depth int) *Expr {
	n := r.Range(1, 2)
	e := &Expr{Op: "case"}
	for i := 0; i < n; i++ {
		vc := cls
		if cls == "dec" && r.Chance(1, 3) {
			vc = "int"
		}
		e.L = append(e.L, genExpr(r, "bool", depth-1), genExpr(r, vc, depth-1))
	}
	if r.Chance(2, 3) {
		vc := cls
		if cls != "dec" && r.Chance(1, 6) {
			vc = lib.Pick(r, []string{"int", "str"})
		}
		e.Else = genExpr(r, vc, depth-1)
	}
	return e
}

type BaseRow struct {
	A int64   `json:"a"`
	B *int64  `json:"b"`
	U uint64  `json:"u"`
	W *int64  `json:"w"`
	K *int64  `json:"k"`
	D *string `json:"d"`
	S string  `json:"s"`
	T *string `json:"t"`
}

type RelCase struct {
	T1   [][2]*int64 `json:"t1"` // t1(a BIGINT NOT NULL, b BIGINT)
	T2   [][2]*int64 `json:"t2"` // t2(a BIGINT NOT NULL, c INT UNSIGNED)
	Kind string      `json:"kind"`
}

type caseT struct {
	Kind  string    `json:"kind"` // model | sql | rel
	Rows  []BaseRow `json:"rows,omitempty"`
	Exprs []*Expr   `json:"exprs,omitempty"`
	Setup []string  `json:"setup,omitempty"`
	SQL   string    `json:"sql,omitempty"`
	Rel   *RelCase  `json:"rel,omitempty"`
}

func genBase(r *lib.RNG) []BaseRow {
	n := r.Range(0, 4)
	rows := make([]BaseRow, n)
	opt := func(v int64) *int64 {
		if r.Chance(1, 4) {
			return nil
		}
		return &v
	}
	for i := range rows {
		rows[i] = BaseRow{A: int64(r.Range(-3, 9)), S: lib.Pick(r, []string{"", "a", "b", "ab", "B"}), U: uint64(r.Range(0, 12))}
		if r.Chance(1, 5) {
			rows[i].U = lib.Pick(r, []uint64{18446744073709551615, 9223372036854775808, 4294967296})
		}
		rows[i].B = opt(int64(r.Range(-4, 6)))
		rows[i].W = opt(int64(lib.Pick(r, []int{0, 1, 2, 5, 9, 4000000000})))
		rows[i].K = opt(int64(lib.Pick(r, []int{-300, -2, 0, 1, 3, 7, 32767})))
		if !r.Chance(1, 4) {
			v := lib.Pick(r, []string{"0.00", "1.50", "-2.25", "12.34", "99.99", "7.00"})
			rows[i].D = &v
		}
		if !r.Chance(1, 3) {
			v := lib.Pick(r, []string{"", "a", "b", "A"})
			rows[i].T = &v
		}
	}
	return rows
}

func sqlOpt[T any](p *T, f func(T) string) string {
	if p == nil {
		return "NULL"
	}
	return f(*p)
}

func baseSetup(rows []BaseRow) []string {
	out := []string{"CREATE TABLE m (id BIGINT PRIMARY KEY, a BIGINT NOT NULL, b BIGINT, u BIGINT UNSIGNED NOT NULL, w INT UNSIGNED, k SMALLINT, d DECIMAL(10,2), s VARCHAR(20) NOT NULL, t VARCHAR(20))"}
	pi := func(v int64) string { return fmt.Sprint(v) }
	for i, r := range rows {
		out = append(out, fmt.Sprintf("INSERT INTO m VALUES (%d, %d, %s, %d, %s, %s, %s, '%s', %s)", i+1, r.A, sqlOpt(r.B, pi), r.U, sqlOpt(r.W, pi), sqlOpt(r.K, pi),
			sqlOpt(r.D, func(v string) string { return v }), r.S, sqlOpt(r.T, func(v string) string { return "'" + v + "'" })))
	}
	return out
}

// ---------- the predicate ----------

var fnRe = regexp.MustCompile(`^[A-Za-z_]+\(`)

func colLabel(name string) string {
	if m := fnRe.FindString(name); m != "" {
		return strings.ToUpper(strings.TrimSuffix(m, "("))
	}
	return "expr"
}

func sameValue(a, b interface{}) bool {
	switch x := a.(type) {
	case *apd.Decimal:
		y, ok := b.(*apd.Decimal)
		return ok && x.Cmp(y) == 0 && x.Exponent == y.Exponent
	case apd.Decimal:
		y, ok := b.(apd.Decimal)
		return ok && x.Cmp(&y) == 0
	case float64:
		y, ok := b.(float64)
		return ok && (x == y || (math.IsNaN(x) && math.IsNaN(y)))
	case time.Time:
		y, ok := b.(time.Time)
		return ok && x.Equal(y)
	}
	return reflect.DeepEqual(a, b)
}

// sameUnderType: Convert must not change the value.  Equality is the column type's own comparison, so that a Go
// representation difference (bool or int8 for a tinyint, int for a bigint, an exact decimal in a double column)
// is not reported; only a change of the SQL value is.
func sameUnderType(ctx *sql.Context, t sql.Type, conv, v interface{}) bool {
	if sameValue(conv, v) {
		return true
	}
	ok := false
	lib.Recover(func() {
		c, err := t.Compare(ctx, conv, v)
		ok = err == nil && c == 0
	})
	return ok
}

func stmtKind(q string) string {
	u := strings.ToUpper(q)
	switch {
	case strings.Contains(u, "LEFT JOIN"):
		return "left-join"
	case strings.Contains(u, "RIGHT JOIN"):
		return "right-join"
	case strings.Contains(u, " UNION ") || strings.Contains(u, " INTERSECT ") || strings.Contains(u, " EXCEPT "):
		return "set-op"
	case strings.Contains(u, " OVER ("):
		return "window"
	case strings.Contains(u, "(SELECT"):
		return "subquery"
	case strings.Contains(u, "GROUP BY"):
		return "group-by"
	}
	return "select"
}

// aggregates whose generated IsNullable returns false (unary_aggs.og.go) although they yield NULL without a value
var aggLabels = map[string]bool{"SUM": true, "MIN": true, "MAX": true, "FIRST": true, "LAST": true, "FIRST_VALUE": true, "LAST_VALUE": true,
	"ANY_VALUE": true, "GROUP_CONCAT": true, "STD": true, "STDDEV": true, "STDDEV_POP": true, "STDDEV_SAMP": true, "VAR_POP": true, "VAR_SAMP": true, "VARIANCE": true}

// notNullRootCause classifies a NULL in a NOT NULL column by the mechanism that produced it (not by the literal query)
func notNullRootCause(label, kind string) string {
	switch {
	case aggLabels[label]:
		return "not-null-column-has-null/aggregate-without-value" // any statement kind: same IsNullable()==false
	case label == "expr" && (kind == "left-join" || kind == "right-join"):
		return "not-null-column-has-null/outer-join-padded-side"
	case label == "expr" && kind == "subquery":
		return "not-null-column-has-null/derived-column-of-aggregate"
	}
	return "not-null-column-has-null/" + label + "/" + kind
}

// checkResult evaluates the property predicate on one result set.
func checkResult(c *lib.Ctx, id int, ctx *sql.Context, cs caseT, q string, res eng.Result) {
	c.PredChecked()
	reported := map[string]bool{}
	for _, row := range res.Rows {
		if len(row) != len(res.Schema) {
			c.PredFail(id, "row-width", fmt.Sprintf("%s: row of width %d for a schema of %d columns", q, len(row), len(res.Schema)), cs)
			return
		}
		for i, v := range row {
			col := res.Schema[i]
			label := colLabel(col.Name)
			if v == nil {
				if !col.Nullable {
					sig := notNullRootCause(label, stmtKind(q))
					if !reported[sig] {
						reported[sig] = true
						c.PredFail(id, sig, fmt.Sprintf("%s: column %q is reported NOT NULL (type %s) but a row holds NULL", q, col.Name, col.Type), cs)
					}
				}
				continue
			}
			var conv interface{}
			var inRange sql.ConvertInRange
			var err error
			p, pv := lib.Recover(func() { conv, inRange, err = col.Type.Convert(ctx, v) })
			var sig, why string
			switch {
			case p:
				sig, why = "convert-panics", "Convert panicked: "+pv
			case err != nil:
				sig, why = "convert-error", "Convert failed: "+err.Error()
			case inRange != sql.InRange:
				sig, why = "out-of-range", "value is out of the range of the column type"
			case !sameUnderType(ctx, col.Type, conv, v):
				sig, why = "not-a-value-of-type", fmt.Sprintf("Convert gives %T(%v)", conv, conv)
			default:
				continue
			}
			sig = fmt.Sprintf("%s/%s/%T-in-%s", sig, label, v, typeClass(col.Type))
			if rc := typeRootCause(col, v); rc != "" {
				sig = rc
			}
			if !reported[sig] {
				reported[sig] = true
				c.PredFail(id, sig, fmt.Sprintf("%s: column %q has type %s but holds %T(%v): %s", q, col.Name, col.Type, v, v, why), cs)
			}
		}
	}
}

var negNameRe = regexp.MustCompile(`^\(?-[A-Za-z(]`)

func isNegative(v interface{}) bool {
	switch x := v.(type) {
	case int8:
		return x < 0
	case int16:
		return x < 0
	case int32:
		return x < 0
	case int64:
		return x < 0
	case int:
		return x < 0
	}
	return false
}

// typeRootCause names the typing rule behind a value that is not a value of the reported type (by the shape of the
// column expression and of the reported type, not by the literal statement)
func typeRootCause(col *sql.Column, v interface{}) string {
	name := strings.ToLower(col.Name)
	tn := strings.ToLower(col.Type.String())
	switch {
	case strings.HasSuffix(tn, "unsigned") && isNegative(v) && strings.Contains(name, " div "):
		return "unsigned-type-holds-negative/intdiv-with-one-unsigned-operand"
	case strings.HasSuffix(tn, "unsigned") && isNegative(v) && negNameRe.MatchString(name):
		return "unsigned-type-holds-negative/unary-minus-keeps-small-unsigned-type"
	case decRe.MatchString(tn) && tn != "decimal(65,30)" && strings.ContainsAny(name, "%*+-"):
		if _, ok := v.(*apd.Decimal); ok { // whatever function passes the operand type through (NULLIF, IFNULL, ...)
			return "convert-error/expr/*apd.Decimal-in-decimal"
		}
	case tn == "decimal(65,30)":
		if d, ok := v.(*apd.Decimal); ok && d.NumDigits()+int64(d.Exponent) > 35 {
			return "decimal-out-of-range/generalised-decimal-65-30-holds-wider-operand"
		}
	}
	return ""
}

func typeClass(t sql.Type) string {
	s := strings.ToLower(t.String())
	if i := strings.IndexAny(s, "( "); i > 0 && !strings.HasPrefix(s, "bigint unsigned") {
		s = s[:i]
	}
	return s
}

// ---------- stream 1: modelled projections ----------

var decRe = regexp.MustCompile(`^decimal\((\d+),(\d+)\)$`)

// coqTy renders the reported engine type as a model type (exact integer kind, decimal precision/scale)
func coqTy(t sql.Type) string {
	n := strings.ToLower(t.String())
	if m := decRe.FindStringSubmatch(n); m != nil {
		return fmt.Sprintf("(TDec %s %s)", m[1], m[2])
	}
	switch n {
	case "tinyint(1)":
		return "TBool"
	case "tinyint":
		return "(TInt I8)"
	case "tinyint unsigned":
		return "(TInt U8)"
	case "smallint":
		return "(TInt I16)"
	case "smallint unsigned":
		return "(TInt U16)"
	case "mediumint":
		return "(TInt I24)"
	case "mediumint unsigned":
		return "(TInt U24)"
	case "int":
		return "(TInt I32)"
	case "int unsigned":
		return "(TInt U32)"
	case "bigint":
		return "(TInt I64)"
	case "bigint unsigned":
		return "(TInt U64)"
	case "double", "float":
		return "TDbl"
	case "null":
		return "TNull"
	}
	if types.IsText(t) {
		return "TStr"
	}
	return "TDbl"
}

func coqSchema(sch sql.Schema) string {
	var cols []string
	for _, col := range sch {
		cols = append(cols, fmt.Sprintf("Col %s %s", coqTy(col.Type), lib.CoqBool(col.Nullable)))
	}
	return lib.CoqList(cols)
}

func coqDecimal(d *apd.Decimal) string {
	txt := d.Text('f')
	return coqDecText(txt)
}

func coqEngineVal(v interface{}) string {
	switch x := v.(type) {
	case nil:
		return "VNull"
	case int64:
		return coqInt(x)
	case int8:
		return coqInt(int64(x))
	case int16:
		return coqInt(int64(x))
	case int32:
		return coqInt(int64(x))
	case int:
		return coqInt(int64(x))
	case uint8:
		return coqInt(int64(x))
	case uint16:
		return coqInt(int64(x))
	case uint32:
		return coqInt(int64(x))
	case uint64:
		return fmt.Sprintf("(VInt %d)", x)
	case bool:
		if x {
			return "(VInt 1)"
		}
		return "(VInt 0)"
	case string:
		return coqStrVal(x)
	case *apd.Decimal:
		return coqDecimal(x)
	case apd.Decimal:
		return coqDecimal(&x)
	case float64:
		if math.IsNaN(x) || math.IsInf(x, 0) {
			return "(VDbl 0 0)"
		}
		rat := new(big.Rat).SetFloat64(x)
		num, den := rat.Num().String(), rat.Denom().String()
		if strings.HasPrefix(num, "-") {
			num = "(" + num + ")"
		}
		return fmt.Sprintf("(VDbl %s %s)", num, den)
	}
	return "(VStr [0%Z])"
}

func coqRows(rows []sql.Row) string {
	var outs []string
	for _, row := range rows {
		var vs []string
		for _, v := range row {
			vs = append(vs, coqEngineVal(v))
		}
		outs = append(outs, lib.CoqList(vs))
	}
	return lib.CoqList(outs)
}

func optInt(p *int64) string {
	if p == nil {
		return "VNull"
	}
	return coqInt(*p)
}

func runModel(c *lib.Ctx, cs caseT) {
	e := eng.New("db")
	s := e.Session()
	s.MustExec(baseSetup(cs.Rows)...)
	var sel []string
	for _, ex := range cs.Exprs {
		sel = append(sel, ex.SQL())
	}
	q := "SELECT " + strings.Join(sel, ", ") + " FROM m ORDER BY id"
	cs.SQL = q
	res := s.Query(q)
	if res.Panic != "" {
		id := c.CaseNoModel(cs, "")
		c.PredChecked()
		c.PredFail(id, "panic", q+": "+res.Panic, cs)
		return
	}
	if res.Err != nil {
		// an error returns no value: outside the property
		c.Count("model_stmt_error:" + eng.ErrKind(res.Err))
		c.CaseNoModel(cs, "")
		c.PredChecked()
		return
	}
	rows := make([]string, len(cs.Rows))
	for i, r := range cs.Rows {
		d := "VNull"
		if r.D != nil {
			d = coqDecText(*r.D)
		}
		t := "VNull"
		if r.T != nil {
			t = coqStrVal(*r.T)
		}
		rows[i] = lib.CoqList([]string{coqInt(r.A), optInt(r.B), fmt.Sprintf("(VInt %d)", r.U), optInt(r.W), optInt(r.K), d, coqStrVal(r.S), t})
	}
	exprs := lib.CoqListOf(cs.Exprs, func(e *Expr) string { return e.Coq() })
	term := "(CProj baseSchema " + exprs + " " + lib.CoqList(rows) + " " + coqSchema(res.Schema) + " " + coqRows(res.Rows) + ")"
	key := ""
	if len(cs.Rows) > 0 {
		key = q + fmt.Sprint(len(cs.Rows))
	}
	id := c.Case(term, cs, key)
	c.Count("model_projection")
	for _, ex := range cs.Exprs {
		c.Count("expr_" + ex.Op)
	}
	checkResult(c, id, sql.NewEmptyContext(), cs, q, res)
}

// ---------- stream 1b: relational statements of the model ----------

func relSetup(rc *RelCase) []string {
	out := []string{"CREATE TABLE t1 (id BIGINT PRIMARY KEY AUTO_INCREMENT, a BIGINT NOT NULL, b BIGINT)", "CREATE TABLE t2 (id BIGINT PRIMARY KEY AUTO_INCREMENT, a BIGINT NOT NULL, c INT UNSIGNED)"}
	pi := func(v int64) string { return fmt.Sprint(v) }
	for _, r := range rc.T1 {
		out = append(out, fmt.Sprintf("INSERT INTO t1 (a, b) VALUES (%d, %s)", *r[0], sqlOpt(r[1], pi)))
	}
	for _, r := range rc.T2 {
		out = append(out, fmt.Sprintf("INSERT INTO t2 (a, c) VALUES (%d, %s)", *r[0], sqlOpt(r[1], pi)))
	}
	return out
}

func coqTable(schema string, rows [][2]*int64) string {
	var rs []string
	for _, r := range rows {
		rs = append(rs, lib.CoqList([]string{optInt(r[0]), optInt(r[1])}))
	}
	return "(RTable " + schema + " " + lib.CoqList(rs) + ")"
}

var relKinds = map[string][2]string{
	"inner":    {"SELECT t1.a, t1.b, t2.a, t2.c FROM t1 JOIN t2 ON t1.a = t2.a", "(RJoin JInner (ECmp Eq (EField 0) (EField 2)) T1 T2)"},
	"left":     {"SELECT t1.a, t1.b, t2.a, t2.c FROM t1 LEFT JOIN t2 ON t1.a = t2.a", "(RJoin JLeft (ECmp Eq (EField 0) (EField 2)) T1 T2)"},
	"right":    {"SELECT t1.a, t1.b, t2.a, t2.c FROM t1 RIGHT JOIN t2 ON t1.a = t2.a", "(RJoin JRight (ECmp Eq (EField 0) (EField 2)) T1 T2)"},
	"leftproj": {"SELECT t1.a + t2.a, COALESCE(t2.c, t1.b) FROM t1 LEFT JOIN t2 ON t1.b = t2.a", "(RProject [EArith Add (EField 0) (EField 2); ECoalesce (EField 3) (EField 1)] (RJoin JLeft (ECmp Eq (EField 1) (EField 2)) T1 T2))"},
	"union":    {"SELECT a, b FROM t1 UNION ALL SELECT a, c FROM t2", "(RUnion T1 T2)"},
	"uniond":   {"SELECT b, a FROM t1 UNION SELECT c, a FROM t2", "(RDistinct (RUnion (RProject [EField 1; EField 0] T1) (RProject [EField 1; EField 0] T2)))"},
	"filter":   {"SELECT a, b FROM t1 WHERE b > 1", "(RFilter (ECmp Gt (EField 1) (ELit (VInt 1))) T1)"},
	"group":    {"SELECT a, COUNT(b), SUM(b), MIN(b), MAX(b), AVG(b) FROM t1 GROUP BY a", "(RGroup [0%nat] [(ACount, 1%nat); (ASum, 1%nat); (AMin, 1%nat); (AMax, 1%nat); (AAvg, 1%nat)] T1)"},
	"global":   {"SELECT COUNT(c), SUM(c), MIN(c), MAX(a), AVG(c) FROM t2", "(RGroup [] [(ACount, 1%nat); (ASum, 1%nat); (AMin, 1%nat); (AMax, 0%nat); (AAvg, 1%nat)] T2)"},
	"globalw":  {"SELECT COUNT(b), MAX(b) FROM t1 WHERE a > 100", "(RGroup [] [(ACount, 1%nat); (AMax, 1%nat)] (RFilter (ECmp Gt (EField 0) (ELit (VInt 100))) T1))"},
	"derived":  {"SELECT q.m FROM (SELECT MAX(b) AS m FROM t1 WHERE a > 100) q", "(RProject [EField 0] (RGroup [] [(AMax, 1%nat)] (RFilter (ECmp Gt (EField 0) (ELit (VInt 100))) T1)))"},
	"distinct": {"SELECT DISTINCT a, b FROM t1", "(RDistinct T1)"},
	"groupjoin": {"SELECT t1.a, COUNT(t2.c), SUM(t2.c) FROM t1 LEFT JOIN t2 ON t1.a = t2.a GROUP BY t1.a", "(RGroup [0%nat] [(ACount, 3%nat); (ASum, 3%nat)] (RJoin JLeft (ECmp Eq (EField 0) (EField 2)) T1 T2))"},
}

func runRel(c *lib.Ctx, cs caseT) {
	e := eng.New("db")
	s := e.Session()
	s.MustExec(relSetup(cs.Rel)...)
	k := relKinds[cs.Rel.Kind]
	cs.SQL = k[0]
	res := s.Query(k[0])
	if res.Panic != "" || res.Err != nil {
		c.Count("rel_error")
		c.CaseNoModel(cs, "")
		c.PredChecked()
		return
	}
	t1 := coqTable("[Col (TInt I64) false; Col (TInt I64) true]", cs.Rel.T1)
	t2 := coqTable("[Col (TInt I64) false; Col (TInt U32) true]", cs.Rel.T2)
	q := strings.ReplaceAll(strings.ReplaceAll(k[1], "T1", t1), "T2", t2)
	term := "(CRel " + q + " " + coqSchema(res.Schema) + " " + coqRows(res.Rows) + ")"
	id := c.Case(term, cs, cs.Rel.Kind+fmt.Sprint(len(cs.Rel.T1), len(cs.Rel.T2)))
	c.Count("rel_" + cs.Rel.Kind)
	checkResult(c, id, sql.NewEmptyContext(), cs, k[0], res)
}

func genRel(r *lib.RNG) *RelCase {
	rc := &RelCase{}
	kinds := lib.SortedKeys(relKinds)
	rc.Kind = lib.Pick(r, kinds)
	mk := func(n int, lo, hi int) [][2]*int64 {
		var out [][2]*int64
		for i := 0; i < n; i++ {
			a := int64(r.Range(1, 4))
			var b *int64
			if !r.Chance(1, 3) {
				v := int64(r.Range(lo, hi))
				b = &v
			}
			out = append(out, [2]*int64{&a, b})
		}
		return out
	}
	rc.T1 = mk(r.Range(0, 4), -3, 5)
	rc.T2 = mk(r.Range(0, 3), 0, 4)
	return rc
}

// ---------- stream 2: statement mix (predicate only) ----------

var mixSetup = []string{
	"CREATE TABLE t (id BIGINT PRIMARY KEY, g BIGINT, a BIGINT, x BIGINT, s VARCHAR(20), c VARCHAR(20) COLLATE utf8mb4_0900_ai_ci, d DECIMAL(10,2), f DOUBLE, dt DATE, KEY ia (a))",
	"CREATE TABLE u (id BIGINT PRIMARY KEY, a BIGINT NOT NULL, n INT, v VARCHAR(10) NOT NULL)",
	"CREATE TABLE w (id BIGINT PRIMARY KEY, i INT, iu INT UNSIGNED, bi BIGINT, bu BIGINT UNSIGNED, si SMALLINT, su SMALLINT UNSIGNED)",
}

// same-width signed/unsigned pairs with unsigned values above the signed maximum
var wRows = []string{
	"INSERT INTO w VALUES (1, -5, 4294967295, -7, 18446744073709551615, -3, 65535)",
	"INSERT INTO w VALUES (2, 2147483647, 3000000000, 9223372036854775807, 9223372036854775808, 32767, 40000)",
	"INSERT INTO w VALUES (3, NULL, 7, NULL, 9, NULL, 1)",
}

func genMixData(r *lib.RNG) []string {
	out := append([]string(nil), mixSetup...)
	n := r.Range(0, 7)
	nv := func(s string) string {
		if r.Chance(1, 4) {
			return "NULL"
		}
		return s
	}
	for i := 1; i <= n; i++ {
		out = append(out, fmt.Sprintf("INSERT INTO t VALUES (%d, %d, %s, %s, %s, %s, %s, %s, %s)", i, r.Range(1, 2),
			nv(fmt.Sprint(r.Range(0, 3))), nv(fmt.Sprint(r.Range(-20, 50))), nv("'"+lib.Pick(r, []string{"a", "b", "A", ""})+"'"),
			nv("'"+lib.Pick(r, []string{"a", "B", "b"})+"'"), nv(fmt.Sprintf("%d.%02d", r.Range(-5, 30), r.Range(0, 99))),
			nv(fmt.Sprintf("%d.5", r.Range(-3, 9))), nv(fmt.Sprintf("'2024-0%d-1%d'", r.Range(1, 9), r.Range(0, 9)))))
	}
	for _, wr := range wRows {
		if r.Chance(3, 4) {
			out = append(out, wr)
		}
	}
	m := r.Range(0, 4)
	for i := 1; i <= m; i++ {
		out = append(out, fmt.Sprintf("INSERT INTO u VALUES (%d, %d, %s, '%s')", i, r.Range(0, 3), nv(fmt.Sprint(r.Range(-2, 2))), lib.Pick(r, []string{"p", "q", ""})))
	}
	return out
}

func genMixQuery(r *lib.RNG) string {
	frame := lib.Pick(r, []string{"ROWS BETWEEN 1 PRECEDING AND CURRENT ROW", "ROWS BETWEEN CURRENT ROW AND CURRENT ROW",
		"ROWS BETWEEN 2 PRECEDING AND 1 PRECEDING", "ROWS BETWEEN UNBOUNDED PRECEDING AND UNBOUNDED FOLLOWING", "ROWS BETWEEN 1 FOLLOWING AND 2 FOLLOWING"})
	col := lib.Pick(r, []string{"x", "a", "d", "f"})
	agg := lib.Pick(r, []string{"SUM", "AVG", "MIN", "MAX", "COUNT", "BIT_OR", "BIT_AND", "BIT_XOR"})
	where := lib.Pick(r, []string{"", "", " WHERE id > 100", " WHERE x IS NULL", " WHERE a = 1"})
	qs := []string{
		// C04-like
		"SELECT id, a, x, s, a + x AS e FROM t" + where + " ORDER BY " + lib.Pick(r, []string{"a", "a DESC, x", "s, id", "c DESC", "a + x", "id DESC"}) + lib.Pick(r, []string{"", " LIMIT 2", " LIMIT 3 OFFSET 1", " LIMIT 0"}),
		// C08-like aggregates
		fmt.Sprintf("SELECT g, %s(%s), COUNT(*) FROM t%s GROUP BY g", agg, col, where),
		fmt.Sprintf("SELECT %s(%s), %s(s), COUNT(%s) FROM t%s", agg, col, lib.Pick(r, []string{"MIN", "MAX", "COUNT"}), col, where),
		fmt.Sprintf("SELECT GROUP_CONCAT(s), JSON_ARRAYAGG(x), COUNT(DISTINCT a), %s(DISTINCT x) FROM t%s", lib.Pick(r, []string{"SUM", "AVG", "COUNT"}), where),
		// windows
		fmt.Sprintf("SELECT id, %s(%s) OVER (PARTITION BY g ORDER BY id %s) FROM t%s", lib.Pick(r, []string{"SUM", "AVG", "MAX", "COUNT", "FIRST_VALUE", "LAST_VALUE"}), col, frame, where),
		fmt.Sprintf("SELECT id, %s OVER (PARTITION BY g ORDER BY a) FROM t%s", lib.Pick(r, []string{"ROW_NUMBER()", "RANK()", "DENSE_RANK()", "PERCENT_RANK()", "NTILE(2)", "LAG(x)", "LEAD(x, 1, 0)", "LAG(s, 1, 'z')", "LEAD(d)"}), where),
		// expressions / functions
		"SELECT id, " + lib.Pick(r, []string{"a / x", "x DIV a", "x % a", "a + d", "x * f", "-x", "a = x", "x IS NULL", "COALESCE(x, a)", "COALESCE(x, 0)", "IF(a > 1, x, d)", "IFNULL(x, 'n')", "NULLIF(a, x)",
			"CASE WHEN a > 1 THEN x ELSE s END", "CASE a WHEN 1 THEN 'one' END", "CONCAT(s, c)", "LENGTH(s)", "UPPER(c)", "ABS(x)", "ROUND(d, 1)", "x + 0.5", "CAST(x AS CHAR)", "CAST(s AS SIGNED)", "dt + INTERVAL 1 DAY", "YEAR(dt)", "GREATEST(a, x)", "LEAST(a, x, 2)", "x BETWEEN 0 AND 10", "s LIKE 'a%'", "a IN (1, 2)", "x IN (1, NULL)", "SUBSTRING(s, 1, 1)", "a << 2", "x & 3", "NOT a", "a AND x", "a OR x"}) + " FROM t" + where,
		// joins
		"SELECT t.id, u.id, u.a, u.n, u.v, t.x FROM t LEFT JOIN u ON t.a = u.a" + lib.Pick(r, []string{"", " WHERE u.id IS NULL", " ORDER BY t.id"}),
		"SELECT t.id, u.id, u.v, t.s FROM t RIGHT JOIN u ON t.a = u.a",
		"SELECT t.id, u.v FROM t JOIN u ON t.a = u.a",
		"SELECT t.id, u.n FROM t CROSS JOIN u",
		"SELECT u.a, COUNT(t.id), SUM(t.x) FROM u LEFT JOIN t ON t.a = u.a GROUP BY u.a",
		// set operations
		"SELECT a FROM t UNION SELECT n FROM u",
		"SELECT a, s FROM t UNION ALL SELECT a, v FROM u",
		"SELECT x FROM t UNION SELECT d FROM t",
		"SELECT a FROM u UNION SELECT NULL",
		"SELECT v FROM u UNION ALL SELECT id FROM u",
		"SELECT a FROM t INTERSECT SELECT a FROM u",
		"SELECT a FROM u EXCEPT SELECT a FROM t",
		// set operation inside a derived table / CTE: NOT NULL branch with a nullable branch
		"SELECT * FROM (SELECT a FROM u UNION SELECT n FROM u) x",
		"SELECT * FROM (SELECT n FROM u UNION ALL SELECT a FROM u) x",
		"WITH x AS (SELECT a FROM u UNION ALL SELECT n FROM u) SELECT * FROM x",
		"SELECT * FROM (SELECT id FROM t UNION SELECT x FROM t) q",
		"SELECT q.c + 1 FROM (SELECT a AS c FROM u UNION SELECT a FROM t) q",
		// same-width signed / unsigned integer pairs
		"SELECT id, CASE WHEN id > 1 THEN " + lib.Pick(r, []string{"i ELSE iu", "iu ELSE i", "bi ELSE bu", "bu ELSE bi", "si ELSE su"}) + " END FROM w",
		"SELECT id, " + lib.Pick(r, []string{"COALESCE(i, iu)", "COALESCE(bi, bu)", "IF(id > 1, bu, bi)", "IF(id = 1, iu, i)", "IFNULL(bi, bu)", "GREATEST(bi, bu)", "LEAST(i, iu)", "bi + bu", "iu - i", "bu * 1"}) + " FROM w",
		"SELECT * FROM (SELECT " + lib.Pick(r, []string{"i FROM w UNION SELECT iu", "iu FROM w UNION ALL SELECT i", "bi FROM w UNION SELECT bu", "bu FROM w UNION ALL SELECT bi", "si FROM w UNION SELECT su"}) + " FROM w) x",
		"SELECT " + lib.Pick(r, []string{"i FROM w UNION SELECT iu", "bi FROM w UNION SELECT bu", "bu FROM w UNION ALL SELECT bi"}) + " FROM w",
		// subqueries
		"SELECT id, (SELECT MAX(n) FROM u WHERE u.a = t.a) FROM t",
		"SELECT id, EXISTS (SELECT 1 FROM u WHERE u.a = t.a), a IN (SELECT a FROM u) FROM t",
		"SELECT q.m, q.c FROM (SELECT MAX(x) AS m, COUNT(*) AS c FROM t" + where + ") q",
	}
	return lib.Pick(r, qs)
}

func runSQL(c *lib.Ctx, cs caseT) {
	e := eng.New("db")
	s := e.Session()
	s.MustExec(cs.Setup...)
	res := s.Query(cs.SQL)
	id := c.CaseNoModel(cs, cs.SQL)
	if os.Getenv("C09_DEBUG") != "" {
		fmt.Fprintf(os.Stderr, "Q: %s\n  err=%v panic=%q\n", cs.SQL, res.Err, res.Panic)
		for _, col := range res.Schema {
			fmt.Fprintf(os.Stderr, "  col %q type=%s nullable=%v\n", col.Name, col.Type, col.Nullable)
		}
		for _, row := range res.Rows {
			fmt.Fprintf(os.Stderr, "  row")
			for _, v := range row {
				fmt.Fprintf(os.Stderr, " %T(%v)", v, v)
			}
			fmt.Fprintln(os.Stderr)
		}
	}
	if res.Panic != "" {
		c.Count("mix_panic")
		c.PredChecked() // panics are C10's subject; no value was returned
		return
	}
	if res.Err != nil {
		c.Count("mix_error:" + eng.ErrKind(res.Err))
		c.PredChecked()
		return
	}
	c.Count("mix_ok")
	checkResult(c, id, sql.NewEmptyContext(), cs, cs.SQL, res)
}

func run(c *lib.Ctx, cs caseT) {
	switch cs.Kind {
	case "model":
		runModel(c, cs)
	case "rel":
		runRel(c, cs)
	default:
		runSQL(c, cs)
	}
}

func main() {
	lib.Main("C09", func(c *lib.Ctx) {
		c.Header = "From Coq Require Import List NArith ZArith.\nImport ListNotations.\nFrom GMS Require Import Expr.C09Typing Rel.C09Rel Corr.C09.\nOpen Scope N_scope.\nDefinition baseSchema : schema := " + coqBaseSchema + "."
		c.CaseType = "C09.case"
		c.MismatchFn = "C09.mismatches"
		c.SetRule("half of the cases: 1-4 well-typed expressions of depth <= 3 from the modelled fragment (columns a BIGINT NOT NULL, b BIGINT, " +
			"u BIGINT UNSIGNED NOT NULL, w INT UNSIGNED, k SMALLINT, d DECIMAL(10,2), s VARCHAR NOT NULL, t VARCHAR; integer literals of every width, decimal and text literals, NULL; " +
			"unary minus, + - * DIV %, six comparisons, AND/OR/NOT, IS NULL, IN, BETWEEN, CASE with/without ELSE, NULLIF, IFNULL, COALESCE, IF, GREATEST/LEAST, CAST AS SIGNED/UNSIGNED/DECIMAL/CHAR, " +
			"CONCAT/UPPER/SUBSTRING/LENGTH) projected over 0-4 rows: the exact reported type (integer kind and signedness, decimal precision/scale, text, boolean) and nullability " +
			"and every value are compared with the Coq typing model; a tenth: relational statements (joins, UNION, GROUP BY aggregates, DISTINCT, filter) whose reported schema is compared " +
			"with the model's code-rule schema and whose rows with the model's rows. Rest: statements drawn from " +
			"ORDER BY/LIMIT, GROUP BY aggregates (incl. empty input), window functions with ROWS frames, scalar functions/CASE/CAST, " +
			"LEFT/RIGHT/INNER/CROSS joins, UNION/INTERSECT/EXCEPT, subqueries over generated tables with NULLs: predicate only " +
			"(Convert(v) == v in range; NOT NULL columns hold no NULL).")
		if c.ReplayFile != "" {
			var cs caseT
			lib.LoadReplay(c.ReplayFile, &cs)
			run(c, cs)
			return
		}
		i64 := func(v int64) *int64 { return &v }
		str := func(v string) *string { return &v }
		dtxt := "12.34"
		rows := []BaseRow{{A: 7, B: nil, U: 9, W: i64(4000000000), K: i64(-300), D: &dtxt, S: "a", T: nil}, {A: 0, B: i64(2), U: 18446744073709551615, S: "", T: str("b")}}
		f := func(i int) *Expr { return &Expr{Op: "field", I: i} }
		lit := litInt
		arith := func(op string, a, b *Expr) *Expr { return &Expr{Op: "arith", Sub: op, A: a, B: b} }
		run(c, caseT{Kind: "model", Rows: rows, Exprs: []*Expr{{Op: "coalesce", A: f(1), B: arith("Add", f(0), lit(1))}, {Op: "intdiv", A: f(0), B: lit(0)}, {Op: "isnull", A: f(7)}, {Op: "concat", A: f(6), B: f(7)}}})
		// known findings of the expression typing rules (the _refuted witnesses of Props/C09.v)
		run(c, caseT{Kind: "model", Rows: []BaseRow{{A: 6, S: "a"}}, Exprs: []*Expr{arith("Mul", f(0), &Expr{Op: "mod", A: lit(4), B: f(0)})}})
		run(c, caseT{Kind: "model", Rows: []BaseRow{{A: 5000, B: i64(10000), S: "a"}}, Exprs: []*Expr{{Op: "mod", A: arith("Add", f(0), lit(100)), B: f(1)}}})
		run(c, caseT{Kind: "model", Rows: []BaseRow{{A: 100000000, D: &dtxt, S: "a"}}, Exprs: []*Expr{arith("Add", f(5), f(0))}})
		run(c, caseT{Kind: "model", Rows: []BaseRow{{A: 1, S: "a"}}, Exprs: []*Expr{{Op: "intdiv", A: lit(-500), B: lit(128)}}})
		// GREATEST/LEAST go through float64: (2^64-1) DIV 8 = 2305843009213693951 comes back as ...952 (a valid BIGINT; the model abstains beyond 2^53)
		run(c, caseT{Kind: "model", Rows: []BaseRow{{A: 8, U: 18446744073709551615, S: "a"}}, Exprs: []*Expr{{Op: "greatest", A: &Expr{Op: "intdiv", A: f(2), B: f(0)}, B: lit(255)}, {Op: "intdiv", A: f(2), B: f(0)}}})
		wide := []string{"CREATE TABLE z (id INT PRIMARY KEY, d DECIMAL(50,0) NOT NULL, a BIGINT NOT NULL, t8 TINYINT UNSIGNED NOT NULL, t16 SMALLINT UNSIGNED NOT NULL, t24 MEDIUMINT UNSIGNED NOT NULL)",
			"INSERT INTO z VALUES (1, 10000000000000000000000000000000000000000, 3, 5, 5, 5)"}
		for _, q := range []string{"SELECT CASE WHEN a > 1 THEN d ELSE a END FROM z", "SELECT IF(a > 1, d, a), IFNULL(d, a) FROM z", "SELECT d FROM z UNION SELECT a FROM z", "SELECT -t8, -t16, -t24 FROM z", "SELECT -500 DIV t8 FROM z"} {
			run(c, caseT{Kind: "sql", Setup: wide, SQL: q})
		}
		one, two, five := int64(1), int64(2), int64(5)
		for _, k := range lib.SortedKeys(relKinds) {
			run(c, caseT{Kind: "rel", Rel: &RelCase{Kind: k, T1: [][2]*int64{{&one, nil}, {&two, &five}, {&two, &one}}, T2: [][2]*int64{{&two, &one}, {&five, nil}}}})
			run(c, caseT{Kind: "rel", Rel: &RelCase{Kind: k}})
		}
		mixRows := []string{"INSERT INTO t VALUES (1,1,NULL,NULL,'a','a',0.10,1.5,'2024-01-10'),(2,1,1,5,'b','B',NULL,NULL,NULL),(3,2,2,NULL,NULL,NULL,1.25,2.5,'2024-02-11')",
			"INSERT INTO u VALUES (1,1,NULL,'p'),(2,5,2,'')"}
		for _, q := range []string{
			"SELECT SUM(x), MIN(x), MAX(s), AVG(x) FROM t WHERE id > 100",
			"SELECT id, SUM(x) OVER (ORDER BY id ROWS BETWEEN 2 PRECEDING AND 1 PRECEDING) FROM t",
			"SELECT id, NTILE(2) OVER (ORDER BY id) FROM t",
			"SELECT SUM(d), AVG(d) FROM t",
			"SELECT id, LEAD(x, 1, 0) OVER (ORDER BY id) FROM t",
			"SELECT t.id, u.a, u.v FROM t LEFT JOIN u ON t.a = u.a",
			"SELECT a FROM t UNION SELECT n FROM u",
			"SELECT * FROM (SELECT a FROM u UNION SELECT n FROM u) x",
			"WITH x AS (SELECT a FROM u UNION ALL SELECT n FROM u) SELECT * FROM x",
			"SELECT id, CASE WHEN id > 1 THEN i ELSE iu END FROM w",
			"SELECT id, CASE WHEN id > 1 THEN bi ELSE bu END FROM w",
			"SELECT * FROM (SELECT i FROM w UNION SELECT iu FROM w) x",
			"SELECT * FROM (SELECT bi FROM w UNION SELECT bu FROM w) x",
			"SELECT g, MAX(x), MIN(x), SUM(x) FROM t GROUP BY g",
			"SELECT u.a, COUNT(t.id), SUM(t.x) FROM u LEFT JOIN t ON t.a = u.a GROUP BY u.a",
			"SELECT t.id, u.id, u.v, t.s FROM t RIGHT JOIN u ON t.a = u.a",
			"SELECT q.m, q.c FROM (SELECT MAX(x) AS m, COUNT(*) AS c FROM t WHERE id > 100) q",
		} {
			run(c, caseT{Kind: "sql", Setup: append(append(append([]string(nil), mixSetup...), mixRows...), wRows...), SQL: q})
		}
		for i := 60; i < c.N; i++ {
			r := c.R.Fork()
			switch k := r.Intn(10); {
			case k < 5:
				n := r.Range(1, 4)
				var es []*Expr
				for j := 0; j < n; j++ {
					es = append(es, genExpr(r, lib.Pick(r, []string{"int", "int", "num", "str", "bool"}), r.Range(1, 3)))
				}
				run(c, caseT{Kind: "model", Rows: genBase(r), Exprs: es})
			case k < 6:
				run(c, caseT{Kind: "rel", Rel: genRel(r)})
			default:
				run(c, caseT{Kind: "sql", Setup: genMixData(r), SQL: genMixQuery(r)})
			}
		}
	})
}
