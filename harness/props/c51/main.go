// Driver for C51 (full-text search): CREATE TABLE ... FULLTEXT over the memory backend, generated DML
// histories, MATCH ... AGAINST result sets and the raw pseudo-index tables.  Observations go to the Coq model
// (Sys/Fulltext.v); the property predicate is evaluated on the implementation alone: MATCH result == independent
// reference (regexp tokenizer + shared word), and index tables after the history == index tables of a twin
// table freshly loaded with the final rows.
package main

import (
	"fmt"
	"regexp"
	"sort"
	"strings"

	"github.com/dolthub/go-mysql-server/sql"
	"github.com/dolthub/go-mysql-server/sql/fulltext"

	"verifharness/lib"
	"verifharness/lib/eng"
)

type opT struct {
	Kind string  `json:"kind"` // ins | upd | del | updn (UPDATE of the non-indexed column only)
	ID   int     `json:"id"`   // value of the id / n column
	PK   string  `json:"pk,omitempty"` // for string-PK tables
	Doc  *string `json:"doc"`  // new document (ins/upd); nil = NULL
}

type caseT struct {
	Table   string   `json:"table"` // intpk | keyless | strpk
	CI      bool     `json:"ci"`
	Ops     []opT    `json:"ops"`
	Queries []string `json:"queries"`
	Unicode bool     `json:"unicode,omitempty"` // implementation-only (not ASCII)
	Extra   bool     `json:"extra,omitempty"`   // the table has an additional non-indexed column n
	TabColl string   `json:"tabcoll,omitempty"` // table default collation (differs from the column's)
}

var vocab = []string{"alpha", "beta", "gamma", "Gamma", "GAMMA", "delta", "don't", "o'clock", "it's", "ab", "x1", "x12", "foo_bar",
	"2024", "a1b2c3", "stop", "Stop", "word", "Apple", "apple", "APPLE", "café", "naïve", "日本語", "über"}
var asciiVocab = vocab[:21]
var seps = []string{" ", " ", " ", ", ", ". ", "-", "  ", "'", "''", "! ", "\t", " '", "' "}

func genDoc(r *lib.RNG, uni bool) *string {
	if r.Chance(1, 12) {
		return nil
	}
	n := r.Range(0, 6)
	var sb strings.Builder
	if r.Chance(1, 6) {
		sb.WriteString(lib.Pick(r, seps))
	}
	v := asciiVocab
	if uni {
		v = vocab
	}
	for i := 0; i < n; i++ {
		if r.Chance(1, 40) {
			sb.WriteString(strings.Repeat("long", 22)) // 88 bytes > max word length 84
		} else {
			sb.WriteString(lib.Pick(r, v))
		}
		if i < n-1 || r.Chance(1, 4) {
			sb.WriteString(lib.Pick(r, seps))
		}
	}
	s := sb.String()
	return &s
}

func gen(r *lib.RNG) caseT {
	cs := caseT{Table: lib.Pick(r, []string{"intpk", "intpk", "keyless", "strpk"}), CI: r.Bool()}
	if r.Chance(1, 8) {
		cs.Unicode, cs.CI = true, false
	}
	cs.Extra = r.Chance(1, 2)
	if r.Chance(1, 3) {
		// the table's default collation differs from the FULLTEXT column's
		if cs.CI {
			cs.TabColl = "utf8mb4_0900_bin"
		} else {
			cs.TabColl = "utf8mb4_0900_ai_ci"
		}
	}
	nops := r.Range(3, 10)
	pks := []string{"a", "ab", "b", "k1", "k2"}
	for i := 0; i < nops; i++ {
		k := r.Intn(10)
		id := r.Range(1, 5)
		o := opT{ID: id, PK: lib.Pick(r, pks)}
		switch {
		case k < 5:
			o.Kind, o.Doc = "ins", genDoc(r, cs.Unicode)
		case k < 7:
			o.Kind, o.Doc = "upd", genDoc(r, cs.Unicode)
		case k < 8 && cs.Extra:
			o.Kind = "updn"
		case k < 8:
			o.Kind, o.Doc = "upd", genDoc(r, cs.Unicode)
		default:
			o.Kind = "del"
			if r.Chance(1, 2) && i+1 < nops { // delete then re-insert the same id with a new document
				cs.Ops = append(cs.Ops, o)
				o = opT{Kind: "ins", ID: o.ID, PK: o.PK, Doc: genDoc(r, cs.Unicode)}
				i++
			}
		}
		cs.Ops = append(cs.Ops, o)
	}
	nq := r.Range(2, 4)
	for i := 0; i < nq; i++ {
		q := lib.Pick(r, asciiVocab)
		if cs.Unicode {
			q = lib.Pick(r, vocab)
		}
		if r.Chance(1, 3) {
			q += lib.Pick(r, seps) + lib.Pick(r, asciiVocab)
		}
		if r.Chance(1, 6) {
			q = "Apple apple"
		}
		if r.Chance(1, 5) {
			q = strings.ToUpper(q)
		}
		cs.Queries = append(cs.Queries, q)
	}
	return cs
}

// ---------- independent reference ----------
var wordRe = regexp.MustCompile(`[\pL\pN_]+(?:'[\pL\pN_]+)*`)

func refWords(doc string) []string {
	var out []string
	for _, w := range wordRe.FindAllString(doc, -1) {
		if len(w) >= 3 {
			out = append(out, w)
		}
	}
	return out
}
func fold(w string, ci bool) string {
	if !ci {
		return w
	}
	b := []byte(w)
	for i, c := range b {
		if c >= 'a' && c <= 'z' {
			b[i] = c - 32
		}
	}
	return string(b)
}
func refMatch(doc *string, q string, ci bool) bool {
	if doc == nil {
		return false
	}
	have := map[string]bool{}
	for _, w := range refWords(*doc) {
		if len(w) <= 84 {
			have[fold(w, ci)] = true
		}
	}
	for _, w := range refWords(q) {
		if have[fold(w, ci)] {
			return true
		}
	}
	return false
}

// ---------- table tracking ----------
type trow struct {
	id  int
	pk  string
	doc *string
	n   int
}

func sqlStr(s *string) string {
	if s == nil {
		return "NULL"
	}
	return "'" + strings.ReplaceAll(strings.ReplaceAll(*s, `\`, `\\`), "'", "''") + "'"
}

func (cs caseT) ddl(name string) string {
	coll := " COLLATE utf8mb4_0900_bin"
	if cs.CI {
		coll = " COLLATE utf8mb4_0900_ai_ci"
	}
	if cs.TabColl == "" && !cs.CI {
		coll = ""
	}
	x := ""
	if cs.Extra {
		x = "n INT, "
	}
	opt := ""
	if cs.TabColl != "" {
		opt = " COLLATE " + cs.TabColl
	}
	switch cs.Table {
	case "intpk":
		return fmt.Sprintf("CREATE TABLE %s (id INT PRIMARY KEY, %sdoc TEXT%s, FULLTEXT idx (doc))%s", name, x, coll, opt)
	case "strpk":
		return fmt.Sprintf("CREATE TABLE %s (pk VARCHAR(20) COLLATE utf8mb4_0900_bin PRIMARY KEY, %sdoc TEXT%s, FULLTEXT idx (doc))%s", name, x, coll, opt)
	}
	return fmt.Sprintf("CREATE TABLE %s (id INT, %sdoc TEXT%s, FULLTEXT idx (doc))%s", name, x, coll, opt)
}

func (cs caseT) keyOf(r trow) string {
	if cs.Table == "strpk" {
		return "s:" + r.pk
	}
	return fmt.Sprintf("i:%d", r.id)
}
func (cs caseT) insertSQL(name string, r trow) string {
	x := ""
	if cs.Extra {
		x = fmt.Sprintf("%d, ", r.n)
	}
	if cs.Table == "strpk" {
		return fmt.Sprintf("INSERT INTO %s VALUES ('%s', %s%s)", name, r.pk, x, sqlStr(r.doc))
	}
	return fmt.Sprintf("INSERT INTO %s VALUES (%d, %s%s)", name, r.id, x, sqlStr(r.doc))
}
func (cs caseT) where(o opT) string {
	if cs.Table == "strpk" {
		return fmt.Sprintf("pk = '%s'", o.PK)
	}
	return fmt.Sprintf("id = %d", o.ID)
}
func (cs caseT) sqlRow(r trow) sql.Row {
	var d interface{}
	if r.doc != nil {
		d = *r.doc
	}
	var row sql.Row
	if cs.Table == "strpk" {
		row = sql.Row{r.pk}
	} else {
		row = sql.Row{int32(r.id)}
	}
	if cs.Extra {
		row = append(row, int32(r.n))
	}
	return append(row, d)
}

var ctx = sql.NewEmptyContext()

func dump(s *eng.S, q string) ([]string, error) {
	r := s.Query(q)
	if r.Err != nil {
		return nil, r.Err
	}
	var out []string
	for _, row := range r.Rows {
		parts := make([]string, len(row))
		for i, v := range row {
			parts[i] = fmt.Sprint(v)
		}
		out = append(out, strings.Join(parts, "\x00"))
	}
	sort.Strings(out)
	return out, nil
}

func isASCII(s string) bool {
	for i := 0; i < len(s); i++ {
		if s[i] >= 0x80 {
			return false
		}
	}
	return true
}

func coqDoc(s *string) string {
	if s == nil {
		return "None"
	}
	return "(Some " + lib.CoqStr(*s) + ")"
}

func run(c *lib.Ctx, cs caseT) {
	if p, pv := lib.Recover(func() { run1(c, cs) }); p {
		id := c.CaseNoModel(cs, "")
		c.PredFail(id, "panic", "panic while running the case: "+pv, cs)
	}
}

func run1(c *lib.Ctx, cs caseT) {
	e := eng.New("db")
	s := e.Session()
	s.MustExec(cs.ddl("t"))
	var rows []trow
	hashID := map[string]int{}
	hid := func(r trow) (int, string) {
		h, err := fulltext.HashRow(ctx, cs.sqlRow(r))
		if err != nil {
			panic(err)
		}
		if _, ok := hashID[h]; !ok {
			hashID[h] = len(hashID) + 1
		}
		return hashID[h], h
	}
	keyID := map[string]int{}
	kid := func(r trow) int {
		if cs.Table == "keyless" {
			i, _ := hid(r)
			return i
		}
		k := cs.keyOf(r)
		if _, ok := keyID[k]; !ok {
			keyID[k] = len(keyID) + 1
		}
		return keyID[k]
	}
	coqRow := func(r trow) string {
		h, _ := hid(r)
		return fmt.Sprintf("(mkrow %d %d (doc_of %s))", h, kid(r), coqDoc(r.doc))
	}
	var coqOps []string
	modelOK := !cs.Unicode
	for _, o := range cs.Ops {
		if o.Doc != nil && !isASCII(*o.Doc) {
			modelOK = false
		}
		match := func(r trow) bool {
			if cs.Table == "strpk" {
				return r.pk == o.PK
			}
			return r.id == o.ID
		}
		switch o.Kind {
		case "ins":
			nr := trow{id: o.ID, pk: o.PK, doc: o.Doc, n: 0}
			res := s.Query(cs.insertSQL("t", nr))
			if res.Err != nil {
				c.Count("op/insert-rejected:" + eng.ErrKind(res.Err))
				continue
			}
			c.Count("op/insert")
			rows = append(rows, nr)
			coqOps = append(coqOps, "OIns "+coqRow(nr))
		case "updn":
			res := s.Query(fmt.Sprintf("UPDATE t SET n = n + 1 WHERE %s", cs.where(o)))
			if res.Err != nil {
				c.Count("op/update-error:" + eng.ErrKind(res.Err))
				continue
			}
			for i := range rows {
				if match(rows[i]) {
					nr := rows[i]
					nr.n++
					coqOps = append(coqOps, fmt.Sprintf("OUpd %s %s", coqRow(rows[i]), coqRow(nr)))
					c.Count("op/update-other-column-only")
					rows[i] = nr
				}
			}
		case "upd":
			res := s.Query(fmt.Sprintf("UPDATE t SET doc = %s WHERE %s", sqlStr(o.Doc), cs.where(o)))
			if res.Err != nil {
				c.Count("op/update-error:" + eng.ErrKind(res.Err))
				continue
			}
			for i := range rows {
				if match(rows[i]) {
					nr := rows[i]
					nr.doc = o.Doc
					same := (nr.doc == nil && rows[i].doc == nil) || (nr.doc != nil && rows[i].doc != nil && fold(*nr.doc, cs.CI) == fold(*rows[i].doc, cs.CI))
					if same { // the engine skips rows whose values compare equal under the column collation
						nr.doc = rows[i].doc
					}
					if !same {
						coqOps = append(coqOps, fmt.Sprintf("OUpd %s %s", coqRow(rows[i]), coqRow(nr)))
						c.Count("op/update-row")
					}
					rows[i] = nr
				}
			}
		default:
			res := s.Query(fmt.Sprintf("DELETE FROM t WHERE %s", cs.where(o)))
			if res.Err != nil {
				c.Count("op/delete-error:" + eng.ErrKind(res.Err))
				continue
			}
			var keep []trow
			for _, r := range rows {
				if match(r) {
					coqOps = append(coqOps, "ODel "+coqRow(r))
					c.Count("op/delete-row")
				} else {
					keep = append(keep, r)
				}
			}
			rows = keep
		}
	}

	// observations: pseudo-index tables and MATCH results
	dcd, err1 := dump(s, "SELECT * FROM t_idx_0_FTS_DOC_COUNT")
	gcd, err2 := dump(s, "SELECT * FROM t_idx_0_FTS_GLOBAL_COUNT")
	rcd, err3 := dump(s, "SELECT * FROM t_idx_0_FTS_ROW_COUNT")
	if err1 != nil || err2 != nil || err3 != nil {
		id := c.CaseNoModel(cs, "")
		c.PredFail(id, "index-tables-unreadable", fmt.Sprint(err1, err2, err3), cs)
		return
	}
	idCol := "id"
	if cs.Table == "strpk" {
		idCol = "pk"
	}
	type qobs struct {
		q    string
		keys []int // model key ids of the rows returned
		raw  []string
	}
	var qs []qobs
	qfail := ""
	for _, q := range cs.Queries {
		nCol := "0"
		if cs.Extra {
			nCol = "n"
		}
		res := s.Query(fmt.Sprintf("SELECT %s, doc, %s FROM t WHERE MATCH(doc) AGAINST (%s)", idCol, nCol, sqlStr(&q)))
		if res.Err != nil {
			qfail = fmt.Sprintf("MATCH AGAINST(%q) failed: %v", q, res.Err)
			break
		}
		o := qobs{q: q}
		for _, row := range res.Rows {
			r := trow{}
			if cs.Table == "strpk" {
				r.pk = fmt.Sprint(row[0])
			} else {
				r.id = int(row[0].(int32))
			}
			if row[1] != nil {
				d := fmt.Sprint(row[1])
				r.doc = &d
			}
			fmt.Sscan(fmt.Sprint(row[2]), &r.n)
			o.keys = append(o.keys, kid(r))
			o.raw = append(o.raw, fmt.Sprintf("%v|%s", row[0], sqlStr(r.doc)))
		}
		sort.Strings(o.raw)
		qs = append(qs, o)
		if !isASCII(q) {
			modelOK = false
		}
	}
	if qfail != "" {
		id := c.CaseNoModel(cs, "")
		c.PredFail(id, "match-error", qfail, cs)
		return
	}

	c.Count("table/" + cs.Table)
	c.Count(fmt.Sprintf("collation-ci/%v", cs.CI))
	key := fmt.Sprintf("%v", cs)
	if len(rows) == 0 {
		key = ""
	}
	var id int
	if modelOK {
		// word tables: (word, key, count) with the key mapped to the model's key ids
		split := func(l string) []string { return strings.Split(l, "\x00") }
		var dcT, gcT, rcT []string
		okMap := true
		for _, l := range dcd {
			p := split(l)
			var k int
			if cs.Table == "keyless" {
				k = hashID[p[1]]
			} else if cs.Table == "strpk" {
				k = keyID["s:"+p[1]]
			} else {
				k = keyID["i:"+p[1]]
			}
			if k == 0 {
				okMap = false
			}
			dcT = append(dcT, fmt.Sprintf("(%s, %d, %s)", lib.CoqStr(p[0]), k, p[2]))
		}
		for _, l := range gcd {
			p := split(l)
			gcT = append(gcT, fmt.Sprintf("(%s, %s)", lib.CoqStr(p[0]), p[1]))
		}
		for _, l := range rcd {
			p := split(l)
			h := hashID[p[0]]
			if h == 0 {
				okMap = false
			}
			rcT = append(rcT, fmt.Sprintf("(%d, (%s, %s))", h, p[1], p[2]))
		}
		var qT []string
		for _, o := range qs {
			qT = append(qT, fmt.Sprintf("(%s, %s)", lib.CoqStr(o.q), lib.CoqListOf(o.keys, lib.CoqNat)))
		}
		if !okMap {
			id = c.CaseNoModel(cs, key)
			c.PredFail(id, "index-table-has-unknown-key", "an index table row refers to a row hash / key the driver never produced", cs)
		} else {
			term := fmt.Sprintf("mkcase %s %s %s %s %s %s %s", lib.CoqBool(cs.Table != "keyless"), lib.CoqBool(cs.CI), lib.CoqList(coqOps), lib.CoqList(dcT), lib.CoqList(gcT), lib.CoqList(rcT), lib.CoqList(qT))
			id = c.Case(term, cs, key)
		}
	} else {
		c.Count("implementation-only (non-ASCII)")
		id = c.CaseNoModel(cs, key)
	}

	// predicate 1: MATCH result == reference over the table's current rows
	for _, o := range qs {
		c.PredChecked()
		var want []string
		for _, r := range rows {
			if refMatch(r.doc, o.q, cs.CI) {
				kv := fmt.Sprint(r.id)
				if cs.Table == "strpk" {
					kv = r.pk
				}
				want = append(want, fmt.Sprintf("%v|%s", kv, sqlStr(r.doc)))
			}
		}
		sort.Strings(want)
		if len(want) > 0 {
			c.Count("match/nonempty-expected")
		}
		if strings.Join(want, "\n") != strings.Join(o.raw, "\n") {
			sig := "match-differs-from-reference/" + cs.Table
			if cs.Table == "strpk" && collides(cs, rows) {
				sig = "match-wrong/row-hash-collision-string-columns"
			} else if cs.Table != "keyless" && strings.Join(dedup(want), "\n") == strings.Join(dedup(o.raw), "\n") && len(refWords(o.q)) > 1 {
				sig = "match-duplicates/row-contains-several-query-words"
			}
			c.PredFail(id, sig, fmt.Sprintf("MATCH(doc) AGAINST(%q): got %q, rows containing a search word: %q", o.q, o.raw, want), cs)
		}
	}

	// predicate 3: WHERE MATCH agrees with the relevance projection (MATCH ... AGAINST in the select list > 0)
	for _, o := range qs {
		c.PredChecked()
		nCol := "0"
		if cs.Extra {
			nCol = "n"
		}
		res := s.Query(fmt.Sprintf("SELECT %s, doc, %s, MATCH(doc) AGAINST (%s) FROM t", idCol, nCol, sqlStr(&o.q)))
		if res.Err != nil {
			c.PredFail(id, "match-projection-error", fmt.Sprintf("MATCH AGAINST(%q) in the select list failed: %v", o.q, res.Err), cs)
			continue
		}
		var proj []string
		for _, row := range res.Rows {
			rel, _ := row[3].(float32)
			if f64, ok := row[3].(float64); ok {
				rel = float32(f64)
			}
			if rel > 0 {
				var d *string
				if row[1] != nil {
					x := fmt.Sprint(row[1])
					d = &x
				}
				proj = append(proj, fmt.Sprintf("%v|%s", row[0], sqlStr(d)))
			}
		}
		sort.Strings(proj)
		if strings.Join(dedup(proj), "\n") != strings.Join(dedup(o.raw), "\n") {
			c.PredFail(id, "where-match-differs-from-relevance-projection/"+cs.Table, fmt.Sprintf("MATCH(doc) AGAINST(%q): WHERE returns %q, rows with relevance > 0: %q", o.q, dedup(o.raw), dedup(proj)), cs)
		}
	}

	// predicate 2: the index tables equal those of a twin table loaded with the final rows only
	c.PredChecked()
	s.MustExec(cs.ddl("w"))
	for _, r := range rows {
		if res := s.Query(cs.insertSQL("w", r)); res.Err != nil {
			c.PredFail(id, "twin-insert-failed", res.Err.Error(), cs)
			return
		}
	}
	for _, tb := range []struct {
		name string
		have []string
	}{{"DOC_COUNT", dcd}, {"GLOBAL_COUNT", gcd}, {"ROW_COUNT", rcd}} {
		w, err := dump(s, "SELECT * FROM w_idx_0_FTS_"+tb.name)
		if err != nil {
			c.PredFail(id, "index-tables-unreadable", err.Error(), cs)
			return
		}
		if strings.Join(foldWords(w, cs.CI, tb.name), "\n") != strings.Join(foldWords(tb.have, cs.CI, tb.name), "\n") {
			sig := "index-out-of-sync/" + strings.ToLower(tb.name) + "/" + cs.Table
			c.PredFail(id, sig, fmt.Sprintf("after the history the %s table is %q, a fresh index over the same rows has %q",
				tb.name, strings.ReplaceAll(strings.Join(tb.have, ";"), "\x00", ","), strings.ReplaceAll(strings.Join(w, ";"), "\x00", ",")), cs)
			return
		}
	}
}

// collides: two present rows of a string-PK table whose column values concatenate to the same byte string
func collides(cs caseT, rows []trow) bool {
	seen := map[string]string{}
	for _, r := range rows {
		if r.doc == nil {
			continue
		}
		k := r.pk + *r.doc
		if p, ok := seen[k]; ok && p != r.pk {
			return true
		}
		seen[k] = r.pk
	}
	return false
}

// foldWords: under a case-insensitive collation the stored spelling of a word is whichever came first
func foldWords(l []string, ci bool, table string) []string {
	if !ci || table == "ROW_COUNT" {
		return l
	}
	out := make([]string, len(l))
	for i, x := range l {
		p := strings.SplitN(x, "\x00", 2)
		out[i] = fold(p[0], true) + "\x00" + p[1]
	}
	sort.Strings(out)
	return out
}

func dedup(l []string) []string {
	var out []string
	for i, x := range l {
		if i == 0 || x != l[i-1] {
			out = append(out, x)
		}
	}
	return out
}

func sp(s string) *string { return &s }

func main() {
	lib.Main("C51", func(c *lib.Ctx) {
		c.Header = "From Coq Require Import List NArith.\nImport ListNotations.\nFrom GMS Require Import Sys.Fulltext Corr.C51.\nOpen Scope N_scope."
		c.CaseType = "C51.case"
		c.MismatchFn = "C51.mismatches"
		c.SetRule("tables: INT primary key / no key (duplicate rows possible) / VARCHAR primary key; collation utf8mb4_0900_bin or utf8mb4_0900_ai_ci; " +
			"3-10 DML statements (insert, update, delete; NULL documents; duplicate-key rejections) over documents built from a vocabulary with " +
			"apostrophes, digits, underscores, short words, case variants, over-long words and varied separators; 2-4 MATCH AGAINST queries. " +
			"1/8 of the cases use non-ASCII words (implementation-only). Non-trivial = distinct case with a non-empty final table.")
		if c.ReplayFile != "" {
			var cs caseT
			lib.LoadReplay(c.ReplayFile, &cs)
			run(c, cs)
			return
		}
		corpus := []caseT{
			{Table: "intpk", CI: true, Ops: []opT{{Kind: "ins", ID: 1, Doc: sp("Hello world don't stop")}, {Kind: "ins", ID: 2, Doc: sp("hello again o'clock it's")},
				{Kind: "ins", ID: 3, Doc: nil}, {Kind: "ins", ID: 4, Doc: sp("ab cd")}, {Kind: "upd", ID: 2, Doc: sp("world's end")}, {Kind: "del", ID: 1}},
				Queries: []string{"HELLO", "world", "don't", "ab"}},
			{Table: "keyless", CI: false, Ops: []opT{{Kind: "ins", ID: 1, Doc: sp("alpha beta")}, {Kind: "ins", ID: 1, Doc: sp("alpha beta")},
				{Kind: "ins", ID: 2, Doc: sp("beta gamma")}, {Kind: "upd", ID: 1, Doc: sp("gamma delta")}, {Kind: "del", ID: 2}},
				Queries: []string{"alpha", "gamma", "beta"}},
			{Table: "intpk", CI: false, Extra: true, Ops: []opT{{Kind: "ins", ID: 1, Doc: sp("alpha beta")}, {Kind: "ins", ID: 2, Doc: sp("beta gamma")},
				{Kind: "updn", ID: 1}, {Kind: "updn", ID: 1}, {Kind: "del", ID: 1}, {Kind: "ins", ID: 1, Doc: sp("delta word")}},
				Queries: []string{"alpha", "delta", "beta"}},
			{Table: "intpk", CI: false, TabColl: "utf8mb4_0900_ai_ci", Ops: []opT{{Kind: "ins", ID: 1, Doc: sp("Apple pie")}, {Kind: "ins", ID: 2, Doc: sp("apple tart")},
				{Kind: "ins", ID: 3, Doc: sp("APPLE")}}, Queries: []string{"Apple apple", "apple", "APPLE pie"}},
			{Table: "intpk", CI: true, TabColl: "utf8mb4_0900_bin", Ops: []opT{{Kind: "ins", ID: 1, Doc: sp("Apple pie")}, {Kind: "ins", ID: 2, Doc: sp("apple tart")}},
				Queries: []string{"Apple apple", "APPLE"}},
			{Table: "strpk", CI: false, Ops: []opT{{Kind: "ins", PK: "a", Doc: sp("bcdef hello")}, {Kind: "ins", PK: "ab", Doc: sp("cdef hello")}},
				Queries: []string{"cdef", "hello"}},
		}
		for _, cs := range corpus {
			run(c, cs)
		}
		for i := len(corpus); i < c.N; i++ {
			run(c, gen(c.R.Fork()))
		}
	})
}
