// Driver for C52 (geometry WKB/WKT codecs, spatial index lookup): runs Serialize / GeometryType.Convert /
// ST_AsWKB / ST_GeomFromWKB / ST_AsText / ST_GeomFromText / BBox from /repo on generated geometries and on
// malformed byte strings, records the observations for the Coq model (Codec/Wkb.v), and evaluates the property
// predicate on the implementation alone (round trips; spatial-index table == index-free twin).
package main

import (
	"bytes"
	"encoding/binary"
	"encoding/hex"
	"fmt"
	"math"
	"sort"
	"strings"

	"github.com/dolthub/go-mysql-server/sql"
	"github.com/dolthub/go-mysql-server/sql/expression"
	"github.com/dolthub/go-mysql-server/sql/expression/function/spatial"
	"github.com/dolthub/go-mysql-server/sql/types"

	"verifharness/lib"
	"verifharness/lib/eng"
)

// ---------- geometry AST (coordinates as float64 bit patterns) ----------

type Pt struct{ X, Y uint64 }

type Shape struct {
	T     int       `json:"t"` // 1 point 2 line 3 poly 4 mpoint 5 mline 6 mpoly 7 coll
	Pts   []Pt      `json:"pts,omitempty"`
	Rings [][]Pt    `json:"rings,omitempty"`
	Polys [][][]Pt  `json:"polys,omitempty"`
	Geoms []Shape   `json:"geoms,omitempty"`
}

type idxCase struct {
	Rows    []string `json:"rows"`    // WKT of the table rows (ids 1..n)
	Queries []string `json:"queries"` // WHERE clauses over column g
}

type caseT struct {
	Kind string   `json:"kind"` // ser | deser | sqlwkb | wkt | engine | bbox | index
	Srid uint32   `json:"srid"`
	G    *Shape   `json:"g,omitempty"`
	Buf  string   `json:"buf,omitempty"` // hex
	Box  [][2]int64 `json:"box,omitempty"`
	Idx  *idxCase `json:"idx,omitempty"`
	Note string   `json:"note,omitempty"`
}

func f(b uint64) float64 { return math.Float64frombits(b) }

func goPt(p Pt, srid uint32) types.Point { return types.Point{SRID: srid, X: f(p.X), Y: f(p.Y)} }
func goLine(ps []Pt, srid uint32) types.LineString {
	out := make([]types.Point, len(ps))
	for i, p := range ps {
		out[i] = goPt(p, srid)
	}
	return types.LineString{SRID: srid, Points: out}
}
func goPoly(rs [][]Pt, srid uint32) types.Polygon {
	out := make([]types.LineString, len(rs))
	for i, r := range rs {
		out[i] = goLine(r, srid)
	}
	return types.Polygon{SRID: srid, Lines: out}
}

func toGo(s Shape, srid uint32) types.GeometryValue {
	switch s.T {
	case 1:
		return goPt(s.Pts[0], srid)
	case 2:
		return goLine(s.Pts, srid)
	case 3:
		return goPoly(s.Rings, srid)
	case 4:
		return types.MultiPoint{SRID: srid, Points: goLine(s.Pts, srid).Points}
	case 5:
		return types.MultiLineString{SRID: srid, Lines: goPoly(s.Rings, srid).Lines}
	case 6:
		out := make([]types.Polygon, len(s.Polys))
		for i, p := range s.Polys {
			out[i] = goPoly(p, srid)
		}
		return types.MultiPolygon{SRID: srid, Polygons: out}
	default:
		out := make([]types.GeometryValue, len(s.Geoms))
		for i, g := range s.Geoms {
			out[i] = toGo(g, srid)
		}
		return types.GeomColl{SRID: srid, Geoms: out}
	}
}

// fromGo converts back and reports whether every nested SRID field equals the outer one.
func fromGo(v types.GeometryValue, top uint32, consistent *bool) Shape {
	chk := func(s uint32) {
		if s != top {
			*consistent = false
		}
	}
	pts := func(ps []types.Point) []Pt {
		out := make([]Pt, len(ps))
		for i, p := range ps {
			chk(p.SRID)
			out[i] = Pt{math.Float64bits(p.X), math.Float64bits(p.Y)}
		}
		return out
	}
	rings := func(ls []types.LineString) [][]Pt {
		out := make([][]Pt, len(ls))
		for i, l := range ls {
			chk(l.SRID)
			out[i] = pts(l.Points)
		}
		return out
	}
	switch g := v.(type) {
	case types.Point:
		chk(g.SRID)
		return Shape{T: 1, Pts: []Pt{{math.Float64bits(g.X), math.Float64bits(g.Y)}}}
	case types.LineString:
		chk(g.SRID)
		return Shape{T: 2, Pts: pts(g.Points)}
	case types.Polygon:
		chk(g.SRID)
		return Shape{T: 3, Rings: rings(g.Lines)}
	case types.MultiPoint:
		chk(g.SRID)
		return Shape{T: 4, Pts: pts(g.Points)}
	case types.MultiLineString:
		chk(g.SRID)
		return Shape{T: 5, Rings: rings(g.Lines)}
	case types.MultiPolygon:
		chk(g.SRID)
		out := make([][][]Pt, len(g.Polygons))
		for i, p := range g.Polygons {
			chk(p.SRID)
			out[i] = rings(p.Lines)
		}
		return Shape{T: 6, Polys: out}
	case types.GeomColl:
		chk(g.SRID)
		out := make([]Shape, len(g.Geoms))
		for i, x := range g.Geoms {
			out[i] = fromGo(x, top, consistent)
		}
		return Shape{T: 7, Geoms: out}
	}
	*consistent = false
	return Shape{T: 0}
}

// ---------- Coq printers ----------

func coqPt(p Pt) string { return fmt.Sprintf("(mkpt %d %d)", p.X, p.Y) }
func coqLine(ps []Pt) string { return lib.CoqListOf(ps, coqPt) }
func coqRings(rs [][]Pt) string { return lib.CoqListOf(rs, coqLine) }
func coqShape(s Shape) string {
	switch s.T {
	case 1:
		return "(SPoint " + coqPt(s.Pts[0]) + ")"
	case 2:
		return "(SLine " + coqLine(s.Pts) + ")"
	case 3:
		return "(SPoly " + coqRings(s.Rings) + ")"
	case 4:
		return "(SMPoint " + coqLine(s.Pts) + ")"
	case 5:
		return "(SMLine " + coqRings(s.Rings) + ")"
	case 6:
		return "(SMPoly " + lib.CoqListOf(s.Polys, coqRings) + ")"
	default:
		return "(SColl " + lib.CoqListOf(s.Geoms, coqShape) + ")"
	}
}
func coqGeom(srid uint32, s Shape) string { return fmt.Sprintf("(%d, %s)", srid, coqShape(s)) }

func coqRes(kind string, srid uint32, s Shape) string {
	switch kind {
	case "ok":
		return "(Ok " + coqGeom(srid, s) + ")"
	case "err":
		return "Err"
	}
	return "Panic"
}

// ---------- generators ----------

var edgeBits = []uint64{
	0, 0x8000000000000000, // +0 -0
	0x3FF0000000000000, 0xBFF0000000000000, 0x4000000000000000, // 1 -1 2
	0x3FB999999999999A, 0x3FD5555555555555, // 0.1, 1/3
	0x7FEFFFFFFFFFFFFF, 0xFFEFFFFFFFFFFFFF, // +-MaxFloat64
	0x0000000000000001, 0x0010000000000000, // smallest denormal, smallest normal
	0x4340000000000000, 0x4340000000000001, // 2^53, 2^53+2
	0x444B1AE4D6E2EF50,                     // 1e21
	0x4056800000000000, 0xC066800000000000, // 90, -180
	0x40C3880000000000, // 10000
}

var nonFiniteBits = []uint64{0x7FF0000000000000, 0xFFF0000000000000, 0x7FF8000000000000, 0x7FF8000000000001, 0xFFFFFFFFFFFFFFFF}

type genOpts struct {
	finite   bool // only finite coordinates (needed for the text form)
	smallInt bool // small integer coordinates
	legal    bool // only values ST_GeomFromText can produce
}

func genCoord(r *lib.RNG, o genOpts) uint64 {
	if o.smallInt {
		return math.Float64bits(float64(r.Range(-6, 12)))
	}
	switch r.Intn(10) {
	case 0, 1, 2:
		return lib.Pick(r, edgeBits)
	case 3:
		if !o.finite {
			return lib.Pick(r, nonFiniteBits)
		}
		return math.Float64bits(float64(r.Range(-1000, 1000)) / 8)
	case 4:
		b := r.Uint64()
		if o.finite && (b>>52)&0x7FF == 0x7FF {
			b &^= 1 << 62
		}
		return b
	case 5:
		return math.Float64bits(float64(r.Range(-180, 180)) + float64(r.Intn(1000))/1000)
	default:
		return math.Float64bits(float64(r.Range(-20, 20)))
	}
}

func genPt(r *lib.RNG, o genOpts) Pt { return Pt{genCoord(r, o), genCoord(r, o)} }

func genLine(r *lib.RNG, o genOpts) []Pt {
	n := r.Range(2, 4)
	if !o.legal && r.Chance(1, 10) {
		n = r.Range(0, 1) // not a valid linestring: only used to compare the model with the code
	}
	out := make([]Pt, n)
	for i := range out {
		out[i] = genPt(r, o)
	}
	return out
}

func genRing(r *lib.RNG, o genOpts) []Pt {
	n := r.Range(3, 5)
	if !o.legal && r.Chance(1, 15) {
		n = r.Range(0, 2)
	}
	out := make([]Pt, n, n+1)
	for i := range out {
		out[i] = genPt(r, o)
		if o.legal && isNaN(out[i]) {
			out[i] = Pt{0, 0}
		}
	}
	if n > 0 && (o.legal || !r.Chance(1, 15)) {
		out = append(out, out[0])
	}
	return out
}

func isNaN(p Pt) bool { return f(p.X) != f(p.X) || f(p.Y) != f(p.Y) }

func genPoly(r *lib.RNG, o genOpts) [][]Pt {
	n := r.Range(1, 2)
	if !o.legal && r.Chance(1, 25) {
		n = 0
	}
	out := make([][]Pt, n)
	for i := range out {
		out[i] = genRing(r, o)
	}
	return out
}

func genShape(r *lib.RNG, o genOpts, depth int) Shape {
	t := r.Range(1, 7)
	if depth >= 3 && t == 7 {
		t = r.Range(1, 6)
	}
	lo := 1
	if !o.legal && r.Chance(1, 20) {
		lo = 0
	}
	switch t {
	case 1:
		return Shape{T: 1, Pts: []Pt{genPt(r, o)}}
	case 2:
		return Shape{T: 2, Pts: genLine(r, o)}
	case 3:
		return Shape{T: 3, Rings: genPoly(r, o)}
	case 4:
		n := r.Range(lo, 4)
		s := Shape{T: 4, Pts: make([]Pt, n)}
		for i := range s.Pts {
			s.Pts[i] = genPt(r, o)
		}
		return s
	case 5:
		n := r.Range(lo, 3)
		s := Shape{T: 5, Rings: make([][]Pt, n)}
		for i := range s.Rings {
			s.Rings[i] = genLine(r, o)
		}
		return s
	case 6:
		n := r.Range(lo, 3)
		s := Shape{T: 6, Polys: make([][][]Pt, n)}
		for i := range s.Polys {
			s.Polys[i] = genPoly(r, o)
		}
		return s
	default:
		n := r.Range(0, 3)
		s := Shape{T: 7, Geoms: make([]Shape, n)}
		for i := range s.Geoms {
			s.Geoms[i] = genShape(r, o, depth+1)
		}
		return s
	}
}

// constructible: a valid geometry value (linestrings >= 2 points, closed rings >= 4 points, non-empty
// multi-geometries); the property quantifies over these only
func lineOK(l []Pt) bool { return len(l) >= 2 }
func ringOK(l []Pt) bool {
	return len(l) >= 4 && f(l[0].X) == f(l[len(l)-1].X) && f(l[0].Y) == f(l[len(l)-1].Y)
}
func polyOK(rs [][]Pt) bool {
	if len(rs) == 0 {
		return false
	}
	for _, r := range rs {
		if !ringOK(r) {
			return false
		}
	}
	return true
}
func constructible(s Shape) bool {
	switch s.T {
	case 1:
		return true
	case 2:
		return lineOK(s.Pts)
	case 3:
		return polyOK(s.Rings)
	case 4:
		return len(s.Pts) >= 1
	case 5:
		if len(s.Rings) == 0 {
			return false
		}
		for _, l := range s.Rings {
			if !lineOK(l) {
				return false
			}
		}
		return true
	case 6:
		if len(s.Polys) == 0 {
			return false
		}
		for _, p := range s.Polys {
			if !polyOK(p) {
				return false
			}
		}
		return true
	default:
		for _, g := range s.Geoms {
			if !constructible(g) {
				return false
			}
		}
		return true
	}
}

// hasEmptyCollNotLast: some collection has an empty collection as a member that is not its last member
func hasEmptyCollNotLast(s Shape) bool {
	if s.T != 7 {
		return false
	}
	for i, g := range s.Geoms {
		if g.T == 7 && len(g.Geoms) == 0 && i != len(s.Geoms)-1 {
			return true
		}
		if hasEmptyCollNotLast(g) {
			return true
		}
	}
	return false
}

func allFinite(s Shape) bool {
	ok := true
	var walk func(s Shape)
	chk := func(ps []Pt) {
		for _, p := range ps {
			for _, b := range []uint64{p.X, p.Y} {
				if (b>>52)&0x7FF == 0x7FF {
					ok = false
				}
			}
		}
	}
	walk = func(s Shape) {
		chk(s.Pts)
		for _, r := range s.Rings {
			chk(r)
		}
		for _, p := range s.Polys {
			for _, r := range p {
				chk(r)
			}
		}
		for _, g := range s.Geoms {
			walk(g)
		}
	}
	walk(s)
	return ok
}

var typeNames = []string{"?", "point", "linestring", "polygon", "multipoint", "multilinestring", "multipolygon", "collection"}

// ---------- independent wire writer for the malformed stream ----------

type wire struct {
	b      []byte
	counts []int // offsets of count fields (with their endianness in cbig)
	cbig   []bool
	types  []int // offsets of type fields
	tbig   []bool
	flags  []int // offsets of byte-order flags
}

func (w *wire) u32(big bool, v uint32) {
	var t [4]byte
	if big {
		binary.BigEndian.PutUint32(t[:], v)
	} else {
		binary.LittleEndian.PutUint32(t[:], v)
	}
	w.b = append(w.b, t[:]...)
}
func (w *wire) u64(big bool, v uint64) {
	var t [8]byte
	if big {
		binary.BigEndian.PutUint64(t[:], v)
	} else {
		binary.LittleEndian.PutUint64(t[:], v)
	}
	w.b = append(w.b, t[:]...)
}
func (w *wire) count(big bool, n int) {
	w.counts = append(w.counts, len(w.b))
	w.cbig = append(w.cbig, big)
	w.u32(big, uint32(n))
}
func (w *wire) hdr(r *lib.RNG, mixed bool, outer bool, typ int) bool {
	big := outer
	if mixed && r.Chance(1, 3) {
		big = !big
	}
	w.flags = append(w.flags, len(w.b))
	if big {
		w.b = append(w.b, 0)
	} else {
		w.b = append(w.b, 1)
	}
	w.types = append(w.types, len(w.b))
	w.tbig = append(w.tbig, big)
	w.u32(big, uint32(typ))
	return big
}
func (w *wire) pt(big bool, p Pt)       { w.u64(big, p.X); w.u64(big, p.Y) }
func (w *wire) line(big bool, l []Pt) {
	w.count(big, len(l))
	for _, p := range l {
		w.pt(big, p)
	}
}
func (w *wire) poly(big bool, rs [][]Pt) {
	w.count(big, len(rs))
	for _, l := range rs {
		w.line(big, l)
	}
}
func (w *wire) data(r *lib.RNG, mixed bool, big bool, s Shape) {
	switch s.T {
	case 1:
		w.pt(big, s.Pts[0])
	case 2:
		w.line(big, s.Pts)
	case 3:
		w.poly(big, s.Rings)
	case 4:
		w.count(big, len(s.Pts))
		for _, p := range s.Pts {
			b := w.hdr(r, mixed, big, 1)
			w.pt(b, p)
		}
	case 5:
		w.count(big, len(s.Rings))
		for _, l := range s.Rings {
			b := w.hdr(r, mixed, big, 2)
			w.line(b, l)
		}
	case 6:
		w.count(big, len(s.Polys))
		for _, p := range s.Polys {
			b := w.hdr(r, mixed, big, 3)
			w.poly(b, p)
		}
	default:
		w.count(big, len(s.Geoms))
		for _, g := range s.Geoms {
			b := w.hdr(r, mixed, big, g.T)
			w.data(r, mixed, b, g)
		}
	}
}

// malformed builds a WKB string (without SRID prefix) for s with random byte orders, then damages it.
// Count fields are only changed by small deltas so that no huge allocation is requested.
func malformed(r *lib.RNG, s Shape) ([]byte, string) {
	w := &wire{}
	mixed := r.Chance(1, 2)
	big := r.Chance(1, 3)
	b := w.hdr(r, false, big, s.T)
	w.data(r, mixed, b, s)
	note := "intact"
	if big || mixed {
		note = "intact-mixed-byte-order"
	}
	switch r.Intn(8) {
	case 0:
		cut := r.Intn(len(w.b) + 1)
		w.b = w.b[:cut]
		note = "truncated"
	case 1:
		n := r.Range(1, 20)
		for i := 0; i < n; i++ {
			w.b = append(w.b, byte(r.Intn(256)))
		}
		note = "trailing-bytes"
	case 2:
		if len(w.counts) > 0 {
			i := r.Intn(len(w.counts))
			off := w.counts[i]
			var v uint32
			if w.cbig[i] {
				v = binary.BigEndian.Uint32(w.b[off:])
			} else {
				v = binary.LittleEndian.Uint32(w.b[off:])
			}
			nv := int(v) + r.Range(-2, 3)
			if nv < 0 {
				nv = 0
			}
			if w.cbig[i] {
				binary.BigEndian.PutUint32(w.b[off:], uint32(nv))
			} else {
				binary.LittleEndian.PutUint32(w.b[off:], uint32(nv))
			}
			note = "count-changed"
		}
	case 3:
		i := r.Intn(len(w.types))
		off := w.types[i]
		nv := uint32(r.Intn(10))
		if w.tbig[i] {
			binary.BigEndian.PutUint32(w.b[off:], nv)
		} else {
			binary.LittleEndian.PutUint32(w.b[off:], nv)
		}
		note = "type-changed"
	case 4:
		// flipping a flag makes the following counts huge when read in the other order; only do it for
		// flags that are followed by a point (no count is read under the flipped flag)
		for k := 0; k < 4; k++ {
			i := r.Intn(len(w.flags))
			off := w.flags[i]
			var typ uint32
			if w.tbig[i] {
				typ = binary.BigEndian.Uint32(w.b[off+1:])
			} else {
				typ = binary.LittleEndian.Uint32(w.b[off+1:])
			}
			if typ == 1 {
				w.b[off] = []byte{0, 1, 2, 255}[r.Intn(4)]
				note = "flag-changed"
				break
			}
		}
	}
	return w.b, note
}

// ---------- allocation guard ----------
// The reader allocates make([]T, count) for a count taken from the input; a damaged string can announce
// billions of elements (reported under C10).  The driver never hands such an input to the real code: this
// walk follows the same control flow with every count capped.
type gstate struct {
	buf  []byte
	huge bool
	dead bool
}

func (g *gstate) u32(big bool) uint32 {
	if big {
		return binary.BigEndian.Uint32(g.buf)
	}
	return binary.LittleEndian.Uint32(g.buf)
}
func (g *gstate) count(big bool) int {
	n := g.u32(big)
	g.buf = g.buf[4:]
	if n > 4096 {
		g.huge = true
		g.dead = true
		return 0
	}
	return int(n)
}
func (g *gstate) skip(n int) {
	if len(g.buf) < n {
		g.dead = true
		return
	}
	g.buf = g.buf[n:]
}
func (g *gstate) hdr() (bool, uint32) {
	if len(g.buf) < 5 {
		g.dead = true
		return false, 0
	}
	big := g.buf[0] == 0
	g.buf = g.buf[1:]
	t := g.u32(big)
	g.buf = g.buf[4:]
	return big, t
}
func (g *gstate) line(big bool) {
	if len(g.buf) < 36 {
		g.dead = true
		return
	}
	n := g.count(big)
	for i := 0; i < n && !g.dead; i++ {
		g.skip(16)
	}
}
func (g *gstate) poly(big bool) {
	if len(g.buf) < 72 {
		g.dead = true
		return
	}
	n := g.count(big)
	for i := 0; i < n && !g.dead; i++ {
		g.line(big)
	}
}
func (g *gstate) byType(big bool, t uint32, min int) {
	if g.dead {
		return
	}
	switch t {
	case 1:
		g.skip(16)
	case 2:
		g.line(big)
	case 3:
		g.poly(big)
	case 4, 5, 6, 7:
		lim := map[uint32]int{4: 25, 5: 45, 6: 81, 7: 4}[t]
		if len(g.buf) < lim {
			g.dead = true
			return
		}
		n := g.count(big)
		for i := 0; i < n && !g.dead; i++ {
			b, et := g.hdr()
			if g.dead {
				return
			}
			if t != 7 && et != t-3 {
				g.dead = true
				return
			}
			g.byType(b, et, 0)
		}
	default:
		g.dead = true
	}
}

// hugeCount reports whether reading this WKB string would allocate for an absurd element count.
func hugeCount(wkb []byte) bool {
	g := &gstate{buf: wkb}
	big, t := g.hdr()
	if g.dead {
		return false
	}
	g.byType(big, t, 0)
	return g.huge
}

// ---------- running the real code ----------

var ctx = sql.NewEmptyContext()

func classify(v interface{}, err error, panicked bool) (string, uint32, Shape, bool) {
	if panicked {
		return "panic", 0, Shape{}, true
	}
	if err != nil {
		return "err", 0, Shape{}, true
	}
	gv, ok := v.(types.GeometryValue)
	if !ok {
		return "err", 0, Shape{}, true
	}
	cons := true
	s := fromGo(gv, gv.GetSRID(), &cons)
	return "ok", gv.GetSRID(), s, cons
}

func convert(buf []byte) (kind string, srid uint32, s Shape, cons bool, pv string) {
	var v interface{}
	var err error
	p, pval := lib.Recover(func() { v, _, err = types.GeometryType{}.Convert(ctx, buf) })
	kind, srid, s, cons = classify(v, err, p)
	return kind, srid, s, cons, pval
}

func fromWKB(buf []byte, srid uint32) (kind string, osrid uint32, s Shape, cons bool, pv string) {
	var v interface{}
	var err error
	p, pval := lib.Recover(func() {
		e, e2 := spatial.NewGeomFromWKB(ctx, expression.NewLiteral(buf, types.LongBlob), expression.NewLiteral(int64(srid), types.Int64))
		if e2 != nil {
			err = e2
			return
		}
		v, err = e.Eval(ctx, nil)
	})
	kind, osrid, s, cons = classify(v, err, p)
	return kind, osrid, s, cons, pval
}

func asWKB(g types.GeometryValue) ([]byte, error) {
	v, err := spatial.NewAsWKB(ctx, expression.NewLiteral(g, types.GeometryType{})).Eval(ctx, nil)
	if err != nil {
		return nil, err
	}
	return v.([]byte), nil
}

func sameGeom(a, b types.GeometryValue) bool {
	return fmt.Sprintf("%T", a) == fmt.Sprintf("%T", b) && bytes.Equal(a.Serialize(), b.Serialize())
}

func shapeKey(kind string, srid uint32, s Shape) string {
	return fmt.Sprintf("%s|%d|%s", kind, srid, coqShape(s))
}

var sridChoices = []uint32{0, 0, 0, 4326, 4326, 3857}

func run(c *lib.Ctx, cs caseT) {
	if p, pv := lib.Recover(func() { run1(c, cs) }); p {
		id := c.CaseNoModel(cs, "")
		c.PredFail(id, "panic/"+cs.Kind, "the code under test panicked outside a guarded call: "+pv, cs)
	}
}

func run1(c *lib.Ctx, cs caseT) {
	switch cs.Kind {
	case "ser":
		runSer(c, cs)
	case "deser":
		runDeser(c, cs)
	case "sqlwkb":
		runSQLWkb(c, cs)
	case "wkt":
		runWKT(c, cs)
	case "engine":
		runEngine(c, cs)
	case "bbox":
		runBBox(c, cs)
	case "index":
		runIndex(c, cs)
	}
}

// ser: Serialize vs model; Convert(Serialize(g)) vs model; predicate: internal-form round trip
func runSer(c *lib.Ctx, cs caseT) {
	g := toGo(*cs.G, cs.Srid)
	var out []byte
	if p, pv := lib.Recover(func() { out = g.Serialize() }); p {
		id := c.CaseNoModel(cs, "panic")
		c.PredFail(id, "serialize-panic/"+typeNames[cs.G.T], "Serialize panicked: "+pv, cs)
		return
	}
	c.Count("ser/" + typeNames[cs.G.T])
	kind, srid, s, cons, pv := convert(out)
	id := c.Case(fmt.Sprintf("CSer %s %s %s", coqGeom(cs.Srid, *cs.G), lib.CoqBytes(out), coqRes(kind, srid, s)), cs, shapeKey("ser", cs.Srid, *cs.G))
	if !constructible(*cs.G) {
		c.Count("ser/not-constructible-by-sql")
		return
	}
	c.PredChecked()
	okRT := kind == "ok" && cons && sameGeom(toGo(s, srid), g)
	if !okRT {
		sig := "internal-roundtrip/" + typeNames[cs.G.T]
		c.PredFail(id, sig, fmt.Sprintf("GeometryType.Convert(g.Serialize()) != g for g=%s srid=%d: outcome %s %s", coqShape(*cs.G), cs.Srid, kind, pv), cs)
	}
}

// deser: GeometryType.Convert and ST_GeomFromWKB on damaged / mixed-byte-order input vs model
func runDeser(c *lib.Ctx, cs caseT) {
	buf, _ := hex.DecodeString(cs.Buf)
	if hugeCount(buf) {
		c.Count("deser/skipped-huge-count")
		return
	}
	c.Count("deser/" + cs.Note)
	// internal form = 4 bytes SRID + WKB
	full := make([]byte, 4, 4+len(buf))
	binary.LittleEndian.PutUint32(full, cs.Srid)
	full = append(full, buf...)
	kind, srid, s, cons, _ := convert(full)
	c.Count("deser-outcome/" + kind)
	key := ""
	if kind == "ok" {
		key = "deser|" + cs.Buf
	}
	vs := cs.Srid
	if vs != 0 && vs != 4326 && vs != 3857 {
		vs = 0
	}
	kind2, srid2, s2, cons2, _ := fromWKB(buf, vs)
	id := c.Case(fmt.Sprintf("CDeser %d %s %s %d %s", cs.Srid, lib.CoqBytes(buf), coqRes(kind, srid, s), vs, coqRes(kind2, srid2, s2)), cs, key)
	if !cons {
		c.PredFail(id, "nested-srid-differs", "Convert produced nested SRID fields different from the outer SRID", cs)
	}
	if !cons2 {
		c.PredFail(id, "nested-srid-differs", "ST_GeomFromWKB produced nested SRID fields different from the outer SRID", cs)
	}
	// predicate (implementation alone): whatever was accepted is stable under write/read
	if kind2 == "ok" && constructible(s2) {
		c.PredChecked()
		g2 := toGo(s2, srid2)
		w, err := asWKB(g2)
		if err != nil {
			c.PredFail(id, "aswkb-error", "ST_AsWKB failed on a value ST_GeomFromWKB returned: "+err.Error(), cs)
			return
		}
		k3, sr3, s3, _, _ := fromWKB(w, srid2)
		if k3 != "ok" || !sameGeom(toGo(s3, sr3), g2) {
			c.PredFail(id, "wkb-roundtrip/accepted-value-not-stable", "ST_GeomFromWKB(ST_AsWKB(v)) != v for v = ST_GeomFromWKB(input)", cs)
		}
	}
}

// sqlwkb: ST_AsWKB / ST_GeomFromWKB vs model; predicate: SQL-level round trip
func runSQLWkb(c *lib.Ctx, cs caseT) {
	g := toGo(*cs.G, cs.Srid)
	before := g.Serialize()
	w, err := asWKB(g)
	if w2, err2 := asWKB(g); err == nil && (err2 != nil || !bytes.Equal(w, w2) || !bytes.Equal(before, g.Serialize())) {
		id := c.CaseNoModel(cs, "")
		c.PredFail(id, "aswkb-changes-its-argument", "ST_AsWKB(g) evaluated twice on the same value differs, or g itself changed, for g="+coqShape(*cs.G), cs)
		return
	}
	if err != nil {
		id := c.CaseNoModel(cs, "")
		c.PredFail(id, "aswkb-error", "ST_AsWKB failed: "+err.Error(), cs)
		return
	}
	c.Count(fmt.Sprintf("sqlwkb/%s/srid%d", typeNames[cs.G.T], cs.Srid))
	kind, srid, s, cons, pv := fromWKB(w, cs.Srid)
	id := c.Case(fmt.Sprintf("CSql %s %s %s", coqGeom(cs.Srid, *cs.G), lib.CoqBytes(w), coqRes(kind, srid, s)), cs, shapeKey("sqlwkb", cs.Srid, *cs.G))
	if !constructible(*cs.G) {
		return
	}
	c.PredChecked()
	if !(kind == "ok" && cons && sameGeom(toGo(s, srid), g)) {
		sig := "wkb-roundtrip/" + typeNames[cs.G.T]
		c.PredFail(id, sig, fmt.Sprintf("ST_GeomFromWKB(ST_AsWKB(g), %d) != g for g=%s: outcome %s %s", cs.Srid, coqShape(*cs.G), kind, pv), cs)
	}
}

func asText(g types.GeometryValue) (string, error) {
	v, err := spatial.NewAsWKT(ctx, expression.NewLiteral(g, types.GeometryType{})).Eval(ctx, nil)
	if err != nil {
		return "", err
	}
	return v.(string), nil
}

// wkt: implementation-only predicate ST_GeomFromText(ST_AsText(g), srid) = g for finite coordinates
func runWKT(c *lib.Ctx, cs caseT) {
	g := toGo(*cs.G, cs.Srid)
	id := c.CaseNoModel(cs, shapeKey("wkt", cs.Srid, *cs.G))
	c.Count("wkt/" + typeNames[cs.G.T])
	var txt string
	var err error
	var v interface{}
	p, pv := lib.Recover(func() {
		txt, err = asText(g)
		if err != nil {
			return
		}
		var e sql.Expression
		e, err = spatial.NewGeomFromText(ctx, expression.NewLiteral(txt, types.LongText), expression.NewLiteral(int64(cs.Srid), types.Int64))
		if err != nil {
			return
		}
		v, err = e.Eval(ctx, nil)
	})
	c.PredChecked()
	sig := ""
	what := ""
	switch {
	case p:
		sig, what = "wkt-roundtrip/panic", "panic: "+pv
	case err != nil:
		sig, what = "wkt-roundtrip/error/"+typeNames[cs.G.T], fmt.Sprintf("ST_GeomFromText(%q) failed: %v", txt, err)
	default:
		gv, ok := v.(types.GeometryValue)
		if !ok || !sameGeom(gv, g) {
			sig, what = "wkt-roundtrip/different-value/"+typeNames[cs.G.T], fmt.Sprintf("ST_GeomFromText(ST_AsText(g)=%q, %d) != g", txt, cs.Srid)
		}
	}
	if sig != "" {
		if hasEmptyCollNotLast(*cs.G) && !p {
			sig = "wkt-roundtrip/empty-collection-member-not-last"
		}
		c.PredFail(id, sig, what+" for g="+coqShape(*cs.G), cs)
	}
}

func hexLit(b []byte) string { return "X'" + strings.ToUpper(hex.EncodeToString(b)) + "'" }

// engine: the same round trips through SQL text and through a stored GEOMETRY column
func runEngine(c *lib.Ctx, cs caseT) {
	g := toGo(*cs.G, cs.Srid)
	id := c.CaseNoModel(cs, shapeKey("engine", cs.Srid, *cs.G))
	c.Count("engine/" + typeNames[cs.G.T])
	w, err := asWKB(g)
	if err != nil {
		c.PredFail(id, "aswkb-error", err.Error(), cs)
		return
	}
	e := eng.New("db")
	s := e.Session()
	c.PredChecked()
	fail := func(sig, what string) {
		c.PredFail(id, sig, what+" for g="+coqShape(*cs.G), cs)
	}
	q := fmt.Sprintf("SELECT HEX(ST_AsWKB(ST_GeomFromWKB(%s, %d)))", hexLit(w), cs.Srid)
	r := s.Query(q)
	if r.Panic != "" || r.Err != nil || len(r.Rows) != 1 || fmt.Sprint(r.Rows[0][0]) != strings.ToUpper(hex.EncodeToString(w)) {
		fail("engine-wkb-roundtrip/"+typeNames[cs.G.T], fmt.Sprintf("%s returned %v err=%v", q, r.Rows, r.Err))
		return
	}
	// stored column
	s.MustExec("CREATE TABLE t (id INT PRIMARY KEY, g GEOMETRY)")
	r = s.Query(fmt.Sprintf("INSERT INTO t VALUES (1, ST_GeomFromWKB(%s, %d))", hexLit(w), cs.Srid))
	if r.Err != nil {
		fail("engine-store/"+typeNames[cs.G.T], fmt.Sprintf("insert failed: %v", r.Err))
		return
	}
	r = s.Query("SELECT HEX(ST_AsWKB(g)), ST_SRID(g) FROM t")
	if r.Err != nil || len(r.Rows) != 1 || fmt.Sprint(r.Rows[0][0]) != strings.ToUpper(hex.EncodeToString(w)) || fmt.Sprint(r.Rows[0][1]) != fmt.Sprint(cs.Srid) {
		fail("engine-store/"+typeNames[cs.G.T], fmt.Sprintf("stored value read back as %v err=%v", r.Rows, r.Err))
		return
	}
	// the stored value next to its own conversions, twice: reading must not change what is stored
	want := strings.ToUpper(hex.EncodeToString(w))
	wantTxt := ""
	if allFinite(*cs.G) {
		wantTxt, _ = asText(g)
	}
	for pass := 0; pass < 2; pass++ {
		r = s.Query(fmt.Sprintf("SELECT HEX(ST_AsWKB(g)), ST_AsText(g), HEX(ST_AsWKB(ST_GeomFromWKB(ST_AsWKB(g), %d))), HEX(ST_AsWKB(g)), ST_AsText(g) FROM t", cs.Srid))
		bad := r.Err != nil || len(r.Rows) != 1
		if !bad {
			row := r.Rows[0]
			bad = fmt.Sprint(row[0]) != want || fmt.Sprint(row[2]) != want || fmt.Sprint(row[3]) != want || fmt.Sprint(row[1]) != fmt.Sprint(row[4]) ||
				(wantTxt != "" && fmt.Sprint(row[1]) != wantTxt)
		}
		if bad {
			fail(fmt.Sprintf("stored-value-changes-when-read/srid%d", cs.Srid), fmt.Sprintf("pass %d: stored g read next to its round trip gives %v err=%v, expected WKB %s text %q", pass+1, r.Rows, r.Err, want, wantTxt))
			return
		}
	}
	if allFinite(*cs.G) {
		r = s.Query(fmt.Sprintf("SELECT HEX(ST_AsWKB(ST_GeomFromText(ST_AsText(g), %d))) FROM t", cs.Srid))
		if r.Panic != "" || r.Err != nil || len(r.Rows) != 1 || fmt.Sprint(r.Rows[0][0]) != strings.ToUpper(hex.EncodeToString(w)) {
			sig := "engine-wkt-roundtrip/" + typeNames[cs.G.T]
			if hasEmptyCollNotLast(*cs.G) {
				sig = "wkt-roundtrip/empty-collection-member-not-last"
			}
			c.PredFail(id, sig, fmt.Sprintf("ST_GeomFromText(ST_AsText(g)) read back as %v err=%v for g=%s", r.Rows, r.Err, coqShape(*cs.G)), cs)
		}
	}
}

// bbox: LineString.BBox() on integer coordinates vs the model's fold
func runBBox(c *lib.Ctx, cs caseT) {
	pts := make([]types.Point, len(cs.Box))
	for i, p := range cs.Box {
		pts[i] = types.Point{X: float64(p[0]), Y: float64(p[1])}
	}
	a, b, cc, d := types.LineString{Points: pts}.BBox()
	out := "None"
	if !(a == math.MaxFloat64 && b == math.MaxFloat64 && cc == -math.MaxFloat64 && d == -math.MaxFloat64) {
		out = fmt.Sprintf("(Some (%s, %s, %s, %s))", lib.CoqZ(int64(a)), lib.CoqZ(int64(b)), lib.CoqZ(int64(cc)), lib.CoqZ(int64(d)))
	}
	c.Count("bbox")
	term := fmt.Sprintf("CBBox %s %s", lib.CoqListOf(cs.Box, func(p [2]int64) string {
		return "(" + lib.CoqZ(p[0]) + ", " + lib.CoqZ(p[1]) + ")"
	}), out)
	id := c.Case(term, cs, fmt.Sprint("bbox|", cs.Box))
	// predicate: the box covers every point
	c.PredChecked()
	for _, p := range pts {
		if !(a <= p.X && p.X <= cc && b <= p.Y && p.Y <= d) {
			c.PredFail(id, "bbox-does-not-cover-vertex", fmt.Sprintf("BBox %v %v %v %v misses %v", a, b, cc, d, p), cs)
			break
		}
	}
}

// index: a table with a SPATIAL index and an index-free twin must answer every predicate query alike
func runIndex(c *lib.Ctx, cs caseT) {
	id := c.CaseNoModel(cs, fmt.Sprint("index|", cs.Idx.Rows, cs.Idx.Queries))
	e := eng.New("db")
	s := e.Session()
	s.MustExec("CREATE TABLE gi (id INT PRIMARY KEY, g GEOMETRY NOT NULL SRID 0, SPATIAL INDEX (g))",
		"CREATE TABLE gs (id INT PRIMARY KEY, g GEOMETRY NOT NULL SRID 0)")
	for i, w := range cs.Idx.Rows {
		for _, t := range []string{"gi", "gs"} {
			r := s.Query(fmt.Sprintf("INSERT INTO %s VALUES (%d, ST_GeomFromText('%s'))", t, i+1, w))
			if r.Err != nil {
				c.PredFail(id, "index-setup-insert-failed", fmt.Sprintf("insert of %s failed: %v", w, r.Err), cs)
				return
			}
		}
	}
	for _, q := range cs.Idx.Queries {
		c.PredChecked()
		ri := s.Query("SELECT id FROM gi WHERE " + q)
		rs := s.Query("SELECT id FROM gs WHERE " + q)
		pl := s.Query("EXPLAIN FORMAT=TREE SELECT id FROM gi WHERE " + q)
		used := false
		for _, row := range pl.Rows {
			if strings.Contains(fmt.Sprint(row[0]), "IndexedTableAccess") {
				used = true
			}
		}
		fn := strings.ToLower(q[:strings.Index(q, "(")])
		if used {
			c.Count("index/used/" + fn)
		} else {
			c.Count("index/not-used/" + fn)
		}
		if (ri.Err != nil) != (rs.Err != nil) || ri.Panic != rs.Panic {
			c.PredFail(id, "index-vs-scan/error-differs/"+fn, fmt.Sprintf("WHERE %s: indexed err=%v, scan err=%v", q, ri.Err, rs.Err), cs)
			continue
		}
		if ri.Err != nil {
			c.Count("index/both-error/" + fn)
			continue
		}
		a, b := eng.Bag(ri.Rows), eng.Bag(rs.Rows)
		sort.Strings(a)
		sort.Strings(b)
		if strings.Join(a, ";") != strings.Join(b, ";") {
			c.PredFail(id, "index-vs-scan/rows-differ/"+fn, fmt.Sprintf("WHERE %s over rows %q: indexed ids %v, scan ids %v", q, cs.Idx.Rows, a, b), cs)
		}
		if len(b) > 0 {
			c.Count("index/nonempty-result")
		}
	}
}

// WKT of a shape with small integer coordinates (for the index tables)
func wktOf(s Shape) string {
	g := toGo(s, 0)
	t, err := asText(g)
	if err != nil {
		panic(err)
	}
	return t
}

func genIndexCase(r *lib.RNG) caseT {
	o := genOpts{finite: true, smallInt: true, legal: true}
	pointsOnly := r.Chance(1, 3)
	n := r.Range(3, 10)
	ic := &idxCase{}
	ip := func(x, y int) Pt { return Pt{math.Float64bits(float64(x)), math.Float64bits(float64(y))} }
	box := func(x0, y0, w, h int) []Pt { return []Pt{ip(x0, y0), ip(x0+w, y0), ip(x0+w, y0+h), ip(x0, y0+h), ip(x0, y0)} }
	var farRings [][]Pt // second rings lying outside their polygon's first ring
	twoRing := func() Shape {
		x0, y0 := r.Range(-6, 2), r.Range(-6, 2)
		dx, dy := r.Range(6, 12), r.Range(-2, 12)
		second := box(x0+dx, y0+dy, r.Range(1, 3), r.Range(1, 3))
		farRings = append(farRings, second)
		return Shape{T: 3, Rings: [][]Pt{box(x0, y0, r.Range(1, 3), r.Range(1, 3)), second}}
	}
	genRow := func() Shape {
		if !pointsOnly && r.Chance(1, 3) {
			return twoRing()
		}
		if pointsOnly {
			return Shape{T: 1, Pts: []Pt{genPt(r, o)}}
		}
		for {
			s := genShape(r, o, 2)
			if !hasEmptyCollNotLast(s) {
				return s
			}
		}
	}
	for i := 0; i < n; i++ {
		ic.Rows = append(ic.Rows, wktOf(genRow()))
	}
	nq := r.Range(2, 5)
	for i := 0; i < nq; i++ {
		var lit Shape
		for {
			lit = genShape(r, o, 2)
			if !hasEmptyCollNotLast(lit) {
				break
			}
		}
		if len(farRings) > 0 && r.Chance(1, 3) {
			// a probe that only meets the far second ring of some row
			fr := lib.Pick(r, farRings)
			switch r.Intn(3) {
			case 0:
				lit = Shape{T: 1, Pts: []Pt{fr[r.Intn(4)]}}
			case 1:
				lit = Shape{T: 2, Pts: []Pt{fr[0], fr[2]}}
			default:
				lit = Shape{T: 3, Rings: [][]Pt{fr}}
			}
		} else if r.Chance(1, 6) {
			lit = twoRing()
		} else if r.Chance(1, 4) {
			// an axis-parallel box, the typical query window
			x0, y0 := r.Range(-6, 8), r.Range(-6, 8)
			x1, y1 := x0+r.Range(1, 8), y0+r.Range(1, 8)
			p := func(x, y int) Pt { return Pt{math.Float64bits(float64(x)), math.Float64bits(float64(y))} }
			lit = Shape{T: 3, Rings: [][]Pt{{p(x0, y0), p(x1, y0), p(x1, y1), p(x0, y1), p(x0, y0)}}}
		}
		l := "ST_GeomFromText('" + wktOf(lit) + "')"
		pl := "ST_GeomFromText('" + wktOf(Shape{T: 1, Pts: []Pt{genPt(r, o)}}) + "')"
		k := r.Intn(6)
		if pointsOnly && k >= 2 {
			k = 3 // ST_Within(g, literal) is only implemented for point rows
		} else if !pointsOnly && k == 3 {
			k = 4
		}
		switch k {
		case 0, 1:
			ic.Queries = append(ic.Queries, "ST_Intersects(g, "+l+")")
		case 2:
			ic.Queries = append(ic.Queries, "ST_Intersects("+l+", g)")
		case 3:
			ic.Queries = append(ic.Queries, "ST_Within(g, "+l+")")
		case 4:
			ic.Queries = append(ic.Queries, "ST_Within("+pl+", g)")
		default:
			ic.Queries = append(ic.Queries, "ST_Intersects(g, "+l+") AND id > 2")
		}
	}
	return caseT{Kind: "index", Idx: ic}
}

func gen(r *lib.RNG) caseT {
	srid := lib.Pick(r, sridChoices)
	switch k := r.Intn(100); {
	case k < 25:
		if r.Chance(1, 6) {
			srid = uint32(r.Uint64())
		}
		s := genShape(r, genOpts{}, 0)
		return caseT{Kind: "ser", Srid: srid, G: &s}
	case k < 50:
		if r.Chance(1, 6) {
			srid = uint32(r.Uint64())
		}
		s := genShape(r, genOpts{legal: r.Chance(3, 4)}, 0)
		b, note := malformed(r, s)
		return caseT{Kind: "deser", Srid: srid, Buf: hex.EncodeToString(b), Note: note}
	case k < 65:
		s := genShape(r, genOpts{legal: r.Chance(3, 4)}, 0)
		return caseT{Kind: "sqlwkb", Srid: srid, G: &s}
	case k < 82:
		s := genShape(r, genOpts{finite: true, legal: true}, 0)
		return caseT{Kind: "wkt", Srid: srid, G: &s}
	case k < 87:
		s := genShape(r, genOpts{finite: r.Chance(2, 3), legal: true}, 0)
		return caseT{Kind: "engine", Srid: srid, G: &s}
	case k < 92:
		n := r.Range(0, 6)
		cs := caseT{Kind: "bbox"}
		for i := 0; i < n; i++ {
			cs.Box = append(cs.Box, [2]int64{int64(r.Range(-50, 50)), int64(r.Range(-50, 50))})
		}
		return cs
	default:
		return genIndexCase(r)
	}
}

func pb(x, y float64) Pt { return Pt{math.Float64bits(x), math.Float64bits(y)} }

func main() {
	lib.Main("C52", func(c *lib.Ctx) {
		c.Header = "From Coq Require Import List NArith ZArith.\nImport ListNotations.\nFrom GMS Require Import Codec.Wkb Corr.C52.\nOpen Scope N_scope."
		c.CaseType = "C52.case"
		c.MismatchFn = "C52.mismatches"
		c.SetRule("random points/linestrings/polygons/multi*/collections (nesting <= 3) with coordinates drawn from edge bit patterns " +
			"(+-0, denormals, +-MaxFloat64, 2^53, NaN/Inf for the binary form), SRIDs 0/4326/3857 (any uint32 for the internal form); " +
			"kinds: Serialize+Convert, damaged/mixed-byte-order WKB (truncation, count +-, type code, flag, trailing bytes), " +
			"ST_AsWKB/ST_GeomFromWKB, ST_AsText/ST_GeomFromText (finite coordinates), SQL text + stored column, BBox, " +
			"SPATIAL-index table vs index-free twin under ST_Intersects/ST_Within. Non-trivial = distinct generated value per kind.")
		if c.ReplayFile != "" {
			var cs caseT
			lib.LoadReplay(c.ReplayFile, &cs)
			run(c, cs)
			return
		}
		one := Shape{T: 2, Pts: []Pt{pb(1, 1)}}
		gcEmptyFirst := Shape{T: 7, Geoms: []Shape{{T: 7}, {T: 1, Pts: []Pt{pb(1, 1)}}}}
		gcEmptyLast := Shape{T: 7, Geoms: []Shape{{T: 1, Pts: []Pt{pb(1, 1)}}, {T: 7}}}
		sq := Shape{T: 3, Rings: [][]Pt{{pb(0, 0), pb(10, 0), pb(10, 10), pb(0, 10), pb(0, 0)}}}
		nested := Shape{T: 7, Geoms: []Shape{{T: 1, Pts: []Pt{pb(1, 2)}}, {T: 7, Geoms: []Shape{{T: 2, Pts: []Pt{pb(1, 2), pb(3, 4)}}}}, sq}}
		corpus := []caseT{
			{Kind: "ser", Srid: 0, G: &one},
			{Kind: "sqlwkb", Srid: 0, G: &one},
			{Kind: "wkt", Srid: 0, G: &gcEmptyFirst},
			{Kind: "wkt", Srid: 0, G: &gcEmptyLast},
			{Kind: "engine", Srid: 0, G: &gcEmptyFirst},
			{Kind: "ser", Srid: 4326, G: &nested},
			{Kind: "sqlwkb", Srid: 4326, G: &nested},
			{Kind: "wkt", Srid: 4326, G: &nested},
			{Kind: "engine", Srid: 4326, G: &nested},
			{Kind: "deser", Srid: 0, Buf: "010200000003000000" + strings.Repeat("00", 32), Note: "truncated"},
			{Kind: "deser", Srid: 0, Buf: "0000000001" + "3ff0000000000000" + "4000000000000000", Note: "intact-mixed-byte-order"},
			{Kind: "engine", Srid: 4326, G: &Shape{T: 2, Pts: []Pt{pb(1, 2), pb(3, 40), pb(-5, 6)}}},
			{Kind: "sqlwkb", Srid: 4326, G: &Shape{T: 7, Geoms: []Shape{{T: 2, Pts: []Pt{pb(1, 2), pb(3, 40)}}, {T: 5, Rings: [][]Pt{{pb(7, 8), pb(9, 10)}}}}}},
			{Kind: "index", Idx: &idxCase{
				Rows: []string{"POLYGON((0 0,2 0,2 2,0 2,0 0),(10 10,12 10,12 12,10 12,10 10))", "POINT(11 11)", "POLYGON((0 0,1 0,1 1,0 1,0 0))", "LINESTRING(10 10,12 12)"},
				Queries: []string{"ST_Intersects(g, ST_GeomFromText('POINT(10 10)'))", "ST_Intersects(g, ST_GeomFromText('LINESTRING(9 11,13 11)'))",
					"ST_Intersects(ST_GeomFromText('POLYGON((0 0,2 0,2 2,0 2,0 0),(10 10,12 10,12 12,10 12,10 10))'), g)",
					"ST_Intersects(g, ST_GeomFromText('POLYGON((10 10,12 10,12 12,10 12,10 10))'))"}}},
			{Kind: "bbox"},
			{Kind: "bbox", Box: [][2]int64{{1, 2}, {-3, 7}, {0, 0}}},
			{Kind: "index", Idx: &idxCase{
				Rows:    []string{"POINT(1 1)", "LINESTRING(0 0,5 5)", "GEOMETRYCOLLECTION EMPTY", "POLYGON((0 0,10 0,10 10,0 10,0 0))", "POINT(20 20)"},
				Queries: []string{"ST_Intersects(g, ST_GeomFromText('POINT(1 1)'))", "ST_Intersects(ST_GeomFromText('LINESTRING(0 5,5 0)'), g)", "ST_Within(ST_GeomFromText('POINT(1 1)'), g)", "ST_Intersects(g, ST_GeomFromText('GEOMETRYCOLLECTION EMPTY'))"}}},
		}
		for _, cs := range corpus {
			run(c, cs)
		}
		for i := len(corpus); i < c.N; i++ {
			run(c, gen(c.R.Fork()))
		}
	})
}
