// Driver for C43 (information_schema and SHOW reflect the catalog): runs generated DDL histories on the real engine,
// after every statement reads the information_schema tables and SHOW statements, records the (projected, encoded)
// rows for the Coq catalog model, and evaluates the property on the implementation alone against an independent
// reference catalog kept in Go (objects created and not dropped, with their current definitions) plus
// SHOW-vs-information_schema cross-consistency.
package main

import (
	"fmt"
	"regexp"
	"sort"
	"strconv"
	"strings"

	"github.com/dolthub/go-mysql-server/sql/mysql_db"

	"verifharness/lib"
	"verifharness/lib/eng"
)

// ---------- statements ----------

type colDef struct {
	Name string `json:"n"`
	Ty   int    `json:"ty"` // 1 INT, 2 BIGINT, 3 VARCHAR(10)
	Null bool   `json:"null"`
	Def  *int   `json:"def,omitempty"` // literal DEFAULT
	Com  string `json:"com,omitempty"` // COMMENT
}

func cd(n string, ty int, null bool) colDef { return colDef{Name: n, Ty: ty, Null: null} }

type opT struct {
	Kind   string   `json:"k"`
	T      string   `json:"t,omitempty"`
	U      string   `json:"u,omitempty"`  // second name (rename target, index/fk/check/view/trigger/proc name, parent)
	C      string   `json:"c,omitempty"`  // column
	C2     string   `json:"c2,omitempty"` // new column name / position anchor
	Cols   []string `json:"cols,omitempty"`
	PCols  []string `json:"pcols,omitempty"`
	Defs   []colDef `json:"defs,omitempty"`
	Ty     int      `json:"ty,omitempty"`
	Null   bool     `json:"null,omitempty"`
	Pos    int      `json:"pos,omitempty"` // 0 last, 1 first, 2 after C2
	Uniq   bool     `json:"uniq,omitempty"`
	Parent string   `json:"parent,omitempty"`
	Before bool     `json:"before,omitempty"`
	Ev     int      `json:"ev,omitempty"` // 0 insert 1 update 2 delete
	Val    int      `json:"val,omitempty"`
	Pre    []int    `json:"pre,omitempty"` // prefix lengths of CREATE INDEX key parts (nil: none)
	Def    *int     `json:"def,omitempty"`
	Com    string   `json:"com,omitempty"`
}

type caseT struct {
	Ops []opT `json:"ops"`
}

var tyNames = map[int]string{1: "INT", 2: "BIGINT", 3: "VARCHAR(10)", 4: "VARCHAR(10) COLLATE utf8mb4_0900_ai_ci"}
var tyCodes = map[string]uint64{"int": 1, "bigint": 2, "varchar(10)": 3, "varchar(10) COLLATE utf8mb4_0900_ai_ci": 4}
var evNames = []string{"INSERT", "UPDATE", "DELETE"}

func (d colDef) SQL() string {
	s := d.Name + " " + tyNames[d.Ty]
	if !d.Null {
		s += " NOT NULL"
	}
	if d.Def != nil {
		if d.Ty >= 3 {
			s += fmt.Sprintf(" DEFAULT '%d'", *d.Def)
		} else {
			s += fmt.Sprintf(" DEFAULT %d", *d.Def)
		}
	}
	if d.Com != "" {
		s += " COMMENT '" + d.Com + "'"
	}
	return s
}

func (d colDef) Coq() string {
	def := "None"
	if d.Def != nil {
		def = fmt.Sprintf("(Some %d)", *d.Def)
	}
	return fmt.Sprintf("(mkcs %s %d %s %s %s)", cn(d.Name), d.Ty, lib.CoqBool(d.Null), def, cn(d.Com))
}

func (o opT) spec() colDef { return colDef{Name: o.C, Ty: o.Ty, Null: o.Null, Def: o.Def, Com: o.Com} }

func trigBody(o opT) string {
	if o.C == "" {
		return "SET @x = 1"
	}
	if o.Ev == 2 {
		return "SET @x = OLD." + o.C
	}
	return "SET @x = NEW." + o.C
}

func (o opT) SQL() string {
	switch o.Kind {
	case "CreateTable":
		var parts []string
		for _, d := range o.Defs {
			parts = append(parts, d.SQL())
		}
		if len(o.Cols) > 0 {
			parts = append(parts, "PRIMARY KEY ("+strings.Join(o.Cols, ", ")+")")
		}
		return "CREATE TABLE " + o.T + " (" + strings.Join(parts, ", ") + ")"
	case "DropTable":
		return "DROP TABLE " + o.T
	case "RenameTable":
		return "RENAME TABLE " + o.T + " TO " + o.U
	case "AddColumn":
		s := "ALTER TABLE " + o.T + " ADD COLUMN " + o.spec().SQL()
		if o.Pos == 1 {
			s += " FIRST"
		} else if o.Pos == 2 {
			s += " AFTER " + o.C2
		}
		return s
	case "DropColumn":
		return "ALTER TABLE " + o.T + " DROP COLUMN " + o.C
	case "RenameColumn":
		return "ALTER TABLE " + o.T + " RENAME COLUMN " + o.C + " TO " + o.C2
	case "CreateIndex":
		u := ""
		if o.Uniq {
			u = "UNIQUE "
		}
		parts := make([]string, len(o.Cols))
		for i, c := range o.Cols {
			parts[i] = c
			if i < len(o.Pre) && o.Pre[i] > 0 {
				parts[i] = fmt.Sprintf("%s(%d)", c, o.Pre[i])
			}
		}
		return "CREATE " + u + "INDEX " + o.U + " ON " + o.T + " (" + strings.Join(parts, ", ") + ")"
	case "CreateFnIndex":
		return "CREATE INDEX " + o.U + " ON " + o.T + " ((" + o.C + " + 1))"
	case "DropIndex":
		return "DROP INDEX " + o.U + " ON " + o.T
	case "AddPK":
		return "ALTER TABLE " + o.T + " ADD PRIMARY KEY (" + strings.Join(o.Cols, ", ") + ")"
	case "DropPK":
		return "ALTER TABLE " + o.T + " DROP PRIMARY KEY"
	case "AddFK":
		return "ALTER TABLE " + o.T + " ADD CONSTRAINT " + o.U + " FOREIGN KEY (" + strings.Join(o.Cols, ", ") + ") REFERENCES " +
			o.Parent + " (" + strings.Join(o.PCols, ", ") + ")"
	case "DropFK":
		return "ALTER TABLE " + o.T + " DROP FOREIGN KEY " + o.U
	case "AddCheck":
		return fmt.Sprintf("ALTER TABLE %s ADD CONSTRAINT %s CHECK (%s > %d)", o.T, o.U, o.C, o.Val)
	case "DropCheck":
		return "ALTER TABLE " + o.T + " DROP CHECK " + o.U
	case "CreateView":
		return "CREATE VIEW " + o.U + " AS SELECT " + strings.Join(o.Cols, ", ") + " FROM " + o.T
	case "DropView":
		return "DROP VIEW " + o.U
	case "CreateTrigger":
		tm := "AFTER"
		if o.Before {
			tm = "BEFORE"
		}
		return "CREATE TRIGGER " + o.U + " " + tm + " " + evNames[o.Ev] + " ON " + o.T + " FOR EACH ROW " + trigBody(o)
	case "DropTrigger":
		return "DROP TRIGGER " + o.U
	case "CreateProc":
		return fmt.Sprintf("CREATE PROCEDURE %s() SELECT %d", o.U, o.Val)
	case "DropProc":
		return "DROP PROCEDURE " + o.U
	}
	panic("unknown op " + o.Kind)
}

// enc encodes a short identifier big-endian (so numeric order = byte order for names of equal length).
func enc(s string) uint64 {
	if len(s) > 7 {
		var h uint64 = 1469598103934665603
		for i := 0; i < len(s); i++ {
			h = (h ^ uint64(s[i])) * 1099511628211
		}
		return 1<<61 + h%(1<<60)
	}
	var n uint64
	for i := 0; i < len(s); i++ {
		n = n*256 + uint64(s[i])
	}
	return n
}

const nul = uint64(1) << 62

func cn(s string) string { return lib.CoqN(enc(s)) }
func cnames(l []string) string {
	return lib.CoqListOf(l, cn)
}

func (o opT) Coq() string {
	switch o.Kind {
	case "CreateTable":
		defs := lib.CoqListOf(o.Defs, colDef.Coq)
		return fmt.Sprintf("(CreateTable %s %s %s)", cn(o.T), defs, cnames(o.Cols))
	case "DropTable":
		return fmt.Sprintf("(DropTable %s)", cn(o.T))
	case "RenameTable":
		return fmt.Sprintf("(RenameTable %s %s)", cn(o.T), cn(o.U))
	case "AddColumn":
		p := "PLast"
		if o.Pos == 1 {
			p = "PFirst"
		} else if o.Pos == 2 {
			p = "(PAfter " + cn(o.C2) + ")"
		}
		return fmt.Sprintf("(AddColumn %s %s %s)", cn(o.T), o.spec().Coq(), p)
	case "DropColumn":
		return fmt.Sprintf("(DropColumn %s %s)", cn(o.T), cn(o.C))
	case "RenameColumn":
		return fmt.Sprintf("(RenameColumn %s %s %s)", cn(o.T), cn(o.C), cn(o.C2))
	case "CreateIndex":
		return fmt.Sprintf("(CreateIndex %s %s %s %s %s)", cn(o.T), cn(o.U), cnames(o.Cols),
			lib.CoqListOf(o.Pre, func(l int) string { return fmt.Sprint(l) }), lib.CoqBool(o.Uniq))
	case "CreateFnIndex":
		return fmt.Sprintf("(CreateFnIndex %s %s %s)", cn(o.T), cn(o.U), cn(o.C))
	case "DropIndex":
		return fmt.Sprintf("(DropIndex %s %s)", cn(o.T), cn(o.U))
	case "AddPK":
		return fmt.Sprintf("(AddPK %s %s)", cn(o.T), cnames(o.Cols))
	case "DropPK":
		return fmt.Sprintf("(DropPK %s)", cn(o.T))
	case "AddFK":
		return fmt.Sprintf("(AddFK %s %s %s %s %s)", cn(o.T), cn(o.U), cnames(o.Cols), cn(o.Parent), cnames(o.PCols))
	case "DropFK":
		return fmt.Sprintf("(DropFK %s %s)", cn(o.T), cn(o.U))
	case "AddCheck":
		return fmt.Sprintf("(AddCheck %s %s %s %d)", cn(o.T), cn(o.U), cn(o.C), o.Val)
	case "DropCheck":
		return fmt.Sprintf("(DropCheck %s %s)", cn(o.T), cn(o.U))
	case "CreateView":
		return fmt.Sprintf("(CreateView %s %s %s)", cn(o.U), cn(o.T), cnames(o.Cols))
	case "DropView":
		return fmt.Sprintf("(DropView %s)", cn(o.U))
	case "CreateTrigger":
		return fmt.Sprintf("(CreateTrigger %s %s %s %d %s)", cn(o.U), cn(o.T), lib.CoqBool(o.Before), o.Ev, lib.CoqOpt(o.C != "", cn(o.C)))
	case "DropTrigger":
		return fmt.Sprintf("(DropTrigger %s)", cn(o.U))
	case "CreateProc":
		return fmt.Sprintf("(CreateProc %s %d)", cn(o.U), o.Val)
	case "DropProc":
		return fmt.Sprintf("(DropProc %s)", cn(o.U))
	}
	panic("unknown op " + o.Kind)
}

// ---------- observation ----------

type rowT []uint64
type listing struct {
	Err  bool
	Rows []rowT
}

func str(v interface{}) (string, bool) {
	switch x := v.(type) {
	case nil:
		return "", false
	case string:
		return x, true
	case []byte:
		return string(x), true
	default:
		return fmt.Sprint(x), true
	}
}

func encName(v interface{}) uint64 {
	s, ok := str(v)
	if !ok {
		return nul
	}
	return enc(s)
}

func encNum(v interface{}) uint64 {
	s, ok := str(v)
	if !ok {
		return nul
	}
	n, err := strconv.ParseUint(s, 10, 64)
	if err != nil {
		return 1<<61 + 7
	}
	return n
}

func encMap(m map[string]uint64) func(interface{}) uint64 {
	return func(v interface{}) uint64 {
		s, ok := str(v)
		if !ok {
			return nul
		}
		if c, ok := m[s]; ok {
			return c
		}
		return 1<<61 + 99
	}
}

var (
	encTabType = encMap(map[string]uint64{"BASE TABLE": 1, "VIEW": 2})
	encTy      = encMap(tyCodes)
	encKey     = encMap(map[string]uint64{"": 0, "PRI": 1, "UNI": 2, "MUL": 3})
	encConType = encMap(map[string]uint64{"PRIMARY KEY": 1, "UNIQUE": 2, "FOREIGN KEY": 3, "CHECK": 4})
	encEvent   = encMap(map[string]uint64{"INSERT": 0, "UPDATE": 1, "DELETE": 2})
	encTiming  = encMap(map[string]uint64{"BEFORE": 1, "AFTER": 0})
	reCheck    = regexp.MustCompile("^\\(`([a-z0-9]+)` > ([0-9]+)\\)$")
	reView     = regexp.MustCompile(`^SELECT ([a-z0-9, ]+) FROM ([a-z0-9]+)$`)
	reProc     = regexp.MustCompile(`^SELECT ([0-9]+)$`)
	rePK       = regexp.MustCompile("PRIMARY KEY \\(([^)]*)\\)")
	reTrig     = regexp.MustCompile(`^SET @x = (?:(?:NEW|OLD)\.([a-z0-9]+)|1)$`)
)

var encColl = encMap(map[string]uint64{"utf8mb4_0900_bin": 1, "utf8mb4_0900_ai_ci": 2})

// encTyColl: COLUMN_TYPE + COLLATION_NAME of information_schema.COLUMNS as one type code (1 INT, 2 BIGINT, 3 VARCHAR(10)
// with the default collation, 4 VARCHAR(10) COLLATE utf8mb4_0900_ai_ci).
func encTyColl(ty, coll interface{}) uint64 {
	t, c := encTy(ty), encColl(coll)
	switch {
	case (t == 1 || t == 2) && c == nul:
		return t
	case t == 3 && c == 1:
		return 3
	case t == 3 && c == 2:
		return 4
	}
	return 1<<61 + 94
}

// encDefault: SHOW COLUMNS prints string defaults quoted.
func encDefault(v interface{}) uint64 {
	s, ok := str(v)
	if !ok {
		return nul
	}
	return encNum(strings.Trim(s, "'"))
}

var reExpr = regexp.MustCompile("^\\(\\(`?([a-z0-9]+)`? \\+ 1\\)\\)$")

// encExpr: the EXPRESSION of a functional key part ((c + 1)) as its source column.
func encExpr(v interface{}) uint64 {
	s, ok := str(v)
	if !ok {
		return nul
	}
	if m := reExpr.FindStringSubmatch(s); m != nil {
		return enc(m[1])
	}
	return 1<<61 + 93
}

func encTrigBody(v interface{}) uint64 {
	s, _ := str(v)
	m := reTrig.FindStringSubmatch(s)
	if m == nil {
		return 1<<61 + 98
	}
	if m[1] == "" {
		return nul
	}
	return enc(m[1])
}

func query(s *eng.S, q string, f func(r []interface{}) rowT) listing {
	res := s.Query(q)
	if res.Err != nil {
		return listing{Err: true}
	}
	l := listing{Rows: []rowT{}}
	for _, r := range res.Rows {
		l.Rows = append(l.Rows, f(r))
	}
	return l
}

type obsT struct {
	Tables, Columns, Statistics, KCU, TCons, Refs, Checks, Views, Routines, Triggers listing
	ShowTables, ShowFullTables, ShowTriggers                                         listing
	ShowColumns, ShowIndexes                                                         map[string]listing
	// neighbour databases da / db2 (static) and whole-server listings, SHOW CREATE TABLE's primary key part list
	NbColumns, NbStatistics, AllTables, AllColumns, AllStatistics listing
	ShowCreatePK                                                  map[string]listing
}

var tableUniverse = []string{"t0", "t1", "t2", "t3"}

func observe(s *eng.S) obsT {
	var o obsT
	o.Tables = query(s, "SELECT TABLE_NAME, CONCAT(TABLE_TYPE,'') FROM information_schema.TABLES WHERE TABLE_SCHEMA='db'",
		func(r []interface{}) rowT { return rowT{encName(r[0]), encTabType(r[1])} })
	o.Columns = query(s, "SELECT TABLE_NAME, COLUMN_NAME, ORDINAL_POSITION, IS_NULLABLE, COLUMN_TYPE, CONCAT(COLUMN_KEY,''), COLLATION_NAME, COLUMN_DEFAULT, COLUMN_COMMENT FROM information_schema.COLUMNS WHERE TABLE_SCHEMA='db'",
		func(r []interface{}) rowT {
			return rowT{encName(r[0]), encName(r[1]), encNum(r[2]), encName(r[3]), encTyColl(r[4], r[6]), encKey(r[5]), encNum(r[7]), encName(r[8])}
		})
	statRow := func(r []interface{}) rowT {
		return rowT{encName(r[0]), encNum(r[1]), encName(r[2]), encNum(r[3]), encName(r[4]), encName(r[5]), encNum(r[6]), encExpr(r[7])}
	}
	o.Statistics = query(s, "SELECT TABLE_NAME, NON_UNIQUE, INDEX_NAME, SEQ_IN_INDEX, COLUMN_NAME, NULLABLE, SUB_PART, EXPRESSION FROM information_schema.STATISTICS WHERE TABLE_SCHEMA='db'", statRow)
	o.KCU = query(s, "SELECT CONSTRAINT_NAME, TABLE_NAME, COLUMN_NAME, ORDINAL_POSITION, POSITION_IN_UNIQUE_CONSTRAINT, REFERENCED_TABLE_NAME, REFERENCED_COLUMN_NAME FROM information_schema.KEY_COLUMN_USAGE WHERE TABLE_SCHEMA='db'",
		func(r []interface{}) rowT {
			return rowT{encName(r[0]), encName(r[1]), encName(r[2]), encNum(r[3]), encNum(r[4]), encName(r[5]), encName(r[6])}
		})
	o.TCons = query(s, "SELECT CONSTRAINT_NAME, TABLE_NAME, CONSTRAINT_TYPE FROM information_schema.TABLE_CONSTRAINTS WHERE TABLE_SCHEMA='db'",
		func(r []interface{}) rowT { return rowT{encName(r[0]), encName(r[1]), encConType(r[2])} })
	o.Refs = query(s, "SELECT CONSTRAINT_NAME, UNIQUE_CONSTRAINT_NAME, TABLE_NAME, REFERENCED_TABLE_NAME FROM information_schema.REFERENTIAL_CONSTRAINTS WHERE CONSTRAINT_SCHEMA='db'",
		func(r []interface{}) rowT { return rowT{encName(r[0]), encName(r[1]), encName(r[2]), encName(r[3])} })
	o.Checks = query(s, "SELECT CONSTRAINT_NAME, CHECK_CLAUSE FROM information_schema.CHECK_CONSTRAINTS WHERE CONSTRAINT_SCHEMA='db'",
		func(r []interface{}) rowT {
			cl, _ := str(r[1])
			m := reCheck.FindStringSubmatch(cl)
			if m == nil {
				return rowT{encName(r[0]), 1<<61 + 97, 0}
			}
			b, _ := strconv.ParseUint(m[2], 10, 64)
			return rowT{encName(r[0]), enc(m[1]), b}
		})
	o.Views = query(s, "SELECT TABLE_NAME, VIEW_DEFINITION FROM information_schema.VIEWS WHERE TABLE_SCHEMA='db'",
		func(r []interface{}) rowT {
			d, _ := str(r[1])
			m := reView.FindStringSubmatch(d)
			if m == nil {
				return rowT{encName(r[0]), 1<<61 + 96}
			}
			row := rowT{encName(r[0]), enc(m[2])}
			for _, c := range strings.Split(m[1], ", ") {
				row = append(row, enc(c))
			}
			return row
		})
	o.Routines = query(s, "SELECT ROUTINE_NAME, ROUTINE_DEFINITION FROM information_schema.ROUTINES WHERE ROUTINE_SCHEMA='db'",
		func(r []interface{}) rowT {
			d, _ := str(r[1])
			m := reProc.FindStringSubmatch(d)
			if m == nil {
				return rowT{encName(r[0]), 1<<61 + 95}
			}
			v, _ := strconv.ParseUint(m[1], 10, 64)
			return rowT{encName(r[0]), v}
		})
	o.Triggers = query(s, "SELECT TRIGGER_NAME, EVENT_MANIPULATION, EVENT_OBJECT_TABLE, ACTION_ORDER, ACTION_TIMING, ACTION_STATEMENT FROM information_schema.TRIGGERS WHERE TRIGGER_SCHEMA='db'",
		func(r []interface{}) rowT {
			return rowT{encName(r[0]), encEvent(r[1]), encName(r[2]), encNum(r[3]), encTiming(r[4]), encTrigBody(r[5])}
		})
	o.ShowTables = query(s, "SHOW TABLES", func(r []interface{}) rowT { return rowT{encName(r[0])} })
	o.ShowFullTables = query(s, "SHOW FULL TABLES", func(r []interface{}) rowT { return rowT{encName(r[0]), encTabType(r[1])} })
	o.ShowTriggers = query(s, "SHOW TRIGGERS", func(r []interface{}) rowT {
		return rowT{encName(r[0]), encEvent(r[1]), encName(r[2]), encTiming(r[4]), encTrigBody(r[3])}
	})
	o.NbColumns = query(s, "SELECT TABLE_SCHEMA, TABLE_NAME, COLUMN_NAME, ORDINAL_POSITION FROM information_schema.COLUMNS WHERE TABLE_SCHEMA IN ('da','db2')",
		func(r []interface{}) rowT { return rowT{encName(r[0]), encName(r[1]), encName(r[2]), encNum(r[3])} })
	o.NbStatistics = query(s, "SELECT TABLE_SCHEMA, TABLE_NAME, INDEX_NAME, SEQ_IN_INDEX, COLUMN_NAME FROM information_schema.STATISTICS WHERE TABLE_SCHEMA IN ('da','db2')",
		func(r []interface{}) rowT {
			return rowT{encName(r[0]), encName(r[1]), encName(r[2]), encNum(r[3]), encName(r[4])}
		})
	// unfiltered by the engine (the schema filter is applied here, in Go, to drop information_schema / mysql)
	keep := func(l listing) listing {
		out := listing{Err: l.Err, Rows: []rowT{}}
		for _, r := range l.Rows {
			if r[0] == enc("da") || r[0] == enc("db") || r[0] == enc("db2") {
				out.Rows = append(out.Rows, r)
			}
		}
		return out
	}
	o.AllTables = keep(query(s, "SELECT TABLE_SCHEMA, TABLE_NAME, CONCAT(TABLE_TYPE,'') FROM information_schema.TABLES",
		func(r []interface{}) rowT { return rowT{encName(r[0]), encName(r[1]), encTabType(r[2])} }))
	o.AllColumns = keep(query(s, "SELECT TABLE_SCHEMA, TABLE_NAME, COLUMN_NAME, ORDINAL_POSITION FROM information_schema.COLUMNS",
		func(r []interface{}) rowT { return rowT{encName(r[0]), encName(r[1]), encName(r[2]), encNum(r[3])} }))
	o.AllStatistics = keep(query(s, "SELECT TABLE_SCHEMA, TABLE_NAME, INDEX_NAME, SEQ_IN_INDEX, COLUMN_NAME FROM information_schema.STATISTICS",
		func(r []interface{}) rowT {
			return rowT{encName(r[0]), encName(r[1]), encName(r[2]), encNum(r[3]), encName(r[4])}
		}))
	o.ShowColumns = map[string]listing{}
	o.ShowIndexes = map[string]listing{}
	o.ShowCreatePK = map[string]listing{}
	for _, t := range tableUniverse {
		res := s.Query("SHOW CREATE TABLE " + t)
		if res.Err != nil || len(res.Rows) != 1 {
			o.ShowCreatePK[t] = listing{Err: true}
		} else {
			txt, _ := str(res.Rows[0][1])
			row := rowT{}
			if m := rePK.FindStringSubmatch(txt); m != nil {
				for _, c := range strings.Split(m[1], ",") {
					row = append(row, enc(strings.Trim(c, "`")))
				}
			}
			o.ShowCreatePK[t] = listing{Rows: []rowT{row}}
		}
		o.ShowColumns[t] = query(s, "SHOW FULL COLUMNS FROM "+t, func(r []interface{}) rowT {
			return rowT{encName(r[0]), encTy(r[1]), encName(r[3]), encKey(r[4]), encDefault(r[5]), encName(r[8]), encColl(r[2])}
		})
		o.ShowIndexes[t] = query(s, "SHOW INDEXES FROM "+t, func(r []interface{}) rowT {
			return rowT{encName(r[0]), encNum(r[1]), encName(r[2]), encNum(r[3]), encName(r[4]), encName(r[9]), encNum(r[7]), encExpr(r[14])}
		})
	}
	return o
}

func coqRow(r rowT) string     { return lib.CoqListOf(r, lib.CoqN) }
func coqRows(l listing) string { return lib.CoqListOf(l.Rows, coqRow) }
func coqORows(l listing) string {
	return lib.CoqOpt(!l.Err, coqRows(l))
}

func (o obsT) Coq() string {
	per := func(m map[string]listing) string {
		return lib.CoqListOf(tableUniverse, func(t string) string { return lib.CoqTuple(cn(t), coqORows(m[t])) })
	}
	parts := []string{coqRows(o.Tables), coqRows(o.Columns), coqRows(o.Statistics), coqRows(o.KCU), coqRows(o.TCons),
		coqRows(o.Refs), coqRows(o.Checks), coqRows(o.Views), coqRows(o.Routines), coqORows(o.Triggers),
		coqRows(o.ShowFullTables), coqORows(o.ShowTriggers), per(o.ShowColumns), per(o.ShowIndexes),
		coqRows(listing{Rows: append(append([]rowT{}, o.NbColumns.Rows...), o.NbStatistics.Rows...)}),
		lib.CoqListOf(tableUniverse, func(t string) string {
			l := o.ShowCreatePK[t]
			if l.Err {
				return lib.CoqTuple(cn(t), "None")
			}
			return lib.CoqTuple(cn(t), "(Some "+coqRow(l.Rows[0])+")")
		})}
	for i := range parts {
		if !strings.HasPrefix(parts[i], "(") {
			parts[i] = "(" + parts[i] + ")"
		}
	}
	return "(mkobs " + strings.Join(parts, " ") + ")"
}

// ---------- reference catalog (ideal semantics; follows the statements the engine accepted) ----------

type rIdx struct {
	Cols []string
	Uniq bool
	Pre  []int  // prefix lengths as given at creation, positional (the engine keeps them positional when a key part is dropped)
	Fn   string // source column of a functional index ((c + 1)), "" otherwise
}
type rChk struct {
	Col string
	Val int
}
type rTbl struct {
	Cols []colDef
	PK   []string
	Idx  map[string]*rIdx
	Chk  map[string]rChk
	// causes of known defects, remembered to derive narrow signatures
	pkGarbled      bool
	renamedWithIdx bool
	// a primary key column was renamed while secondary indexes existed: ADD FOREIGN KEY towards this table panics in
	// the engine (the memory Index keeps a stale table pointer); such statements are not generated
	pkRenamedWithIdx bool
}
type rFK struct {
	Table, Parent string
	Cols, PCols   []string
}
type rView struct {
	Base string
	Cols []string
}
type rTrig struct {
	Name         string
	Table        string
	Before       bool
	Ev           int
	Ref          string
	tableRenamed bool
}
type refT struct {
	Tables map[string]*rTbl
	FKs    map[string]*rFK
	Views  map[string]*rView
	Trigs  []*rTrig // trigger names are not unique in the engine; the reference keeps what was accepted
	Procs  map[string]int
	// listing defects that leave reference and catalog in step: reported once per history, then muted so that the
	// rest of the history is still checked
	muted map[string]bool
}

func newRef() *refT {
	return &refT{Tables: map[string]*rTbl{}, FKs: map[string]*rFK{}, Views: map[string]*rView{}, Procs: map[string]int{}, muted: map[string]bool{}}
}

func idxOf(l []string, s string) int {
	for i, x := range l {
		if x == s {
			return i
		}
	}
	return -1
}
func (t *rTbl) colNames() []string {
	var l []string
	for _, c := range t.Cols {
		l = append(l, c.Name)
	}
	return l
}
func (t *rTbl) col(n string) *colDef {
	for i := range t.Cols {
		if t.Cols[i].Name == n {
			return &t.Cols[i]
		}
	}
	return nil
}
func renameIn(l []string, a, b string) {
	for i := range l {
		if l[i] == a {
			l[i] = b
		}
	}
}
func isPrefix(p, l []string) bool {
	if len(p) > len(l) {
		return false
	}
	for i := range p {
		if p[i] != l[i] {
			return false
		}
	}
	return true
}
func (t *rTbl) hasIndexWithPrefix(cols []string) bool {
	if len(t.PK) > 0 && isPrefix(cols, t.PK) {
		return true
	}
	for _, i := range t.Idx {
		if i.Pre == nil && i.Fn == "" && isPrefix(cols, i.Cols) {
			return true
		}
	}
	return false
}

// apply updates the reference for a statement the engine accepted.
func (r *refT) apply(o opT) {
	t := r.Tables[o.T]
	switch o.Kind {
	case "CreateTable":
		nt := &rTbl{Idx: map[string]*rIdx{}, Chk: map[string]rChk{}, PK: append([]string{}, o.Cols...)}
		for _, d := range o.Defs {
			if idxOf(o.Cols, d.Name) >= 0 {
				d.Null = false
			}
			nt.Cols = append(nt.Cols, d)
		}
		r.Tables[o.T] = nt
	case "DropTable":
		delete(r.Tables, o.T)
		for n, f := range r.FKs {
			if f.Table == o.T {
				delete(r.FKs, n)
			}
		}
		var keep []*rTrig
		for _, g := range r.Trigs {
			if g.Table != o.T {
				keep = append(keep, g)
			}
		}
		r.Trigs = keep
	case "RenameTable":
		r.Tables[o.U] = t
		delete(r.Tables, o.T)
		if len(t.Idx) > 0 {
			t.renamedWithIdx = true
		}
		for _, f := range r.FKs {
			if f.Table == o.T {
				f.Table = o.U
			}
			if f.Parent == o.T {
				f.Parent = o.U
			}
		}
		for _, g := range r.Trigs { // a trigger belongs to its table and moves with it
			if g.Table == o.T {
				g.Table = o.U
				g.tableRenamed = true
			}
		}
	case "AddColumn":
		d := o.spec()
		k := len(t.Cols)
		if o.Pos == 1 {
			k = 0
		} else if o.Pos == 2 {
			k = idxOf(t.colNames(), o.C2) + 1
		}
		t.Cols = append(t.Cols[:k], append([]colDef{d}, t.Cols[k:]...)...)
	case "DropColumn":
		k := idxOf(t.colNames(), o.C)
		t.Cols = append(t.Cols[:k], t.Cols[k+1:]...)
		if j := idxOf(t.PK, o.C); j >= 0 {
			t.PK = append(t.PK[:j], t.PK[j+1:]...)
		}
		for n, i := range t.Idx {
			if j := idxOf(i.Cols, o.C); j >= 0 {
				i.Cols = append(i.Cols[:j], i.Cols[j+1:]...)
			}
			if len(i.Cols) == 0 && i.Fn == "" {
				delete(t.Idx, n)
			}
		}
		hasFn := false
		for _, i := range t.Idx {
			hasFn = hasFn || i.Fn != ""
		}
		for n, k := range t.Chk { // (with a functional index the engine leaves the checks of a dropped column behind)
			if k.Col == o.C && !hasFn {
				delete(t.Chk, n)
			}
		}
	case "RenameColumn":
		if j := idxOf(t.PK, o.C); j >= 0 && len(t.PK) >= 2 {
			t.pkGarbled = true
		}
		if idxOf(t.PK, o.C) >= 0 && len(t.Idx) > 0 {
			t.pkRenamedWithIdx = true
		}
		t.col(o.C).Name = o.C2
		renameIn(t.PK, o.C, o.C2)
		for _, i := range t.Idx {
			renameIn(i.Cols, o.C, o.C2)
		}
		for _, f := range r.FKs {
			if f.Table == o.T {
				renameIn(f.Cols, o.C, o.C2)
			}
			if f.Parent == o.T {
				renameIn(f.PCols, o.C, o.C2)
			}
		}
	case "CreateIndex":
		t.Idx[o.U] = &rIdx{Cols: append([]string{}, o.Cols...), Uniq: o.Uniq, Pre: append([]int(nil), o.Pre...)}
	case "CreateFnIndex":
		t.Idx[o.U] = &rIdx{Fn: o.C}
	case "DropIndex":
		delete(t.Idx, o.U)
	case "AddPK":
		t.PK = append([]string{}, o.Cols...)
		for _, c := range o.Cols {
			t.col(c).Null = false
		}
	case "DropPK":
		t.PK = nil
	case "AddFK":
		if !t.hasIndexWithPrefix(o.Cols) {
			t.Idx[o.U] = &rIdx{Cols: append([]string{}, o.Cols...)}
		}
		r.FKs[o.U] = &rFK{o.T, o.Parent, append([]string{}, o.Cols...), append([]string{}, o.PCols...)}
	case "DropFK":
		delete(r.FKs, o.U)
	case "AddCheck":
		t.Chk[o.U] = rChk{o.C, o.Val}
	case "DropCheck":
		delete(t.Chk, o.U)
	case "CreateView":
		r.Views[o.U] = &rView{o.T, append([]string{}, o.Cols...)}
	case "DropView":
		delete(r.Views, o.U)
	case "CreateTrigger":
		r.Trigs = append(r.Trigs, &rTrig{Name: o.U, Table: o.T, Before: o.Before, Ev: o.Ev, Ref: o.C})
	case "DropTrigger":
		for i, g := range r.Trigs {
			if g.Name == o.U {
				r.Trigs = append(r.Trigs[:i:i], r.Trigs[i+1:]...)
				break
			}
		}
	case "CreateProc":
		r.Procs[o.U] = o.Val
	case "DropProc":
		delete(r.Procs, o.U)
	}
}

func keyOf(r rowT) string {
	parts := make([]string, len(r))
	for i, v := range r {
		parts[i] = strconv.FormatUint(v, 10)
	}
	return strings.Join(parts, ",")
}
func keys(rows []rowT, proj []int) []string {
	var out []string
	for _, r := range rows {
		var p rowT
		if proj == nil {
			p = r
		} else {
			for _, i := range proj {
				if i < len(r) {
					p = append(p, r[i])
				}
			}
		}
		out = append(out, keyOf(p))
	}
	sort.Strings(out)
	return out
}
func sameKeys(a, b []string) bool {
	if len(a) != len(b) {
		return false
	}
	for i := range a {
		if a[i] != b[i] {
			return false
		}
	}
	return true
}
func bN(b bool) uint64 {
	if b {
		return 1
	}
	return 0
}

func sortedKeys[V any](m map[string]V) []string { return lib.SortedKeys(m) }

type failure struct{ sig, what string }

// check evaluates the property on the observation alone: every listing shows exactly the objects of the reference
// catalog with their current definitions, and SHOW agrees with information_schema.  Returns the first failure.
// crossOnly: only the SHOW-vs-information_schema agreement (used at the statement where a history is cut).
func (r *refT) check(o obsT, crossOnly bool) *failure {
	// values (encoded names) occurring in the rows on which listing and catalog differ: a known cause is only
	// blamed when the differing rows mention the object it concerns
	var diffVals map[uint64]bool
	ordinalOnly := false // COLUMNS differs from the catalog in ORDINAL_POSITION only
	tableCause := func(dflt string) string {
		for n, t := range r.Tables {
			if t.pkGarbled && diffVals[enc(n)] {
				return "pk-garbled/rename-column-in-composite-pk"
			}
		}
		for n, t := range r.Tables {
			for _, ix := range t.Idx {
				if ix.Fn != "" && diffVals[enc(n)] && strings.HasSuffix(dflt, "/COLUMNS") && ordinalOnly {
					return "columns/ordinal-position-counts-hidden-functional-index-column"
				}
			}
		}
		return dflt
	}
	cross := func() *failure {
		// the neighbour databases keep exactly their own objects, and the unfiltered listings are the union of the
		// per-schema ones (no row of one database shows up under a same-named table of another)
		nbCols := []rowT{{enc("da"), enc("t0"), enc("y0"), 1}, {enc("da"), enc("t0"), enc("y1"), 2}, {enc("db2"), enc("t3"), enc("z0"), 1}, {enc("db2"), enc("t3"), enc("z1"), 2}}
		nbStats := []rowT{{enc("da"), enc("t0"), enc("PRIMARY"), 1, enc("y0")}, {enc("db2"), enc("t3"), enc("PRIMARY"), 1, enc("z0")}}
		nbTabs := []rowT{{enc("da"), enc("t0"), 1}, {enc("db2"), enc("t3"), 1}}
		if o.NbColumns.Err || !sameKeys(keys(o.NbColumns.Rows, nil), keys(nbCols, nil)) {
			return &failure{"mismatch/COLUMNS-of-neighbour-database", fmt.Sprintf("COLUMNS of da/db2: %v", o.NbColumns.Rows)}
		}
		if o.NbStatistics.Err || !sameKeys(keys(o.NbStatistics.Rows, nil), keys(nbStats, nil)) {
			return &failure{"mismatch/STATISTICS-of-neighbour-database", fmt.Sprintf("STATISTICS of da/db2: %v", o.NbStatistics.Rows)}
		}
		withDB := func(rows []rowT, proj []int) []rowT {
			var out []rowT
			for _, r := range rows {
				x := rowT{enc("db")}
				for _, i := range proj {
					x = append(x, r[i])
				}
				out = append(out, x)
			}
			return out
		}
		if !o.Tables.Err && !o.Columns.Err && !o.Statistics.Err {
			if o.AllTables.Err || !sameKeys(keys(o.AllTables.Rows, nil), keys(append(withDB(o.Tables.Rows, []int{0, 1}), nbTabs...), nil)) {
				return &failure{"mismatch/TABLES-unfiltered-vs-per-schema", fmt.Sprintf("unfiltered TABLES %v", o.AllTables.Rows)}
			}
			if o.AllColumns.Err || !sameKeys(keys(o.AllColumns.Rows, nil), keys(append(withDB(o.Columns.Rows, []int{0, 1, 2}), nbCols...), nil)) {
				return &failure{"mismatch/COLUMNS-unfiltered-vs-per-schema", fmt.Sprintf("unfiltered COLUMNS %v", o.AllColumns.Rows)}
			}
			if o.AllStatistics.Err || !sameKeys(keys(o.AllStatistics.Rows, nil), keys(append(withDB(o.Statistics.Rows, []int{0, 2, 3, 4}), nbStats...), nil)) {
				return &failure{"mismatch/STATISTICS-unfiltered-vs-per-schema", fmt.Sprintf("unfiltered STATISTICS %v", o.AllStatistics.Rows)}
			}
		}
		// primary key part order: SHOW CREATE TABLE = STATISTICS (SEQ_IN_INDEX) = SHOW INDEXES = KEY_COLUMN_USAGE (ORDINAL_POSITION)
		for _, n := range sortedKeys(r.Tables) {
			if r.Views[n] != nil {
				continue
			}
			order := func(rows []rowT, tab, idx, seq, col int) string {
				var sel []rowT
				for _, row := range rows {
					if (tab < 0 || row[tab] == enc(n)) && row[idx] == enc("PRIMARY") {
						sel = append(sel, row)
					}
				}
				sort.Slice(sel, func(i, j int) bool { return sel[i][seq] < sel[j][seq] })
				var cs rowT
				for _, row := range sel {
					cs = append(cs, row[col])
				}
				return keyOf(cs)
			}
			sc := o.ShowCreatePK[n]
			if sc.Err || o.ShowIndexes[n].Err {
				return &failure{"listing-error/SHOW CREATE TABLE", "SHOW CREATE TABLE / SHOW INDEXES " + n + " failed"}
			}
			a, b, c2, d := keyOf(sc.Rows[0]), order(o.Statistics.Rows, 0, 2, 3, 4), order(o.ShowIndexes[n].Rows, -1, 2, 3, 4), order(o.KCU.Rows, 1, 0, 3, 2)
			if (a != b || b != c2 || c2 != d) && !r.muted["pk-order"] {
				diffVals = map[uint64]bool{enc(n): true}
				sig := "pk-order/show-create-vs-statistics-vs-show-indexes-vs-kcu"
				for _, ix := range r.Tables[n].Idx {
					if ix.Fn != "" && b == c2 && c2 == d {
						sig = "pk-order/show-create-table/column-order-when-functional-index-present"
					}
				}
				return &failure{tableCause(sig),
					fmt.Sprintf("%s: PRIMARY KEY parts: SHOW CREATE TABLE [%s], STATISTICS [%s], SHOW INDEXES [%s], KEY_COLUMN_USAGE [%s]", n, a, b, c2, d)}
			}
		}
		// cross-consistency: SHOW COLUMNS / SHOW INDEXES against information_schema for every existing table
		for _, n := range sortedKeys(r.Tables) {
			sc, si := o.ShowColumns[n], o.ShowIndexes[n]
			if sc.Err || si.Err {
				return &failure{"listing-error/SHOW COLUMNS-INDEXES", "SHOW COLUMNS / SHOW INDEXES FROM " + n + " failed"}
			}
			var isCols, isStats []rowT
			for _, row := range o.Columns.Rows {
				if row[0] == enc(n) {
					isCols = append(isCols, row)
				}
			}
			sort.Slice(isCols, func(i, j int) bool { return isCols[i][2] < isCols[j][2] })
			for _, row := range o.Statistics.Rows {
				if row[0] == enc(n) {
					isStats = append(isStats, row)
				}
			}
			if len(isCols) != len(sc.Rows) {
				return &failure{"mismatch/SHOW COLUMNS-vs-COLUMNS", fmt.Sprintf("%s: SHOW COLUMNS %v, COLUMNS %v", n, sc.Rows, isCols)}
			}
			for i, row := range sc.Rows {
				ic := isCols[i]
				if row[0] != ic[1] || row[1] != ic[4] || row[2] != ic[3] || row[4] != ic[6] || row[5] != ic[7] {
					return &failure{"mismatch/SHOW COLUMNS-vs-COLUMNS", fmt.Sprintf("%s: SHOW COLUMNS %v, COLUMNS %v", n, row, ic)}
				}
				if row[3] != ic[5] && !r.muted["column-key"] {
					kn := []string{"none", "PRI", "UNI", "MUL"}
					diffVals = map[uint64]bool{enc(n): true}
					return &failure{tableCause(fmt.Sprintf("column-key/show-%s/is-%s", kn[row[3]%4], kn[ic[5]%4])),
						fmt.Sprintf("%s.%d: SHOW COLUMNS Key=%d, information_schema COLUMN_KEY=%d (0 none 1 PRI 2 UNI 3 MUL)", n, i+1, row[3], ic[5])}
				}
				isColl := nul
				if ic[4] == 3 {
					isColl = 1
				} else if ic[4] == 4 {
					isColl = 2
				}
				if row[6] != isColl && !r.muted["show-full-columns"] {
					sig := "mismatch/SHOW FULL COLUMNS-collation"
					if row[6] == 1 && isColl == 2 {
						sig = "show-full-columns/collation-always-server-default"
					}
					return &failure{sig, fmt.Sprintf("%s.%d: SHOW FULL COLUMNS Collation=%d, information_schema COLLATION_NAME=%d (1 utf8mb4_0900_bin 2 utf8mb4_0900_ai_ci)", n, i+1, row[6], isColl)}
				}
			}
			noSub := []int{0, 1, 2, 3, 4, 5, 7}
			if !sameKeys(keys(si.Rows, noSub), keys(isStats, noSub)) && !(r.muted["show-indexes"] && sameKeys(keys(si.Rows, noSub[1:]), keys(isStats, noSub[1:]))) {
				sig := "mismatch/SHOW INDEXES-vs-STATISTICS"
				if r.Tables[n].renamedWithIdx && sameKeys(keys(si.Rows, noSub[1:]), keys(isStats, noSub[1:])) {
					sig = "show-indexes/stale-table-name-after-rename-table"
				}
				return &failure{sig, fmt.Sprintf("%s: SHOW INDEXES %v, STATISTICS %v", n, si.Rows, isStats)}
			}
			if !sameKeys(keys(si.Rows, []int{2, 3, 6}), keys(isStats, []int{2, 3, 6})) && !r.muted["show-indexes-sub-part"] {
				return &failure{"show-indexes/sub-part-not-reported", fmt.Sprintf("%s: Sub_part of SHOW INDEXES %v, SUB_PART of STATISTICS %v", n, si.Rows, isStats)}
			}
		}
		return nil
	}
	if crossOnly {
		return cross()
	}
	cmp := func(name string, got listing, proj []int, want []rowT, cause func(string) string) *failure {
		diffVals = map[uint64]bool{}
		if got.Err {
			return &failure{cause("listing-error/" + name), name + " failed"}
		}
		g, w := keys(got.Rows, proj), keys(want, nil)
		if !sameKeys(g, w) {
			cnt := map[string]int{}
			for _, k := range g {
				cnt[k]++
			}
			for _, k := range w {
				cnt[k]--
			}
			for k, n := range cnt {
				if n != 0 {
					for _, f := range strings.Split(k, ",") {
						v, _ := strconv.ParseUint(f, 10, 64)
						diffVals[v] = true
					}
				}
			}
			return &failure{cause("mismatch/" + name), fmt.Sprintf("%s lists %v, catalog has %v", name, g, w)}
		}
		return nil
	}
	plain := func(s string) string { return s }

	// tables and views
	var wantTabs, wantTabNames []rowT
	for _, n := range sortedKeys(r.Tables) {
		wantTabs = append(wantTabs, rowT{enc(n), 1})
		wantTabNames = append(wantTabNames, rowT{enc(n)})
	}
	for _, n := range sortedKeys(r.Views) {
		wantTabs = append(wantTabs, rowT{enc(n), 2})
		wantTabNames = append(wantTabNames, rowT{enc(n)})
	}
	if f := cmp("TABLES", o.Tables, nil, wantTabs, plain); f != nil {
		return f
	}
	if f := cmp("SHOW FULL TABLES", o.ShowFullTables, nil, wantTabs, plain); f != nil {
		return f
	}
	if f := cmp("SHOW TABLES", o.ShowTables, nil, wantTabNames, plain); f != nil {
		return f
	}
	// columns of base tables: name, ordinal, nullability, type
	var wantCols, wantStats, wantCons, wantKCU, wantRefs, wantChecks []rowT
	for _, n := range sortedKeys(r.Tables) {
		t := r.Tables[n]
		for i, c := range t.Cols {
			yn := "NO"
			if c.Null {
				yn = "YES"
			}
			def := nul
			if c.Def != nil {
				def = uint64(*c.Def)
			}
			wantCols = append(wantCols, rowT{enc(n), enc(c.Name), uint64(i + 1), enc(yn), uint64(c.Ty), def, enc(c.Com)})
		}
		for i, c := range t.PK {
			wantStats = append(wantStats, rowT{enc(n), 0, enc("PRIMARY"), uint64(i + 1), enc(c), nul, nul})
			wantKCU = append(wantKCU, rowT{enc("PRIMARY"), enc(n), enc(c), uint64(i + 1), nul, nul})
		}
		if len(t.PK) > 0 {
			wantCons = append(wantCons, rowT{enc("PRIMARY"), enc(n), 1})
		}
		for _, in := range sortedKeys(t.Idx) {
			ix := t.Idx[in]
			if ix.Fn != "" { // functional key part: no column name, the expression instead
				wantStats = append(wantStats, rowT{enc(n), 1, enc(in), 1, nul, nul, enc(ix.Fn)})
			}
			for i, c := range ix.Cols {
				sub := nul
				if ix.Pre != nil && i < len(ix.Pre) {
					sub = uint64(ix.Pre[i])
				}
				wantStats = append(wantStats, rowT{enc(n), bN(!ix.Uniq), enc(in), uint64(i + 1), enc(c), sub, nul})
				if ix.Uniq {
					wantKCU = append(wantKCU, rowT{enc(in), enc(n), enc(c), uint64(i + 1), nul, nul})
				}
			}
			if ix.Uniq {
				wantCons = append(wantCons, rowT{enc(in), enc(n), 2})
			}
		}
		for _, kn := range sortedKeys(t.Chk) {
			wantCons = append(wantCons, rowT{enc(kn), enc(n), 4})
			wantChecks = append(wantChecks, rowT{enc(kn), enc(t.Chk[kn].Col), uint64(t.Chk[kn].Val)})
		}
	}
	for _, fn := range sortedKeys(r.FKs) {
		f := r.FKs[fn]
		wantCons = append(wantCons, rowT{enc(fn), enc(f.Table), 3})
		wantRefs = append(wantRefs, rowT{enc(fn), enc(f.Table), enc(f.Parent)})
		for i := range f.Cols {
			wantKCU = append(wantKCU, rowT{enc(fn), enc(f.Table), enc(f.Cols[i]), uint64(i + 1), enc(f.Parent), enc(f.PCols[i])})
		}
	}
	var baseCols listing
	baseCols.Err = o.Columns.Err
	for _, row := range o.Columns.Rows {
		for n := range r.Tables {
			if row[0] == enc(n) {
				baseCols.Rows = append(baseCols.Rows, row)
			}
		}
	}
	ordinalOnly = sameKeys(keys(baseCols.Rows, []int{0, 1, 3, 4, 6, 7}), keys(wantCols, []int{0, 1, 3, 4, 5, 6}))
	if f := cmp("COLUMNS", baseCols, []int{0, 1, 2, 3, 4, 6, 7}, wantCols, tableCause); f != nil {
		return f
	}
	if f := cmp("STATISTICS", o.Statistics, []int{0, 1, 2, 3, 4, 6, 7}, wantStats, tableCause); f != nil {
		return f
	}
	if f := cmp("TABLE_CONSTRAINTS", o.TCons, nil, wantCons, tableCause); f != nil {
		return f
	}
	if f := cmp("KEY_COLUMN_USAGE", o.KCU, []int{0, 1, 2, 3, 5, 6}, wantKCU, tableCause); f != nil {
		return f
	}
	if f := cmp("REFERENTIAL_CONSTRAINTS", o.Refs, []int{0, 2, 3}, wantRefs, tableCause); f != nil {
		return f
	}
	if f := cmp("CHECK_CONSTRAINTS", o.Checks, nil, wantChecks, tableCause); f != nil {
		return f
	}
	// a primary key column is flagged PRI, and only members of the key (when the table has one)
	for _, row := range baseCols.Rows {
		for n, t := range r.Tables {
			if row[0] != enc(n) || len(t.PK) == 0 {
				continue
			}
			inPK := false
			for _, c := range t.PK {
				inPK = inPK || row[1] == enc(c)
			}
			if inPK != (row[5] == 1) {
				diffVals = map[uint64]bool{row[0]: true}
				return &failure{tableCause("column-key/pri-flag-vs-primary-key"),
					fmt.Sprintf("COLUMNS row %v: PRI flag disagrees with primary key %v of %s", row, t.PK, n)}
			}
		}
	}
	// views (every existing view is listed with its definition), routines
	var wantViews, wantProcs, wantTrigs []rowT
	dangling := false
	for _, n := range sortedKeys(r.Views) {
		v := r.Views[n]
		row := rowT{enc(n), enc(v.Base)}
		for _, c := range v.Cols {
			row = append(row, enc(c))
		}
		wantViews = append(wantViews, row)
		if bt := r.Tables[v.Base]; bt == nil {
			dangling = true
		} else {
			for _, c := range v.Cols {
				dangling = dangling || bt.col(c) == nil
			}
		}
	}
	if f := cmp("VIEWS", o.Views, nil, wantViews, func(d string) string {
		if dangling && len(o.Views.Rows) < len(wantViews) {
			return "views-omits-view-with-dangling-reference"
		}
		return d
	}); f != nil {
		return f
	}
	for _, n := range sortedKeys(r.Procs) {
		wantProcs = append(wantProcs, rowT{enc(n), uint64(r.Procs[n])})
	}
	if f := cmp("ROUTINES", o.Routines, nil, wantProcs, plain); f != nil {
		return f
	}
	// triggers
	renamed, colGone := false, false
	var wantOrder []rowT
	for _, g := range r.Trigs {
		n := g.Name
		ref := nul
		if g.Ref != "" {
			ref = enc(g.Ref)
			if t := r.Tables[g.Table]; t != nil && t.col(g.Ref) == nil {
				colGone = true
			}
		}
		renamed = renamed || g.tableRenamed
		wantTrigs = append(wantTrigs, rowT{enc(n), uint64(g.Ev), enc(g.Table), bN(g.Before), ref})
		ord := uint64(1) // ACTION_ORDER: position among the triggers of the same table, timing and event
		for _, h := range r.Trigs {
			if h == g {
				break
			}
			if h.Table == g.Table && h.Before == g.Before && h.Ev == g.Ev {
				ord++
			}
		}
		wantOrder = append(wantOrder, rowT{enc(n), enc(g.Table), ord})
	}
	trigCause := func(d string) string {
		if renamed {
			return "triggers-unlistable/table-renamed"
		}
		if colGone {
			return "is-triggers-error/trigger-column-dropped-or-renamed"
		}
		return d
	}
	if f := cmp("SHOW TRIGGERS", o.ShowTriggers, nil, wantTrigs, trigCause); f != nil {
		return f
	}
	if f := cmp("TRIGGERS", o.Triggers, []int{0, 1, 2, 4, 5}, wantTrigs, trigCause); f != nil {
		return f
	}
	if f := cmp("TRIGGERS.ACTION_ORDER", o.Triggers, []int{0, 2, 3}, wantOrder, func(string) string {
		return "triggers/action-order-counted-across-tables"
	}); f != nil && !r.muted["triggers"] {
		tabs := map[string]bool{}
		for _, g := range r.Trigs {
			tabs[g.Table] = true
		}
		if len(tabs) < 2 {
			f.sig = "mismatch/TRIGGERS.ACTION_ORDER"
		}
		return f
	}
	return cross()
}

// ---------- generator ----------

var (
	colUniverse  = []string{"c0", "c1", "c2", "c3", "c4", "c5"}
	idxUniverse  = []string{"i0", "i1", "i2", "i3"}
	fkUniverse   = []string{"f0", "f1", "f2"}
	chkUniverse  = []string{"k0", "k1", "k2"}
	viewUniverse = []string{"v0", "v1"}
	trgUniverse  = []string{"g0", "g1", "g2"}
	prcUniverse  = []string{"p0", "p1"}
)

func pickSome(r *lib.RNG, l []string, lo, hi int) []string {
	if len(l) == 0 {
		return nil
	}
	p := append([]string{}, l...)
	for i := len(p) - 1; i > 0; i-- {
		j := r.Intn(i + 1)
		p[i], p[j] = p[j], p[i]
	}
	n := r.Range(lo, hi)
	if n > len(p) {
		n = len(p)
	}
	return p[:n]
}

func genOp(r *lib.RNG, ref *refT) opT {
	tabs := sortedKeys(ref.Tables)
	wild := r.Chance(1, 8) // names drawn from the universe instead of the catalog: mostly invalid statements
	pickT := func() string {
		if len(tabs) == 0 || wild {
			return lib.Pick(r, tableUniverse)
		}
		return lib.Pick(r, tabs)
	}
	pickC := func(t string) string {
		if tb := ref.Tables[t]; tb != nil && !wild && len(tb.Cols) > 0 {
			return lib.Pick(r, tb.colNames())
		}
		return lib.Pick(r, colUniverse)
	}
	freeC := func(t string) string {
		if tb := ref.Tables[t]; tb != nil && !wild {
			var free []string
			for _, c := range colUniverse {
				if tb.col(c) == nil {
					free = append(free, c)
				}
			}
			if len(free) > 0 {
				return lib.Pick(r, free)
			}
		}
		return lib.Pick(r, colUniverse)
	}
	colsOf := func(t string, lo, hi int) []string {
		if tb := ref.Tables[t]; tb != nil && !wild {
			return pickSome(r, tb.colNames(), lo, hi)
		}
		return pickSome(r, colUniverse, lo, hi)
	}
	if len(tabs) == 0 || (len(tabs) < 3 && r.Chance(1, 4)) {
		return genCreate(r, ref)
	}
	t := pickT()
	switch w := r.Intn(100); {
	case w < 5:
		return genCreate(r, ref)
	case w < 9:
		return opT{Kind: "DropTable", T: t}
	case w < 15:
		return opT{Kind: "RenameTable", T: t, U: lib.Pick(r, tableUniverse)}
	case w < 25:
		o := withCol(opT{Kind: "AddColumn", T: t, Pos: r.Intn(3)}, genCol(r, freeC(t)))
		if o.Pos == 2 {
			o.C2 = pickC(t)
		}
		return o
	case w < 32:
		if tb := ref.Tables[t]; tb != nil && len(tb.Cols) == 1 && !r.Chance(1, 6) {
			return withCol(opT{Kind: "AddColumn", T: t}, genCol(r, freeC(t)))
		}
		return opT{Kind: "DropColumn", T: t, C: pickC(t)}
	case w < 42:
		return opT{Kind: "RenameColumn", T: t, C: pickC(t), C2: freeC(t)}
	case w < 53:
		if r.Chance(1, 6) { // functional index ((c + 1)): brings a hidden system column
			return opT{Kind: "CreateFnIndex", T: t, U: lib.Pick(r, idxUniverse), C: pickC(t)}
		}
		o := opT{Kind: "CreateIndex", T: t, U: lib.Pick(r, idxUniverse), Cols: colsOf(t, 1, 2), Uniq: r.Chance(2, 5)}
		if tb := ref.Tables[t]; tb != nil { // prefix lengths on string key parts (rarely on others: rejected)
			pre, any := make([]int, len(o.Cols)), false
			for i, c := range o.Cols {
				if cdf := tb.col(c); cdf != nil && ((cdf.Ty >= 3 && r.Chance(1, 3)) || r.Chance(1, 30)) {
					pre[i], any = r.Range(1, 4), true
				}
			}
			if any {
				o.Pre = pre
			}
		}
		return o
	case w < 58:
		u := lib.Pick(r, idxUniverse)
		if tb := ref.Tables[t]; tb != nil && len(tb.Idx) > 0 && !wild {
			u = lib.Pick(r, sortedKeys(tb.Idx))
		}
		return opT{Kind: "DropIndex", T: t, U: u}
	case w < 63:
		return opT{Kind: "AddPK", T: t, Cols: colsOf(t, 1, 2)}
	case w < 66:
		return opT{Kind: "DropPK", T: t}
	case w < 75:
		p := pickT()
		for k := 0; k < 3 && p == t; k++ {
			p = pickT()
		}
		if pb := ref.Tables[p]; p == t || (pb != nil && pb.pkRenamedWithIdx) {
			return genCreate(r, ref)
		}
		o := opT{Kind: "AddFK", T: t, U: lib.Pick(r, fkUniverse), Parent: p}
		n := 1
		if r.Chance(1, 4) {
			n = 2
		}
		o.Cols = colsOf(t, n, n)
		// prefer parent columns that are indexed (prefix of the primary key or of an index)
		if pb := ref.Tables[p]; pb != nil && !wild && r.Chance(5, 6) {
			var cands [][]string
			if len(pb.PK) >= len(o.Cols) {
				cands = append(cands, pb.PK[:len(o.Cols)])
			}
			for _, in := range sortedKeys(pb.Idx) {
				if len(pb.Idx[in].Cols) >= len(o.Cols) {
					cands = append(cands, pb.Idx[in].Cols[:len(o.Cols)])
				}
			}
			if len(cands) > 0 {
				o.PCols = append([]string{}, lib.Pick(r, cands)...)
			}
		}
		if o.PCols == nil {
			o.PCols = colsOf(p, len(o.Cols), len(o.Cols))
		}
		// make the child column types agree with the parent most of the time
		if tb, pb := ref.Tables[t], ref.Tables[p]; tb != nil && pb != nil && len(o.PCols) == len(o.Cols) && r.Chance(4, 5) {
			var cs []string
			for _, pc := range o.PCols {
				pcd := pb.col(pc)
				for _, c := range tb.Cols {
					if pcd != nil && c.Ty == pcd.Ty && idxOf(cs, c.Name) < 0 {
						cs = append(cs, c.Name)
						break
					}
				}
			}
			if len(cs) == len(o.PCols) {
				o.Cols = cs
			}
		}
		return o
	case w < 78:
		u := lib.Pick(r, fkUniverse)
		if len(ref.FKs) > 0 && !wild {
			u = lib.Pick(r, sortedKeys(ref.FKs))
			if r.Chance(4, 5) {
				t = ref.FKs[u].Table
			}
		}
		return opT{Kind: "DropFK", T: t, U: u}
	case w < 83:
		return opT{Kind: "AddCheck", T: t, U: lib.Pick(r, chkUniverse), C: pickC(t), Val: r.Intn(10)}
	case w < 85:
		u := lib.Pick(r, chkUniverse)
		if tb := ref.Tables[t]; tb != nil && len(tb.Chk) > 0 && !wild {
			u = lib.Pick(r, sortedKeys(tb.Chk))
		}
		return opT{Kind: "DropCheck", T: t, U: u}
	case w < 89:
		return opT{Kind: "CreateView", U: lib.Pick(r, viewUniverse), T: t, Cols: colsOf(t, 1, 2)}
	case w < 91:
		return opT{Kind: "DropView", U: lib.Pick(r, viewUniverse)}
	case w < 96:
		o := opT{Kind: "CreateTrigger", U: lib.Pick(r, trgUniverse), T: t, Before: r.Bool(), Ev: r.Intn(3)}
		if r.Chance(2, 3) {
			o.C = pickC(t)
		}
		return o
	case w < 97:
		u := lib.Pick(r, trgUniverse)
		if len(ref.Trigs) > 0 {
			u = lib.Pick(r, ref.Trigs).Name
		}
		return opT{Kind: "DropTrigger", U: u}
	case w < 99:
		return opT{Kind: "CreateProc", U: lib.Pick(r, prcUniverse), Val: r.Intn(10)}
	default:
		return opT{Kind: "DropProc", U: lib.Pick(r, prcUniverse)}
	}
}

func genCol(r *lib.RNG, n string) colDef {
	d := cd(n, r.Range(1, 4), r.Bool())
	if r.Chance(1, 4) {
		v := r.Intn(10)
		d.Def = &v
	}
	if r.Chance(1, 4) {
		d.Com = lib.Pick(r, []string{"k1", "k2", "k3"})
	}
	return d
}

func withCol(o opT, d colDef) opT {
	o.C, o.Ty, o.Null, o.Def, o.Com = d.Name, d.Ty, d.Null, d.Def, d.Com
	return o
}

func genCreate(r *lib.RNG, ref *refT) opT {
	o := opT{Kind: "CreateTable", T: lib.Pick(r, tableUniverse)}
	for k := 0; k < 4 && ref.Tables[o.T] != nil; k++ {
		o.T = lib.Pick(r, tableUniverse)
	}
	names := pickSome(r, colUniverse, 1, 4)
	for _, n := range names {
		o.Defs = append(o.Defs, genCol(r, n))
	}
	if r.Chance(2, 3) {
		o.Cols = pickSome(r, names, 1, 2)
	}
	if o.Cols == nil {
		o.Cols = []string{}
	}
	return o
}

// ---------- running a case ----------

func newEngine() *eng.S {
	e := eng.New("db")
	mdb := e.Engine.Analyzer.Catalog.MySQLDb
	mdb.AddRootAccount()
	mdb.SetPersister(&mysql_db.NoopPersister{})
	s := e.Session()
	// two static neighbour databases with table names that also occur in "db": da sorts before, db2 after
	s.MustExec("CREATE DATABASE da", "CREATE DATABASE db2",
		"CREATE TABLE da.t0 (y0 INT NOT NULL, y1 BIGINT, PRIMARY KEY (y0))",
		"CREATE TABLE db2.t3 (z0 INT NOT NULL, z1 VARCHAR(10), PRIMARY KEY (z0))")
	return s
}

// muteClass: defects of one listing against another that do not put the reference out of step.
func muteClass(sig string) string {
	for _, p := range []struct{ prefix, cls string }{
		{"column-key/", "column-key"}, {"show-full-columns/collation", "show-full-columns"},
		{"show-indexes/stale-table-name", "show-indexes"}, {"show-indexes/sub-part", "show-indexes-sub-part"},
		{"pk-order/show-create-table/", "pk-order"}, {"triggers/action-order", "triggers"}} {
		if strings.HasPrefix(sig, p.prefix) {
			return p.cls
		}
	}
	return ""
}

// snapshot reads the catalog through a path independent of information_schema and of the SHOW statements under
// test: the provider's table names and SHOW CREATE TABLE of every name of the table universe (columns, keys, foreign keys, checks).
func snapshot(s *eng.S) string {
	var sb strings.Builder
	if db, err := s.E.Pro.Database(s.Ctx, s.E.DB); err == nil { // table names straight from the provider
		names, _ := db.GetTableNames(s.Ctx)
		sort.Strings(names)
		sb.WriteString(strings.Join(names, ",") + "|")
	}
	for _, t := range tableUniverse {
		r := s.Query("SHOW CREATE TABLE " + t)
		if r.Err != nil {
			sb.WriteString(t + ":-;")
			continue
		}
		for _, row := range r.Rows {
			sb.WriteString(fmt.Sprint(row...))
		}
		sb.WriteByte(';')
	}
	return sb.String()
}

// runCase executes a history.  ops == nil: generate n statements from r, interleaved with execution.
func runCase(c *lib.Ctx, ops []opT, r *lib.RNG, n int) {
	s := newEngine()
	ref := newRef()
	var cs caseT
	var steps []string
	var fail *failure
	var soft []*failure // non-blocking listing defects, one per class and history
	cut := false
	prevSnap := snapshot(s)
	accepted := 0
	kinds := map[string]bool{}
	for i := 0; (ops != nil && i < len(ops)) || (ops == nil && i < n); i++ {
		var o opT
		if ops != nil {
			o = ops[i]
		} else {
			o = genOp(r, ref)
		}
		if o.Cols == nil {
			o.Cols = []string{}
		}
		cs.Ops = append(cs.Ops, o)
		res := s.Query(o.SQL())
		acc := res.Err == nil
		c.Count("stmt/" + o.Kind)
		if acc {
			accepted++
			kinds[o.Kind] = true
			c.Count("accepted/" + o.Kind)
			if p, pv := lib.Recover(func() { ref.apply(o) }); p && fail == nil {
				fail = &failure{"accepted-impossible-statement/" + o.Kind, "engine accepted `" + o.SQL() + "` which names an object the catalog does not have: " + pv}
			}
		}
		ob := observe(s)
		steps = append(steps, lib.CoqTuple(o.Coq(), lib.CoqBool(acc), ob.Coq()))
		snap := snapshot(s)
		if fail == nil && !cut {
			// C43 is about the listings agreeing with the catalog as it IS.  A statement that panics, or that is rejected
			// and nevertheless changes the catalog (seen independently through SHOW CREATE TABLE), is a DDL atomicity /
			// crash defect outside this property: the reference can no longer follow, so the history is cut here
			// (only SHOW-vs-information_schema agreement is still demanded at this statement).
			if res.Panic != "" {
				cut = true
				c.Count("history-cut/panic/" + o.Kind)
			} else if !acc && snap != prevSnap {
				cut = true
				c.Count("history-cut/rejected-statement-with-effect/" + o.Kind)
			}
			for tries := 0; tries < 8; tries++ {
				f := ref.check(ob, cut)
				if f == nil {
					break
				}
				f = &failure{f.sig, "after `" + o.SQL() + "`: " + f.what}
				if cls := muteClass(f.sig); cls != "" {
					soft = append(soft, f)
					ref.muted[cls] = true
					continue
				}
				fail = f
				break
			}
		}
		prevSnap = snap
	}
	key := ""
	if accepted >= 3 && len(kinds) >= 2 {
		var sb strings.Builder
		for _, o := range cs.Ops {
			sb.WriteString(o.SQL())
			sb.WriteByte(';')
		}
		key = sb.String()
	}
	c.Count(fmt.Sprintf("accepted_statements_%02d", accepted))
	id := c.Case(lib.CoqList(steps), cs, key)
	c.PredChecked()
	for _, f := range soft {
		c.PredFail(id, f.sig, f.what, cs)
	}
	if fail != nil {
		c.PredFail(id, fail.sig, fail.what, cs)
	}
}

func ct(t string, pk []string, defs ...colDef) opT {
	return opT{Kind: "CreateTable", T: t, Defs: defs, Cols: pk}
}

func corpus() [][]opT {
	i := func(n string, null bool) colDef { return cd(n, 1, null) }
	return [][]opT{
		// plain life cycle
		{ct("t0", []string{"c0"}, i("c0", false), i("c1", true), cd("c2", 3, true)),
			{Kind: "CreateIndex", T: "t0", U: "i0", Cols: []string{"c1", "c2"}}, {Kind: "CreateIndex", T: "t0", U: "i1", Cols: []string{"c2"}, Uniq: true},
			{Kind: "AddCheck", T: "t0", U: "k0", C: "c1", Val: 5}, {Kind: "CreateView", U: "v0", T: "t0", Cols: []string{"c0", "c1"}},
			{Kind: "CreateProc", U: "p0", Val: 7}, {Kind: "CreateTrigger", U: "g0", T: "t0", Before: true, Ev: 0, C: "c1"},
			{Kind: "DropColumn", T: "t0", C: "c2"}, {Kind: "DropTable", T: "t0"}, {Kind: "DropView", U: "v0"}, {Kind: "DropProc", U: "p0"}},
		// known: RENAME TABLE leaves the trigger on the old table name
		{ct("t0", []string{"c0"}, i("c0", false), i("c1", true)), {Kind: "CreateTrigger", U: "g0", T: "t0", Before: true, Ev: 0, C: "c1"},
			{Kind: "RenameTable", T: "t0", U: "t1"}, {Kind: "DropTable", T: "t1"}},
		// known: trigger referencing a dropped column
		{ct("t0", []string{"c0"}, i("c0", false), i("c1", true)), {Kind: "CreateTrigger", U: "g0", T: "t0", Before: false, Ev: 2, C: "c1"},
			{Kind: "DropColumn", T: "t0", C: "c1"}},
		// known: view with dangling reference disappears from VIEWS
		{ct("t0", []string{"c0"}, i("c0", false), i("c1", true)), {Kind: "CreateView", U: "v0", T: "t0", Cols: []string{"c1"}},
			{Kind: "RenameColumn", T: "t0", C: "c1", C2: "c2"}},
		// known: renaming the second column of a composite primary key garbles the key
		{ct("t0", []string{"c1", "c2"}, i("c0", true), i("c1", false), i("c2", false)), {Kind: "RenameColumn", T: "t0", C: "c2", C2: "c3"}},
		// known: failed ADD FOREIGN KEY (name taken in another table) leaves its index behind
		{ct("t0", []string{"c0"}, i("c0", false), i("c1", true)), ct("t1", []string{"c0"}, i("c0", false), i("c1", true)),
			{Kind: "AddFK", T: "t1", U: "f0", Cols: []string{"c1"}, Parent: "t0", PCols: []string{"c0"}},
			{Kind: "AddFK", T: "t0", U: "f0", Cols: []string{"c1"}, Parent: "t1", PCols: []string{"c0"}},
			{Kind: "CreateIndex", T: "t0", U: "i0", Cols: []string{"c0"}},
			{Kind: "AddFK", T: "t0", U: "f0", Cols: []string{"c1"}, Parent: "t1", PCols: []string{"c0"}}},
		// known: DROP COLUMN of a primary key column panics
		{ct("t0", []string{"c0"}, i("c0", false), i("c1", true)), {Kind: "DropColumn", T: "t0", C: "c0"}},
		// known: SHOW COLUMNS and information_schema.COLUMNS disagree on the key flag
		{ct("t0", []string{"c0"}, i("c0", false), i("c1", true)), {Kind: "CreateIndex", T: "t0", U: "i0", Cols: []string{"c1"}, Uniq: true},
			{Kind: "CreateIndex", T: "t0", U: "i1", Cols: []string{"c1"}}},
		// known: ACTION_ORDER counted across tables
		{ct("t0", []string{}, i("c0", true)), ct("t1", []string{}, i("c0", true)),
			{Kind: "CreateTrigger", U: "g0", T: "t1", Before: true, Ev: 1}, {Kind: "CreateTrigger", U: "g1", T: "t0", Before: true, Ev: 1}},
		// known: DROP COLUMN of a UNIQUE index column of a keyless table panics
		{ct("t2", []string{}, i("c4", true), cd("c0", 2, false), i("c2", true)),
			{Kind: "CreateIndex", T: "t2", U: "i3", Cols: []string{"c2"}, Uniq: true}, {Kind: "DropColumn", T: "t2", C: "c2"}},
		// known: column-less table, then ADD COLUMN / CREATE INDEX panic
		{ct("t1", []string{}, cd("c0", 3, false)), {Kind: "DropColumn", T: "t1", C: "c0"}, {Kind: "AddColumn", T: "t1", C: "c2", Ty: 1, Null: true}},
		{ct("t0", []string{}, i("c2", false)), {Kind: "DropColumn", T: "t0", C: "c2"}, {Kind: "CreateIndex", T: "t0", U: "i0", Cols: []string{"c0", "c5"}},
			{Kind: "AddColumn", T: "t0", C: "c1", Ty: 1, Null: true, Pos: 1}},
		// known: SHOW INDEXES keeps the old table name after RENAME TABLE
		{ct("t0", []string{"c0"}, i("c0", false), i("c1", true)), {Kind: "CreateIndex", T: "t0", U: "i0", Cols: []string{"c1"}},
			{Kind: "RenameTable", T: "t0", U: "t2"}},
		// known: failed RENAME TABLE rewrites foreign keys
		{ct("t1", []string{"c0"}, i("c0", false)), ct("t2", []string{"c0"}, i("c0", false), i("c1", true)), ct("t3", []string{"c0"}, i("c0", false)),
			{Kind: "AddFK", T: "t2", U: "f0", Cols: []string{"c1"}, Parent: "t1", PCols: []string{"c0"}}, {Kind: "RenameTable", T: "t1", U: "t3"}},
		// known: key flag of a keyless table with composite UNIQUE NOT NULL index
		{ct("t3", []string{}, cd("c4", 2, false), i("c3", false)), {Kind: "CreateIndex", T: "t3", U: "i1", Cols: []string{"c4", "c3"}, Uniq: true}},
		// known: ORDINAL_POSITION counts the hidden column of a functional index
		{ct("t0", []string{}, i("c0", true), i("c1", true)), {Kind: "CreateFnIndex", T: "t0", U: "i0", C: "c0"},
			{Kind: "AddColumn", T: "t0", C: "c2", Ty: 1, Null: true}, {Kind: "DropIndex", T: "t0", U: "i0"}, {Kind: "AddColumn", T: "t0", C: "c3", Ty: 2, Null: true}},
		// known: SHOW CREATE TABLE lists the key parts in column order once a functional index exists
		{ct("t1", []string{"c0", "c2"}, i("c2", false), cd("c0", 2, false)), {Kind: "CreateFnIndex", T: "t1", U: "i2", C: "c2"}},
		// composite primary key whose part order differs from the column order: declared directly, and via DROP + ADD PRIMARY KEY
		{ct("t3", []string{"c1", "c0"}, i("c2", true), i("c0", false), i("c1", false)), {Kind: "DropPK", T: "t3"},
			{Kind: "AddPK", T: "t3", Cols: []string{"c1", "c2"}}, {Kind: "AddColumn", T: "t3", C: "c4", Ty: 3, Null: true, Pos: 1}},
		// known: SHOW FULL COLUMNS Collation, SHOW INDEXES Sub_part; prefix lengths stay positional when a key part is dropped
		{ct("t0", []string{"c0"}, i("c0", false), cd("c1", 4, false), cd("c2", 3, true)),
			{Kind: "CreateIndex", T: "t0", U: "i0", Cols: []string{"c1", "c2"}, Pre: []int{3, 0}},
			{Kind: "CreateIndex", T: "t0", U: "i1", Cols: []string{"c2"}, Pre: []int{4}, Uniq: true},
			{Kind: "CreateIndex", T: "t0", U: "i2", Cols: []string{"c0"}, Pre: []int{2}}, {Kind: "DropColumn", T: "t0", C: "c1"}},
		// name clashes between tables and views, foreign key life cycle, primary key changes
		{ct("t0", []string{}, i("c0", true), i("c1", true)), {Kind: "CreateView", U: "t1", T: "t0", Cols: []string{"c0"}},
			ct("t1", []string{}, i("c0", true)), {Kind: "RenameTable", T: "t0", U: "t1"}, {Kind: "CreateView", U: "t0", T: "t0", Cols: []string{"c0"}},
			{Kind: "AddPK", T: "t0", Cols: []string{"c1", "c0"}}, {Kind: "AddColumn", T: "t0", C: "c4", Ty: 2, Null: false, Pos: 1},
			{Kind: "DropPK", T: "t0"}, {Kind: "DropPK", T: "t0"}},
		{ct("t0", []string{"c0"}, i("c0", false), i("c1", true)), ct("t1", []string{"c0"}, i("c0", false), i("c1", true), i("c2", true)),
			{Kind: "AddFK", T: "t1", U: "f0", Cols: []string{"c1"}, Parent: "t0", PCols: []string{"c1"}},
			{Kind: "CreateIndex", T: "t0", U: "i0", Cols: []string{"c1"}},
			{Kind: "AddFK", T: "t1", U: "f0", Cols: []string{"c1"}, Parent: "t0", PCols: []string{"c1"}},
			{Kind: "DropIndex", T: "t0", U: "i0"}, {Kind: "DropIndex", T: "t1", U: "f0"}, {Kind: "DropTable", T: "t0"},
			{Kind: "RenameTable", T: "t0", U: "t2"}, {Kind: "RenameColumn", T: "t2", C: "c1", C2: "c5"},
			{Kind: "DropFK", T: "t0", U: "f0"}, {Kind: "DropFK", T: "t1", U: "f0"}, {Kind: "DropTable", T: "t2"}},
	}
}

func main() {
	lib.Main("C43", func(c *lib.Ctx) {
		c.Header = "From Coq Require Import List NArith.\nImport ListNotations.\nFrom GMS Require Import Sys.C43Catalog Corr.C43.\nOpen Scope N_scope."
		c.CaseType = "C43.case"
		c.MismatchFn = "C43.mismatches"
		c.SetRule("DDL histories of 6-14 statements over 4 table names, 6 column names, 3 column types: CREATE/DROP/RENAME TABLE, " +
			"ADD (FIRST/AFTER)/DROP/RENAME COLUMN, CREATE [UNIQUE]/DROP INDEX, ADD/DROP PRIMARY KEY, ADD/DROP FOREIGN KEY, ADD/DROP CHECK, " +
			"CREATE/DROP VIEW, TRIGGER, PROCEDURE; names drawn from the current catalog (7/8) or from the whole universe (1/8, mostly rejected). " +
			"After every statement 10 information_schema tables and SHOW [FULL] TABLES / COLUMNS / INDEXES / TRIGGERS are read. " +
			"Non-trivial: at least 3 accepted statements of at least 2 kinds; distinct = distinct statement texts.")
		if c.ReplayFile != "" {
			var cs caseT
			lib.LoadReplay(c.ReplayFile, &cs)
			runCase(c, cs.Ops, nil, 0)
			return
		}
		cp := corpus()
		for _, ops := range cp {
			runCase(c, ops, nil, 0)
		}
		for i := len(cp); i < c.N; i++ {
			r := c.R.Fork()
			runCase(c, nil, r, r.Range(6, 14))
		}
	})
}
