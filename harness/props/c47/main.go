// Driver for C47 (sql/in_mem_table): runs operation sequences on the real in_mem_table.IndexedSet (and the
// single-row table editor built on it), records every observation for the Coq model, and evaluates the property
// predicate on the implementation alone: all indexes hold the same bag, GetMany returns exactly the stored
// elements with that key, and Put/Remove/RemoveMany/Count/Clear/Insert/Delete/Update change the contents as an
// independently written bag does.
package main

import (
	"errors"
	"fmt"
	"sort"
	"strings"
	"sync"

	"github.com/dolthub/go-mysql-server/sql"
	imt "github.com/dolthub/go-mysql-server/sql/in_mem_table"

	"verifharness/lib"
)

// element: fields a, b, c and a tag (sidecar).  Data fields are 1..3, tags 1..9; 0 never occurs in data, so the Go
// zero value is recognisable.
type V struct{ F [4]uint8 }

type keyer struct{ mask uint8 }

func masked(m uint8, v V) [4]uint8 {
	var k [4]uint8
	for i := 0; i < 4; i++ {
		if m&(1<<uint(i)) != 0 {
			k[i] = v.F[i]
		}
	}
	return k
}

func (k keyer) GetKey(v V) any { return masked(k.mask, v) }

type opT struct {
	Kind string   `json:"kind"`
	V    [4]uint8 `json:"v,omitempty"`   // element / key
	Kid  uint8    `json:"kid,omitempty"` // keyer mask
	R    [3]uint8 `json:"r,omitempty"`
	R2   [3]uint8 `json:"r2,omitempty"`
}

type caseT struct {
	Em     uint8   `json:"equals_mask"`
	Keyers []uint8 `json:"keyers"`
	Ops    []opT   `json:"ops"`
}

func coqV(v [4]uint8) string { return fmt.Sprintf("(%d, %d, %d, %d)", v[0], v[1], v[2], v[3]) }
func coqR(r [3]uint8) string { return fmt.Sprintf("(%d, %d, %d)", r[0], r[1], r[2]) }
func coqVs(vs []V) string {
	return lib.CoqListOf(vs, func(v V) string { return coqV(v.F) })
}

func (o opT) coq() string {
	switch o.Kind {
	case "put":
		return "OpPut " + coqV(o.V)
	case "get":
		return "OpGet " + coqV(o.V)
	case "getmany":
		return fmt.Sprintf("OpGetMany %d %s", o.Kid, coqV(o.V))
	case "remove":
		return "OpRemove " + coqV(o.V)
	case "removemany":
		return fmt.Sprintf("OpRemoveMany %d %s", o.Kid, coqV(o.V))
	case "count":
		return "OpCount"
	case "clear":
		return "OpClear"
	case "visit":
		return "OpVisit"
	case "insert":
		return "OpInsert " + coqR(o.R)
	case "delete":
		return "OpDelete " + coqR(o.R)
	case "update":
		return fmt.Sprintf("OpUpdate %s %s", coqR(o.R), coqR(o.R2))
	case "minsert":
		return "OpMInsert " + coqR(o.R)
	case "mdelete":
		return "OpMDelete " + coqR(o.R)
	case "mupdate":
		return fmt.Sprintf("OpMUpdate %s %s", coqR(o.R), coqR(o.R2))
	case "truncate":
		return "OpTruncate"
	case "rows":
		return "OpRows"
	case "mrows":
		return "OpMRows"
	}
	panic("bad op " + o.Kind)
}

func fromRow(r [3]uint8) V            { return V{[4]uint8{r[0], r[1], r[2], 0}} }
func updateWithRow(r [3]uint8, e V) V { return V{[4]uint8{r[0], r[1], r[2], e.F[3]}} }
func rowOf(r [3]uint8) sql.Row        { return sql.Row{r[0], r[1], r[2]} }
func rowAdd(r [3]uint8, e V) V        { return V{[4]uint8{e.F[0], e.F[1], e.F[2] | r[2], e.F[3]}} }
func rowDel(r [3]uint8, e V) V        { return V{[4]uint8{e.F[0], e.F[1], e.F[2] &^ r[2], e.F[3]}} }
func rowsOf(v V) []V {
	var r []V
	for bit := uint8(1); bit <= 2; bit <<= 1 {
		if v.F[2]&bit != 0 {
			r = append(r, V{[4]uint8{v.F[0], v.F[1], bit, 0}})
		}
	}
	return r
}
func rowBack(r sql.Row) [3]uint8 { return [3]uint8{r[0].(uint8), r[1].(uint8), r[2].(uint8)} }

func bagStr(vs []V) string {
	ss := make([]string, len(vs))
	for i, v := range vs {
		ss[i] = fmt.Sprint(v.F)
	}
	sort.Strings(ss)
	return strings.Join(ss, "")
}

// ---------- the independent bag ----------
type bag struct {
	em     uint8
	keyers []uint8
	c      []V
}

func (b *bag) eq(v, w V) bool { return masked(b.em, v) == masked(b.em, w) }
func (b *bag) hasKeyer(m uint8) bool {
	for _, k := range b.keyers {
		if k == m {
			return true
		}
	}
	return false
}
func (b *bag) keep(f func(V) bool) {
	var n []V
	for _, w := range b.c {
		if f(w) {
			n = append(n, w)
		}
	}
	b.c = n
}
func (b *bag) withKey(m uint8, k [4]uint8) []V {
	var r []V
	for _, w := range b.c {
		if masked(m, w) == k {
			r = append(r, w)
		}
	}
	return r
}
func (b *bag) contains(v V) bool {
	for _, w := range b.c {
		if b.eq(v, w) {
			return true
		}
	}
	return false
}

func run(c *lib.Ctx, cs caseT) {
	eq := func(v, w V) bool { return masked(cs.Em, v) == masked(cs.Em, w) }
	ks := make([]imt.Keyer[V], len(cs.Keyers))
	for i, m := range cs.Keyers {
		ks[i] = keyer{m}
	}
	set := imt.NewIndexedSet[V](eq, ks)
	vops := imt.ValueOps[V]{
		ToRow:         func(_ *sql.Context, v V) (sql.Row, error) { return sql.Row{v.F[0], v.F[1], v.F[2]}, nil },
		FromRow:       func(_ *sql.Context, r sql.Row) (V, error) { return fromRow(rowBack(r)), nil },
		UpdateWithRow: func(_ *sql.Context, r sql.Row, e V) (V, error) { return updateWithRow(rowBack(r), e), nil },
	}
	mops := imt.MultiValueOps[V]{
		ToRows: func(_ *sql.Context, v V) ([]sql.Row, error) {
			var rs []sql.Row
			for _, w := range rowsOf(v) {
				rs = append(rs, sql.Row{w.F[0], w.F[1], w.F[2]})
			}
			return rs, nil
		},
		FromRow:   func(_ *sql.Context, r sql.Row) (V, error) { return fromRow(rowBack(r)), nil },
		AddRow:    func(_ *sql.Context, r sql.Row, e V) (V, error) { return rowAdd(rowBack(r), e), nil },
		DeleteRow: func(_ *sql.Context, r sql.Row, e V) (V, error) { return rowDel(rowBack(r), e), nil },
	}
	// the tables of multimaptable.go over the same set; their Editor() is the OperationLockingTableEditor
	var mu sync.RWMutex
	ctx := sql.NewEmptyContext()
	tbl := imt.NewIndexedSetTable[V]("t", nil, 0, set, vops, &mu, mu.RLocker())
	mtbl := imt.NewMultiIndexedSetTable[V]("mt", nil, 0, set, mops, &mu, mu.RLocker())
	ed := tbl.Editor()
	med := mtbl.Editor()
	readRows := func(t sql.Table) []V {
		it, err := t.PartitionRows(ctx, nil)
		if err != nil {
			panic("PartitionRows: " + err.Error())
		}
		var r []V
		for {
			row, err := it.Next(ctx)
			if err != nil {
				break
			}
			x := rowBack(row)
			r = append(r, V{[4]uint8{x[0], x[1], x[2], 0}})
		}
		return r
	}
	valid := len(cs.Keyers) > 0
	for _, m := range cs.Keyers {
		if m&cs.Em != m {
			valid = false
		}
	}
	b := &bag{em: cs.Em, keyers: cs.Keyers}
	entries := func(i int) []V {
		var r []V
		set.Indexes[i].VisitEntries(func(v V) { r = append(r, v) })
		return r
	}

	type fail struct{ sig, what string }
	var fails []fail
	addFail := func(sig, what string) {
		if len(fails) < 3 {
			fails = append(fails, fail{sig, what})
		}
	}
	var obs []string
	dupPut, editorOnly := false, true
	for oi, o := range cs.Ops {
		v := V{o.V}
		var ob string
		desc := fmt.Sprintf("op #%d %s", oi, o.coq())
		panicked, pv := lib.Recover(func() {
			switch o.Kind {
			case "put":
				if b.contains(v) {
					dupPut = true
				}
				editorOnly = false
				set.Put(v)
				b.c = append(b.c, v)
				ob = "ONone"
			case "get":
				r, found := set.Get(v)
				ob = "OVal " + lib.CoqOpt(found, coqV(r.F))
				if !found && r != (V{}) {
					ob = "OPanic" // never: a not-found Get must return the zero value
				}
				if valid {
					if found != b.contains(v) {
						addFail("get/found-wrong", fmt.Sprintf("%s: found=%v but an Equals element stored=%v", desc, found, b.contains(v)))
					} else if found && (!eq(v, r) || len(b.withKey(15, r.F)) == 0) {
						addFail("get/returns-foreign-element", fmt.Sprintf("%s returned %v which is not a stored Equals element", desc, r.F))
					}
				}
			case "getmany":
				r := set.GetMany(keyer{o.Kid}, o.V)
				ob = "OList " + coqVs(r)
				if valid {
					want := []V{}
					if b.hasKeyer(o.Kid) {
						want = b.withKey(o.Kid, o.V)
					}
					if bagStr(r) != bagStr(want) {
						addFail("getmany/not-exact", fmt.Sprintf("%s returned %v, stored under that key: %v", desc, r, want))
					}
				}
			case "remove":
				r, found := set.Remove(v)
				ob = "ORem " + lib.CoqOpt(found, coqV(r.F))
				if !found && r != (V{}) {
					ob = "OPanic"
				}
				if valid {
					if found != b.contains(v) {
						addFail("remove/found-wrong", fmt.Sprintf("%s: found=%v but an Equals element stored=%v", desc, found, b.contains(v)))
					}
				}
				if len(cs.Keyers) > 0 {
					b.keep(func(w V) bool { return !eq(v, w) })
				}
				editorOnly = false
			case "removemany":
				set.RemoveMany(keyer{o.Kid}, o.V)
				ob = "ONone"
				if b.hasKeyer(o.Kid) {
					b.keep(func(w V) bool { return masked(o.Kid, w) != o.V })
				}
				editorOnly = false
			case "count":
				n := set.Count()
				ob = fmt.Sprintf("OCount %d%%nat", n)
				if valid && n != len(b.c) {
					addFail("count/wrong", fmt.Sprintf("%s = %d, %d elements stored", desc, n, len(b.c)))
				}
			case "clear":
				set.Clear()
				b.c = nil
				ob = "ONone"
				editorOnly = false
			case "visit":
				var r []V
				set.VisitEntries(func(v V) { r = append(r, v) })
				ob = "OBag " + coqVs(r)
			case "insert":
				err := ed.Insert(ctx, rowOf(o.R))
				pk := err != nil && sql.ErrPrimaryKeyViolation.Is(err)
				if err != nil && !pk {
					panic("unexpected editor error: " + err.Error())
				}
				ob = "OErr " + lib.CoqBool(pk)
				if len(cs.Keyers) > 0 {
					e := fromRow(o.R)
					exists := len(b.withKey(cs.Keyers[0], masked(cs.Keyers[0], e))) > 0
					if valid && exists != pk {
						addFail("insert/primary-key-check-wrong", fmt.Sprintf("%s: error=%v, key present=%v", desc, pk, exists))
					}
					if !exists {
						b.c = append(b.c, e)
					}
				}
			case "delete":
				if err := ed.Delete(ctx, rowOf(o.R)); err != nil {
					panic("unexpected editor error: " + err.Error())
				}
				ob = "OErr false"
				if len(cs.Keyers) > 0 {
					k0 := cs.Keyers[0]
					kk := masked(k0, fromRow(o.R))
					b.keep(func(w V) bool { return masked(k0, w) != kk })
				}
			case "update":
				if err := ed.Update(ctx, rowOf(o.R), rowOf(o.R2)); err != nil {
					panic("unexpected editor error: " + err.Error())
				}
				ob = "OErr false"
				if len(cs.Keyers) > 0 {
					k0 := cs.Keyers[0]
					e := fromRow(o.R)
					kk := masked(k0, e)
					es := b.withKey(k0, kk)
					if len(es) == 1 {
						b.keep(func(w V) bool { return !eq(e, w) })
						b.c = append(b.c, updateWithRow(o.R2, es[0]))
					} else {
						b.keep(func(w V) bool { return masked(k0, w) != kk })
						b.c = append(b.c, fromRow(o.R2))
					}
				}
			case "minsert", "mdelete", "mupdate":
				var err error
				switch o.Kind {
				case "minsert":
					err = med.Insert(ctx, rowOf(o.R))
				case "mdelete":
					err = med.Delete(ctx, rowOf(o.R))
				default:
					err = med.Update(ctx, rowOf(o.R), rowOf(o.R2))
				}
				notFound := err != nil && errors.Is(err, imt.ErrEntryNotFound)
				if err != nil && !notFound {
					panic("unexpected editor error: " + err.Error())
				}
				ob = "OErr " + lib.CoqBool(notFound)
				if len(cs.Keyers) > 0 {
					k0 := cs.Keyers[0]
					change := func(f func([3]uint8, V) V, r [3]uint8) bool { // true = entry not found
						es := b.withKey(k0, masked(k0, fromRow(r)))
						if len(es) != 1 {
							return true
						}
						b.keep(func(w V) bool { return !eq(es[0], w) })
						b.c = append(b.c, f(r, es[0]))
						return false
					}
					var want bool
					switch o.Kind {
					case "minsert":
						want = change(rowAdd, o.R)
					case "mdelete":
						want = change(rowDel, o.R)
					default:
						want = change(rowDel, o.R)
						if !want {
							want = change(rowAdd, o.R2)
						}
					}
					if valid && want != notFound {
						addFail(o.Kind+"/entry-not-found-wrong", fmt.Sprintf("%s: ErrEntryNotFound=%v, exactly one entry under the key=%v", desc, notFound, !want))
					}
				}
			case "truncate":
				n, err := tbl.Truncate(ctx)
				if err != nil {
					panic("Truncate: " + err.Error())
				}
				ob = fmt.Sprintf("OCount %d%%nat", n)
				if valid && n != len(b.c) {
					addFail("truncate/count-wrong", fmt.Sprintf("%s returned %d, %d elements stored", desc, n, len(b.c)))
				}
				b.c = nil
				editorOnly = false
			case "rows", "mrows":
				var got, want []V
				if o.Kind == "rows" {
					got = readRows(tbl)
					for _, w := range b.c {
						want = append(want, V{[4]uint8{w.F[0], w.F[1], w.F[2], 0}})
					}
				} else {
					got = readRows(mtbl)
					for _, w := range b.c {
						want = append(want, rowsOf(w)...)
					}
				}
				ob = "OBag " + coqVs(got)
				if valid && bagStr(got) != bagStr(want) {
					addFail(o.Kind+"/rows-not-the-stored-rows", fmt.Sprintf("%s returned %v, stored rows %v", desc, got, want))
				}
			}
		})
		if panicked {
			ob = "OPanic"
			if len(cs.Keyers) > 0 {
				addFail("panic/"+o.Kind, desc+" panicked: "+pv)
			}
		}
		obs = append(obs, ob)
		// the property, after every operation, on the implementation alone
		if valid && !panicked {
			c.PredChecked()
			all := entries(0)
			if bagStr(all) != bagStr(b.c) {
				addFail(o.Kind+"/contents-not-as-bag-model", fmt.Sprintf("after %s the set holds %v, the bag model %v", desc, all, b.c))
			}
			if n := set.Count(); n != len(all) {
				addFail("count/not-number-of-entries", fmt.Sprintf("after %s Count()=%d but %d entries are visited", desc, n, len(all)))
			}
			for i, m := range cs.Keyers {
				ei := entries(i)
				if bagStr(ei) != bagStr(all) {
					addFail(o.Kind+"/indexes-disagree", fmt.Sprintf("after %s index %d holds %v, index 0 holds %v", desc, i, ei, all))
				}
				// every key of every index: exactly the elements stored under it
				keys := map[[4]uint8]bool{masked(m, v): true, masked(m, fromRow(o.R)): true, masked(m, fromRow(o.R2)): true}
				for _, w := range all {
					keys[masked(m, w)] = true
				}
				for k := range keys {
					var want []V
					for _, w := range all {
						if masked(m, w) == k {
							want = append(want, w)
						}
					}
					got := set.GetMany(keyer{m}, k)
					if bagStr(got) != bagStr(want) {
						addFail(o.Kind+"/getmany-not-exact", fmt.Sprintf("after %s GetMany(keyer %d, %v) = %v, stored with that key: %v", desc, m, k, got, want))
					}
				}
			}
		}
	}
	final := make([]string, len(cs.Keyers))
	for i := range cs.Keyers {
		final[i] = coqVs(entries(i))
	}
	key := ""
	if len(cs.Ops) >= 3 && len(cs.Keyers) > 0 {
		key = fmt.Sprintf("%d|%v|%v", cs.Em, cs.Keyers, cs.Ops)
	}
	switch {
	case len(cs.Keyers) == 0:
		c.Count("config_no_keyers")
	case valid:
		c.Count("config_contract_holds")
	default:
		c.Count("config_contract_violated(correspondence only)")
	}
	c.Count(fmt.Sprintf("keyers_%d", len(cs.Keyers)))
	if dupPut {
		c.Count("seq_with_put_of_equals_duplicate")
	}
	if editorOnly && len(cs.Ops) > 0 {
		c.Count("seq_editor_ops_only")
	}
	for _, o := range cs.Ops {
		c.Count("op_" + o.Kind)
	}
	term := lib.CoqTuple(fmt.Sprint(cs.Em), lib.CoqListOf(cs.Keyers, func(m uint8) string { return fmt.Sprint(m) }),
		lib.CoqListOf(cs.Ops, func(o opT) string { return o.coq() }), lib.CoqList(obs), lib.CoqList(final))
	id := c.Case(term, cs, key)
	for _, f := range fails {
		c.PredFail(id, f.sig, f.what, cs)
	}
}

// ---------- generator ----------
func genV(r *lib.RNG) [4]uint8 {
	return [4]uint8{uint8(r.Range(1, 3)), uint8(r.Range(1, 3)), uint8(r.Range(1, 2)), uint8(r.Range(1, 9))}
}
func genR(r *lib.RNG) [3]uint8 {
	return [3]uint8{uint8(r.Range(1, 3)), uint8(r.Range(1, 3)), uint8(r.Range(1, 2))}
}

func gen(r *lib.RNG) caseT {
	var cs caseT
	cs.Em = lib.Pick(r, []uint8{3, 3, 7, 7, 7, 15, 1, 5, 6})
	nk := r.Range(1, 3)
	if r.Chance(1, 60) {
		nk = 0
	}
	validCfg := !r.Chance(1, 4)
	for i := 0; i < nk; i++ {
		var m uint8
		for tries := 0; ; tries++ {
			m = uint8(r.Range(1, 7))
			if r.Chance(1, 12) {
				m = uint8(r.Range(1, 15))
			}
			if !validCfg || m&cs.Em == m || tries > 50 {
				break
			}
		}
		if validCfg && m&cs.Em != m {
			m = cs.Em
		}
		if i > 0 && r.Chance(1, 10) {
			m = cs.Keyers[0] // the same keyer twice
		}
		cs.Keyers = append(cs.Keyers, m)
	}
	if cs.Keyers == nil {
		cs.Keyers = []uint8{}
	}
	mode := r.Intn(4) // 0: editor ops only, 1: container ops only, 2,3: mixed
	n := r.Range(1, 40)
	var recent [][4]uint8
	pickV := func() [4]uint8 {
		if len(recent) > 0 && r.Chance(2, 3) {
			v := lib.Pick(r, recent)
			if r.Chance(1, 2) {
				v[3] = uint8(r.Range(1, 9)) // an Equals-copy with another tag (when the tag is not compared)
			}
			return v
		}
		return genV(r)
	}
	pickKid := func() uint8 {
		if len(cs.Keyers) > 0 && !r.Chance(1, 8) {
			return lib.Pick(r, cs.Keyers)
		}
		return uint8(r.Range(1, 15))
	}
	for i := 0; i < n; i++ {
		var o opT
		x := r.Intn(100)
		if mode == 0 {
			x = 60 + r.Intn(40)
		} else if mode == 1 {
			x = r.Intn(79)
		}
		switch {
		case x < 28:
			o = opT{Kind: "put", V: genV(r)}
			if r.Chance(1, 4) {
				o.V = pickV()
			}
			recent = append(recent, o.V)
		case x < 40:
			o = opT{Kind: "remove", V: pickV()}
		case x < 48:
			kid := pickKid()
			o = opT{Kind: "removemany", Kid: kid, V: masked(kid, V{pickV()})}
		case x < 56:
			o = opT{Kind: "get", V: pickV()}
		case x < 60:
			o = opT{Kind: "clear"}
			if !r.Chance(1, 4) {
				o = opT{Kind: "count"}
			}
		case x < 70:
			kid := pickKid()
			o = opT{Kind: "getmany", Kid: kid, V: masked(kid, V{pickV()})}
			if r.Chance(1, 10) {
				o.V = pickV() // a key with fields the keyer never sets
			}
		case x < 75:
			o = opT{Kind: "count"}
		case x < 79:
			o = opT{Kind: "visit"}
		case x < 88:
			o = opT{Kind: "insert", R: genR(r)}
			recent = append(recent, fromRow(o.R).F)
		case x < 93:
			v := pickV()
			o = opT{Kind: "delete", R: [3]uint8{v[0], v[1], v[2]}}
		case x < 97 || mode == 1:
			v := pickV()
			o = opT{Kind: "update", R: [3]uint8{v[0], v[1], v[2]}, R2: genR(r)}
			if r.Chance(1, 2) { // change one field only
				o.R2 = o.R
				o.R2[r.Intn(3)] = uint8(r.Range(1, 3))
			}
			recent = append(recent, fromRow(o.R2).F)
		default:
			o = opT{Kind: lib.Pick(r, []string{"rows", "mrows", "rows", "mrows", "truncate"})}
		}
		if mode != 1 && r.Chance(1, 7) { // the Multi editors
			v := pickV()
			o = opT{Kind: lib.Pick(r, []string{"minsert", "mdelete", "mupdate"}), R: [3]uint8{v[0], v[1], uint8(r.Range(1, 3))}}
			if o.Kind == "mupdate" {
				o.R2 = o.R
				if r.Chance(1, 2) {
					w := pickV()
					o.R2 = [3]uint8{w[0], w[1], uint8(r.Range(1, 3))}
				} else {
					o.R2[2] = uint8(r.Range(1, 3))
				}
			}
		}
		cs.Ops = append(cs.Ops, o)
	}
	return cs
}

func main() {
	lib.Main("C47", func(c *lib.Ctx) {
		c.Header = "From Coq Require Import List NArith.\nImport ListNotations.\nFrom GMS Require Import Sys.IndexedSet Corr.C47.\nOpen Scope N_scope."
		c.CaseType = "C47.case"
		c.MismatchFn = "C47.mismatches"
		c.SetRule("operation sequences (1-40 ops: Put/Get/GetMany/Remove/RemoveMany/Count/Clear/VisitEntries, Insert/Delete/Update and MultiInsert/MultiDelete/MultiUpdate through the " +
			"tables' OperationLockingTableEditor, Truncate, PartitionRows of both tables) on in_mem_table.IndexedSet[V], V = 3 data fields over 1..3 + a tag; Equals and the 0-3 keyers " +
			"are field masks (3/4 of the configurations satisfy the contract keyer-fields within Equals-fields; the others and the " +
			"no-keyer configuration are compared with the model only); elements are re-used so that Equals-copies, shared keys, " +
			"duplicate Puts and primary-key collisions are frequent. Non-trivial = at least 3 ops and one keyer; distinct = " +
			"distinct (configuration, sequence).")
		if c.ReplayFile != "" {
			var cs caseT
			lib.LoadReplay(c.ReplayFile, &cs)
			run(c, cs)
			return
		}
		p := func(a, b, cc, t uint8) [4]uint8 { return [4]uint8{a, b, cc, t} }
		corpus := []caseT{
			// the pinned tests' shapes: same entry twice, Remove drops both copies, RemoveMany by either keyer
			{Em: 3, Keyers: []uint8{1, 2}, Ops: []opT{{Kind: "put", V: p(1, 1, 1, 1)}, {Kind: "put", V: p(1, 1, 1, 2)}, {Kind: "count"},
				{Kind: "put", V: p(1, 2, 1, 3)}, {Kind: "remove", V: p(1, 1, 2, 9)}, {Kind: "count"}, {Kind: "getmany", Kid: 2, V: p(0, 1, 0, 0)},
				{Kind: "getmany", Kid: 2, V: p(0, 2, 0, 0)}, {Kind: "removemany", Kid: 1, V: p(1, 0, 0, 0)}, {Kind: "count"}, {Kind: "visit"}}},
			// editor: Update onto an existing primary key (C47_update_can_duplicate_primary_key)
			{Em: 7, Keyers: []uint8{1, 2}, Ops: []opT{{Kind: "insert", R: [3]uint8{1, 1, 1}}, {Kind: "insert", R: [3]uint8{2, 2, 2}},
				{Kind: "update", R: [3]uint8{1, 1, 1}, R2: [3]uint8{2, 1, 1}}, {Kind: "getmany", Kid: 1, V: p(2, 0, 0, 0)}, {Kind: "count"},
				{Kind: "insert", R: [3]uint8{2, 3, 1}}, {Kind: "update", R: [3]uint8{2, 2, 2}, R2: [3]uint8{3, 3, 1}}, {Kind: "visit"},
				{Kind: "delete", R: [3]uint8{3, 1, 1}}, {Kind: "count"}}},
			// Update whose old row is not Equals to the stored entry, sidecar kept
			{Em: 3, Keyers: []uint8{1}, Ops: []opT{{Kind: "put", V: p(1, 1, 1, 5)}, {Kind: "update", R: [3]uint8{1, 2, 1}, R2: [3]uint8{1, 3, 1}},
				{Kind: "visit"}, {Kind: "update", R: [3]uint8{1, 3, 2}, R2: [3]uint8{2, 3, 2}}, {Kind: "visit"}, {Kind: "get", V: p(1, 1, 0, 0)}}},
			// the same keyer twice; a keyer that is not part of the set
			{Em: 7, Keyers: []uint8{1, 1, 2}, Ops: []opT{{Kind: "put", V: p(1, 1, 1, 1)}, {Kind: "put", V: p(1, 2, 1, 2)}, {Kind: "getmany", Kid: 4, V: p(0, 0, 1, 0)},
				{Kind: "removemany", Kid: 4, V: p(0, 0, 1, 0)}, {Kind: "count"}, {Kind: "removemany", Kid: 1, V: p(1, 0, 0, 0)}, {Kind: "count"}}},
			// contract violated (keyer reads field c, Equals does not): indexes drift apart — model comparison only
			{Em: 1, Keyers: []uint8{1, 4}, Ops: []opT{{Kind: "put", V: p(1, 1, 1, 1)}, {Kind: "remove", V: p(1, 1, 2, 1)}, {Kind: "count"},
				{Kind: "getmany", Kid: 4, V: p(0, 0, 1, 0)}}},
			// no keyers at all
			{Em: 3, Keyers: []uint8{}, Ops: []opT{{Kind: "put", V: p(1, 1, 1, 1)}, {Kind: "count"}, {Kind: "remove", V: p(1, 1, 1, 1)}, {Kind: "get", V: p(1, 1, 1, 1)},
				{Kind: "insert", R: [3]uint8{1, 1, 1}}, {Kind: "visit"}}},
			{Em: 7, Keyers: []uint8{3}, Ops: []opT{}},
			// Multi editors: MultiUpdate whose delete succeeds and insert fails keeps the deletion (C47_multi_update_partial_effect)
			{Em: 3, Keyers: []uint8{1, 2}, Ops: []opT{{Kind: "put", V: p(1, 1, 3, 7)}, {Kind: "mupdate", R: [3]uint8{1, 9, 1}, R2: [3]uint8{2, 9, 1}}, {Kind: "mrows"},
				{Kind: "minsert", R: [3]uint8{1, 9, 1}}, {Kind: "mrows"}, {Kind: "rows"}, {Kind: "mdelete", R: [3]uint8{1, 9, 3}}, {Kind: "mrows"}, {Kind: "truncate"}, {Kind: "count"}}},
			{Em: 3, Keyers: []uint8{}, Ops: []opT{{Kind: "minsert", R: [3]uint8{1, 1, 1}}, {Kind: "mupdate", R: [3]uint8{1, 1, 1}, R2: [3]uint8{1, 1, 2}}, {Kind: "rows"}, {Kind: "truncate"}}},
		}
		for _, cs := range corpus {
			run(c, cs)
		}
		for i := len(corpus); i < c.N; i++ {
			run(c, gen(c.R.Fork()))
		}
	})
}
