// Driver for C16 (secondary indexes of the in-memory backend stay consistent with table data).
//
// A case is a history of SQL statements (insert, update incl. primary key change, delete, replace, truncate,
// create / drop / rename index, statements that fail half way) run through the real engine on an indexed table t
// (1-3 partitions, keyed or keyless) and, when the history has no UNIQUE index, on an index-free twin u.
// After every step the driver
//   - dumps t's partitions and raw secondary index storage (hook memory.VerifC16Dump) for the Coq model,
//   - evaluates the property on the implementation alone: every index's storage is a duplicate-free, complete,
//     key-correct, sorted image of the rows; a lookup through every index (IndexedTable API) and planner-chosen
//     lookups (SQL) return exactly the rows of a full scan that satisfy the predicate; t and u hold the same rows
//     and answer the same queries; no statement panics.
package main

import (
	"fmt"
	"io"
	"sort"
	"strings"

	"github.com/dolthub/go-mysql-server/memory"
	"github.com/dolthub/go-mysql-server/sql"
	"github.com/dolthub/go-mysql-server/sql/types"

	"verifharness/lib"
	"verifharness/lib/eng"
)

// ---------- case description (replayable) ----------

type lookupT struct {
	Index string `json:"index"` // index name
	Kind  string `json:"kind"`  // eq lt ge null notnull all
	Val   string `json:"val"`   // literal ("3" or "'ab'")
}

type stepT struct {
	SQL     string    `json:"sql"`  // %T is the table name
	Kind    string    `json:"kind"` // dml | truncate | create | drop | rename
	Lookups []lookupT `json:"lookups,omitempty"`
	Queries []string  `json:"queries,omitempty"` // WHERE clauses, evaluated through SQL on t (and u) and by the driver
}

type caseT struct {
	NParts   int     `json:"nparts"`
	Keyless  bool    `json:"keyless"`
	MixedCol bool    `json:"mixedcol,omitempty"` // column c is declared as "C" (statements keep saying c)
	Inline   string  `json:"inline,omitempty"`   // pool index declared inline in CREATE TABLE (single partition only)
	Steps    []stepT `json:"steps"`
}

// columns: 0 pk BIGINT, 1 a BIGINT NULL, 2 b VARCHAR(8) NULL, 3 c BIGINT NULL
var colNames = []string{"pk", "a", "b", "c"}

type idxSpec struct {
	Name   string
	Cols   string // SQL column list
	Unique bool
	First  int // ordinal of the first column
}

var idxPool = []idxSpec{
	{"ia", "a", false, 1}, {"ib", "b", false, 2}, {"iab", "a, b", false, 1}, {"ic", "c", false, 3},
	{"ib2", "b(2)", false, 2}, {"ica", "c, a", false, 3}, {"iba", "b, a", false, 2}, {"ipa", "pk, a", false, 0},
	{"uc", "c", true, 3}, {"ub2", "b(2)", true, 2}, {"uac", "a, c", true, 1},
	{"Iac", "a, c", false, 1}, {"IB", "b", false, 2}, {"Idx_c", "c", false, 3}, {"idxV", "a, b", false, 1},
	{"C", "C", false, 3}, // name derived from the upper-case column name by ALTER TABLE t ADD INDEX (C)
}

var nameID = map[string]int{}

func init() {
	for i, s := range idxPool {
		nameID[strings.ToLower(s.Name)] = i + 1
	}
	for i, n := range []string{"ja", "jb", "jc", "Jd"} {
		nameID[strings.ToLower(n)] = 100 + i
	}
}

// createdName: the index name a CREATE step asks for ("ALTER TABLE t ADD INDEX (C)" derives it from the column).
func createdName(sqlText string) string {
	f := strings.Fields(sqlText)
	if f[0] == "ALTER" {
		return "C"
	}
	if f[1] == "UNIQUE" {
		return f[3]
	}
	return f[2]
}

func coqName(n string) string {
	id, ok := nameID[strings.ToLower(n)]
	if !ok {
		id = 999
	}
	return fmt.Sprintf("(%d%%N, %s)", id, lib.CoqBool(n != strings.ToLower(n)))
}

// ---------- values ----------

func coqVal(v interface{}) string {
	switch x := v.(type) {
	case nil:
		return "VNull"
	case int64:
		return "(VInt " + lib.CoqZ(x) + ")"
	case int32:
		return "(VInt " + lib.CoqZ(int64(x)) + ")"
	case int:
		return "(VInt " + lib.CoqZ(int64(x)) + ")"
	case uint64:
		return "(VInt " + lib.CoqZ(int64(x)) + ")"
	case string:
		return "(VStr " + coqNs(x) + ")"
	case []byte:
		return "(VStr " + coqNs(string(x)) + ")"
	default:
		return fmt.Sprintf("(VStr %s)", coqNs(fmt.Sprintf("?%T:%v", v, v)))
	}
}

func coqNs(s string) string {
	parts := make([]string, len(s))
	for i := 0; i < len(s); i++ {
		parts[i] = fmt.Sprintf("%d%%N", s[i])
	}
	return lib.CoqList(parts)
}

func coqNat(n int) string { return fmt.Sprintf("%d%%nat", n) }

func coqRow(r []interface{}) string { return lib.CoqListOf(r, coqVal) }
func coqRows(rs []sql.Row) string {
	return lib.CoqListOf(rs, func(r sql.Row) string { return coqRow(r) })
}

// cmpVal: NULL first, integers numerically, strings bytewise (the binary default collation).
func cmpVal(a, b interface{}) int {
	if a == nil || b == nil {
		switch {
		case a == nil && b == nil:
			return 0
		case a == nil:
			return -1
		default:
			return 1
		}
	}
	switch x := a.(type) {
	case int64:
		y, ok := b.(int64)
		if !ok {
			return -1
		}
		switch {
		case x < y:
			return -1
		case x > y:
			return 1
		}
		return 0
	case string:
		y, ok := b.(string)
		if !ok {
			return 1
		}
		return strings.Compare(x, y)
	}
	return strings.Compare(fmt.Sprint(a), fmt.Sprint(b))
}

func norm(v interface{}) interface{} {
	switch x := v.(type) {
	case int32:
		return int64(x)
	case int:
		return int64(x)
	case uint64:
		return int64(x)
	case []byte:
		return string(x)
	}
	return v
}

func normRow(r sql.Row) sql.Row {
	out := make(sql.Row, len(r))
	for i, v := range r {
		out[i] = norm(v)
	}
	return out
}

// ---------- predicates the driver can evaluate itself ----------

type cond struct {
	Col int
	Op  string // = < >= null notnull
	Val interface{}
}

func (c cond) sql() string {
	n := colNames[c.Col]
	switch c.Op {
	case "null":
		return n + " IS NULL"
	case "notnull":
		return n + " IS NOT NULL"
	}
	return fmt.Sprintf("%s %s %s", n, c.Op, lit(c.Val))
}

func lit(v interface{}) string {
	switch x := v.(type) {
	case nil:
		return "NULL"
	case string:
		return "'" + x + "'"
	}
	return fmt.Sprint(v)
}

func (c cond) holds(r sql.Row) bool {
	v := r[c.Col]
	switch c.Op {
	case "null":
		return v == nil
	case "notnull":
		return v != nil
	}
	if v == nil {
		return false
	}
	k := cmpVal(v, c.Val)
	switch c.Op {
	case "=":
		return k == 0
	case "<":
		return k < 0
	case ">=":
		return k >= 0
	}
	return false
}

// parseWhere parses the WHERE clauses this driver generates ("a = 3 AND b >= 'ab'").
func parseWhere(w string) []cond {
	var out []cond
	for _, part := range strings.Split(w, " AND ") {
		f := strings.Fields(part)
		col := -1
		for i, n := range colNames {
			if n == f[0] {
				col = i
			}
		}
		if len(f) >= 3 && f[1] == "IS" {
			if f[2] == "NULL" {
				out = append(out, cond{col, "null", nil})
			} else {
				out = append(out, cond{col, "notnull", nil})
			}
			continue
		}
		out = append(out, cond{col, f[1], parseLit(f[2])})
	}
	return out
}

func parseLit(s string) interface{} {
	if strings.HasPrefix(s, "'") {
		return strings.Trim(s, "'")
	}
	var n int64
	fmt.Sscan(s, &n)
	return n
}

// ---------- generator ----------

var bVals = []string{"a", "ab", "abc", "abd", "b", "ba", "c", "ca"}

func genVal(r *lib.RNG, col int) interface{} {
	switch col {
	case 0:
		return int64(r.Intn(14))
	case 1:
		if r.Chance(1, 5) {
			return nil
		}
		return int64(r.Intn(5))
	case 2:
		if r.Chance(1, 5) {
			return nil
		}
		return lib.Pick(r, bVals)
	default:
		if r.Chance(1, 8) {
			return nil
		}
		return int64(r.Intn(24))
	}
}

func genCond(r *lib.RNG, col int) cond {
	switch r.Intn(8) {
	case 0:
		if col != 0 {
			return cond{col, "null", nil}
		}
	case 1:
		if col != 0 {
			return cond{col, "notnull", nil}
		}
	case 2, 3:
		v := genVal(r, col)
		if v != nil {
			return cond{col, "<", v}
		}
	case 4:
		v := genVal(r, col)
		if v != nil {
			return cond{col, ">=", v}
		}
	}
	v := genVal(r, col)
	for v == nil {
		v = genVal(r, col)
	}
	return cond{col, "=", v}
}

func genRowSQL(r *lib.RNG) string {
	vs := make([]string, 4)
	for i := range vs {
		vs[i] = lit(genVal(r, i))
	}
	return "(" + strings.Join(vs, ", ") + ")"
}

func gen(r *lib.RNG) caseT {
	c := caseT{NParts: lib.Pick(r, []int{1, 1, 2, 3}), Keyless: r.Chance(1, 4)}
	live := map[string]idxSpec{}
	allowUnique := r.Chance(2, 5)
	allowMixed := r.Chance(1, 3)
	allowRename := r.Chance(1, 10)
	pickNew := func() (idxSpec, bool) {
		for try := 0; try < 10; try++ {
			s := lib.Pick(r, idxPool)
			if _, ok := live[strings.ToLower(s.Name)]; ok || s.Name == "C" {
				continue
			}
			if s.Unique && !allowUnique {
				continue
			}
			if s.Name != strings.ToLower(s.Name) && !allowMixed {
				continue
			}
			return s, true
		}
		return idxSpec{}, false
	}
	c.MixedCol = r.Chance(1, 4)
	create := func() {
		if _, has := live["c"]; c.MixedCol && !has && r.Chance(1, 3) {
			c.Steps = append(c.Steps, stepT{SQL: "ALTER TABLE %T ADD INDEX (C)", Kind: "create"})
			live["c"] = idxSpec{"C", "C", false, 3}
			return
		}
		if s, ok := pickNew(); ok {
			u := ""
			if s.Unique {
				u = "UNIQUE "
			}
			c.Steps = append(c.Steps, stepT{SQL: fmt.Sprintf("CREATE %sINDEX %s ON %%T (%s)", u, s.Name, s.Cols), Kind: "create"})
			live[strings.ToLower(s.Name)] = s
		}
	}
	if c.NParts == 1 && r.Chance(1, 3) {
		for try := 0; try < 10 && c.Inline == ""; try++ {
			s := lib.Pick(r, idxPool)
			if !s.Unique && s.Name != "C" && !strings.Contains(s.Cols, "(") && (allowMixed || r.Bool()) {
				c.Inline = s.Name
				live[strings.ToLower(s.Name)] = s
			}
		}
	}
	for i, n := 0, r.Range(1, 3); i < n; i++ {
		create()
	}
	nsteps := r.Range(8, 22)
	for len(c.Steps) < nsteps {
		var st stepT
		st.Kind = "dml"
		k := r.Intn(100)
		switch {
		case k < 34:
			rows := []string{}
			for i, n := 0, r.Range(1, 3); i < n; i++ {
				rows = append(rows, genRowSQL(r))
			}
			st.SQL = "INSERT INTO %T VALUES " + strings.Join(rows, ", ")
		case k < 56:
			col := r.Range(0, 3)
			if c.Keyless && col == 0 && r.Bool() {
				col = 1
			}
			var set string
			switch r.Intn(6) {
			case 0:
				set = fmt.Sprintf("pk = %d", r.Intn(14))
			case 1:
				set = "pk = pk + 14"
			case 2:
				set = "a = " + lit(genVal(r, 1))
			case 3:
				set = "b = " + lit(genVal(r, 2))
			case 4:
				set = "c = " + lit(genVal(r, 3))
			default:
				set = "a = a + 1, c = c + 1"
			}
			st.SQL = fmt.Sprintf("UPDATE %%T SET %s WHERE %s", set, genCond(r, col).sql())
		case k < 72:
			st.SQL = "DELETE FROM %T WHERE " + genCond(r, r.Range(0, 3)).sql()
		case k < 80:
			// 1-3 rows; a primary key may be written twice in the statement (present or absent before)
			rows := []string{}
			firstPK := int64(r.Intn(14))
			for i, n := 0, r.Range(1, 3); i < n; i++ {
				row := genRowSQL(r)
				if i == 0 || r.Bool() {
					row = fmt.Sprintf("(%d%s", firstPK, row[strings.Index(row, ","):])
				}
				rows = append(rows, row)
			}
			if r.Chance(2, 3) {
				st.SQL = "REPLACE INTO %T VALUES " + strings.Join(rows, ", ")
			} else {
				st.SQL = "INSERT INTO %T VALUES " + strings.Join(rows, ", ") + " ON DUPLICATE KEY UPDATE " +
					lib.Pick(r, []string{"a = a + 1", "c = 7", "b = 'ab'", "a = VALUES(a), c = VALUES(c)"})
			}
		case k < 83:
			st.SQL = "TRUNCATE TABLE %T"
			st.Kind = "truncate"
		case k < 90:
			if s, ok := pickNew(); ok {
				u := ""
				if s.Unique {
					u = "UNIQUE "
				}
				st = stepT{SQL: fmt.Sprintf("CREATE %sINDEX %s ON %%T (%s)", u, s.Name, s.Cols), Kind: "create"}
				live[strings.ToLower(s.Name)] = s
			} else {
				continue
			}
		case k < 96:
			if len(live) == 0 {
				continue
			}
			ks := lib.SortedKeys(live)
			key := lib.Pick(r, ks)
			st = stepT{SQL: fmt.Sprintf("DROP INDEX %s ON %%T", live[key].Name), Kind: "drop"}
			delete(live, key)
		default:
			if !allowRename || len(live) == 0 {
				continue
			}
			ks := lib.SortedKeys(live)
			key := lib.Pick(r, ks)
			nn := lib.Pick(r, []string{"ja", "jb", "jc"})
			if _, ok := live[nn]; ok {
				continue
			}
			s := live[key]
			st = stepT{SQL: fmt.Sprintf("ALTER TABLE %%T RENAME INDEX %s TO %s", s.Name, nn), Kind: "rename"}
			delete(live, key)
			s.Name = nn
			live[nn] = s
		}
		// lookups through every live index, and two planner-driven queries
		for _, key := range lib.SortedKeys(live) {
			s := live[key]
			cd := genCond(r, s.First)
			kind := map[string]string{"=": "eq", "<": "lt", ">=": "ge", "null": "null", "notnull": "notnull"}[cd.Op]
			if r.Chance(1, 10) {
				kind = "all"
			}
			st.Lookups = append(st.Lookups, lookupT{Index: s.Name, Kind: kind, Val: lit(cd.Val)})
		}
		for i := 0; i < 2; i++ {
			w := genCond(r, r.Range(0, 3)).sql()
			if r.Chance(1, 3) {
				w += " AND " + genCond(r, r.Range(1, 3)).sql()
			}
			st.Queries = append(st.Queries, w)
		}
		c.Steps = append(c.Steps, st)
	}
	return c
}

// ---------- running ----------

type world struct {
	e    *eng.E
	s    *eng.S
	twin bool
}

// tbl fetches the current table object (DDL replaces it; a transaction start drops the session's cached data).
func (w *world) tbl(ctx *sql.Context) *memory.Table {
	dbi, _ := w.e.Pro.Database(ctx, "db")
	t, ok, _ := dbi.GetTableInsensitive(ctx, "t")
	if !ok {
		panic("table t vanished")
	}
	return t.(*memory.Table)
}

func (w *world) dump() memory.VerifC16State {
	ctx := newCtx(w.s)
	return memory.VerifC16Dump(ctx, w.tbl(ctx))
}

func newCtx(s *eng.S) *sql.Context {
	ctx := sql.NewContext(s.Ctx.Context, sql.WithSession(s.Ctx.Session))
	ctx.SetCurrentDatabase("db")
	return ctx
}

func mkTable(w *world, name string, nparts int, keyless bool, cname string) *memory.Table {
	ctx := newCtx(w.s)
	dbi, _ := w.e.Pro.Database(ctx, "db")
	db := dbi.(*memory.Database)
	sch := sql.Schema{
		{Name: "pk", Type: types.Int64, Source: name, PrimaryKey: !keyless, Nullable: false},
		{Name: "a", Type: types.Int64, Source: name, Nullable: true},
		{Name: "b", Type: varchar8(), Source: name, Nullable: true},
		{Name: cname, Type: types.Int64, Source: name, Nullable: true},
	}
	var pks sql.PrimaryKeySchema
	if keyless {
		pks = sql.NewPrimaryKeySchema(sch)
	} else {
		pks = sql.NewPrimaryKeySchema(sch, 0)
	}
	t := memory.NewPartitionedTable(ctx, db.BaseDatabase, name, pks, db.GetForeignKeyCollection(), nparts)
	db.AddTable(name, t)
	return t
}

func rawRows(st memory.VerifC16State) []sql.Row {
	var out []sql.Row
	for _, k := range st.PartitionKeys {
		for _, r := range st.Partitions[k] {
			out = append(out, normRow(r))
		}
	}
	return out
}

func bagOf(rs []sql.Row) []string {
	out := make([]string, len(rs))
	for i, r := range rs {
		out[i] = eng.Row(normRow(r))
	}
	sort.Strings(out)
	return out
}

func eqBag(a, b []string) bool {
	if len(a) != len(b) {
		return false
	}
	for i := range a {
		if a[i] != b[i] {
			return false
		}
	}
	return true
}

// bagDiff returns the rows of a that are not matched in b (multiset difference), in a's order.
func bagDiff(a, b []sql.Row) []sql.Row {
	cnt := map[string]int{}
	for _, r := range b {
		cnt[eng.Row(r)]++
	}
	var out []sql.Row
	for _, r := range a {
		k := eng.Row(r)
		if cnt[k] > 0 {
			cnt[k]--
		} else {
			out = append(out, r)
		}
	}
	return out
}

// apiLookup reads through the index with the IndexedTable API (always index-driven).
func apiLookup(w *world, l lookupT) (rows []sql.Row, err error, panicked string) {
	defer func() {
		if r := recover(); r != nil {
			panicked = fmt.Sprint(r)
		}
	}()
	ctx := newCtx(w.s)
	t := w.tbl(ctx)
	idx := memory.VerifC16IndexByName(ctx, t, l.Index)
	if idx == nil {
		return nil, fmt.Errorf("index %s not found", l.Index), ""
	}
	b := sql.NewMySQLIndexBuilder(ctx, idx)
	ce := strings.ToLower(idx.Expressions()[0])
	v := parseLit(l.Val)
	var typ sql.Type = types.Int64
	if _, ok := v.(string); ok {
		typ = types.LongText
	}
	switch l.Kind {
	case "eq":
		b = b.Equals(ctx, ce, typ, v)
	case "lt":
		b = b.LessThan(ctx, ce, typ, v)
	case "ge":
		b = b.GreaterOrEqual(ctx, ce, typ, v)
	case "null":
		b = b.IsNull(ctx, ce)
	case "notnull":
		b = b.IsNotNull(ctx, ce)
	}
	lk, err := b.Build(ctx)
	if err != nil {
		return nil, err, ""
	}
	it := t.IndexedAccess(ctx, lk)
	pi, err := it.LookupPartitions(ctx, lk)
	if err != nil {
		return nil, err, ""
	}
	for {
		p, err := pi.Next(ctx)
		if err == io.EOF {
			break
		}
		if err != nil {
			return nil, err, ""
		}
		ri, err := it.PartitionRows(ctx, p)
		if err != nil {
			return nil, err, ""
		}
		for {
			r, err := ri.Next(ctx)
			if err == io.EOF {
				break
			}
			if err != nil {
				return nil, err, ""
			}
			rows = append(rows, normRow(r))
		}
		ri.Close(ctx)
	}
	pi.Close(ctx)
	return rows, nil, ""
}

func lookupCond(l lookupT, first int) (cond, bool) {
	switch l.Kind {
	case "eq":
		return cond{first, "=", parseLit(l.Val)}, true
	case "lt":
		return cond{first, "<", parseLit(l.Val)}, true
	case "ge":
		return cond{first, ">=", parseLit(l.Val)}, true
	case "null":
		return cond{first, "null", nil}, true
	case "notnull":
		return cond{first, "notnull", nil}, true
	}
	return cond{}, false
}

func coqRange(l lookupT) string {
	v := coqVal(parseLit(l.Val))
	switch l.Kind {
	case "eq":
		return "(REq " + v + ")"
	case "lt":
		return "(RLt " + v + ")"
	case "ge":
		return "(RGe " + v + ")"
	case "null":
		return "RNull"
	case "notnull":
		return "RNotNull"
	}
	return "RAll"
}

// checkStorage evaluates the index invariant on a dump. It returns "" or (signature, message).
func checkStorage(st memory.VerifC16State) (string, string, string) {
	for _, ix := range st.Indexes {
		seen := map[string]bool{}
		for i, e := range ix.Entries {
			lk := fmt.Sprintf("%s/%d", e.Partition, e.Idx)
			rows, ok := st.Partitions[e.Partition]
			if !ok || e.Idx < 0 || e.Idx >= len(rows) {
				return "index-entry-dangling-location", fmt.Sprintf("index %s entry %v points at %s which does not exist", ix.Name, e.Key, lk), ix.Name
			}
			if seen[lk] {
				return "index-duplicate-location", fmt.Sprintf("index %s has two entries for row %s", ix.Name, lk), ix.Name
			}
			seen[lk] = true
			row := normRow(rows[e.Idx])
			for j, c := range ix.Cols {
				if c < 0 || j >= len(e.Key) || cmpVal(norm(e.Key[j]), row[c]) != 0 {
					return "index-entry-stale-key", fmt.Sprintf("index %s entry %v at %s does not match row %s", ix.Name, e.Key, lk, eng.Row(row)), ix.Name
				}
			}
			if i > 0 {
				p := ix.Entries[i-1]
				for j := 0; j < ix.NumExprs; j++ {
					k := cmpVal(norm(p.Key[j]), norm(e.Key[j]))
					if k < 0 {
						break
					}
					if k > 0 {
						return "index-storage-unsorted", fmt.Sprintf("index %s storage is not sorted at %d: %v after %v", ix.Name, i, e.Key, p.Key), ix.Name
					}
				}
			}
		}
		for pk, rows := range st.Partitions {
			for i := range rows {
				if !seen[fmt.Sprintf("%s/%d", pk, i)] {
					return "index-missing-row", fmt.Sprintf("index %s has no entry for row %s/%d %s", ix.Name, pk, i, eng.Row(normRow(rows[i]))), ix.Name
				}
			}
		}
	}
	return "", "", ""
}

// staleRenamedKey: storage survives under a name an index was renamed away from.
func staleRenamedKey(st memory.VerifC16State, from map[string]bool) bool {
	names := map[string]bool{}
	for _, ix := range st.Indexes {
		names[ix.Name] = true
	}
	for _, k := range st.StorageKeys {
		if !names[k] && from[k] {
			return true
		}
	}
	return false
}

func staleUpperKey(st memory.VerifC16State) bool {
	names := map[string]bool{}
	for _, ix := range st.Indexes {
		names[ix.Name] = true
	}
	for _, k := range st.StorageKeys {
		if !names[k] && k != strings.ToLower(k) {
			return true
		}
	}
	return false
}

func partIndex(st memory.VerifC16State, key string) int {
	for i, k := range st.PartitionKeys {
		if k == key {
			return i
		}
	}
	return 0
}

func coqState(st memory.VerifC16State) string {
	parts := make([]string, len(st.PartitionKeys))
	for i, k := range st.PartitionKeys {
		rs := make([]sql.Row, len(st.Partitions[k]))
		for j, r := range st.Partitions[k] {
			rs[j] = normRow(r)
		}
		parts[i] = coqRows(rs)
	}
	idx := make([]string, len(st.Indexes))
	for i, ix := range st.Indexes {
		es := make([]string, len(ix.Entries))
		for j, e := range ix.Entries {
			key := make([]interface{}, len(e.Key))
			for q, v := range e.Key {
				key[q] = norm(v)
			}
			es[j] = fmt.Sprintf("(%s, (%d%%nat, %d%%nat))", coqRow(key), partIndex(st, e.Partition), e.Idx)
		}
		idx[i] = fmt.Sprintf("(%s, %s)", coqName(ix.Name), lib.CoqList(es))
	}
	return fmt.Sprintf("(%s, %s)", lib.CoqList(parts), lib.CoqList(idx))
}

func run(c *lib.Ctx, cs caseT) {
	w := &world{e: eng.New("db")}
	w.s = w.e.Session()
	cname := "c"
	if cs.MixedCol {
		cname = "C"
		c.Count("table_with_mixed_case_column")
	}
	var inline idxSpec
	for _, sp := range idxPool {
		if cs.Inline != "" && sp.Name == cs.Inline {
			inline = sp
		}
	}
	if inline.Name != "" && cs.NParts == 1 {
		pkdef := "pk BIGINT PRIMARY KEY"
		if cs.Keyless {
			pkdef = "pk BIGINT NOT NULL"
		}
		// CREATE TABLE resolves inline key columns case-sensitively: spell the column as declared
		toks := strings.Split(inline.Cols, ", ")
		for i, tk := range toks {
			if tk == "c" {
				toks[i] = cname
			}
		}
		w.s.MustExec(fmt.Sprintf("CREATE TABLE t (%s, a BIGINT, b VARCHAR(8), %s BIGINT, KEY %s (%s))", pkdef, cname, inline.Name, strings.Join(toks, ", ")))
		c.Count("table_with_inline_key")
	} else {
		inline = idxSpec{}
		mkTable(w, "t", cs.NParts, cs.Keyless, cname)
	}
	w.twin = true
	hasUnique := false
	for _, st := range cs.Steps {
		if st.Kind == "create" && strings.Contains(st.SQL, "UNIQUE") {
			hasUnique = true
		}
	}
	if w.twin {
		if inline.Name != "" {
			pkdef := "pk BIGINT PRIMARY KEY"
			if cs.Keyless {
				pkdef = "pk BIGINT NOT NULL"
			}
			w.s.MustExec(fmt.Sprintf("CREATE TABLE u (%s, a BIGINT, b VARCHAR(8), %s BIGINT)", pkdef, cname))
		} else {
			mkTable(w, "u", cs.NParts, cs.Keyless, cname)
		}
		c.Count("history_with_twin")
	}
	if hasUnique {
		// the index-free twin cannot reject or replace on a unique key: statements t rejects are not sent to it, and the
		// row changes of REPLACE / ON DUPLICATE KEY UPDATE (which may delete rows through a unique key) are mirrored
		c.Count("history_with_unique_index")
	}
	c.Count(fmt.Sprintf("partitions_%d", cs.NParts))
	if cs.Keyless {
		c.Count("keyless_table")
	} else {
		c.Count("keyed_table")
	}

	type fail struct{ sig, what string }
	var fails []fail
	addFail := func(sig, what string) {
		for _, f := range fails {
			if f.sig == sig {
				return
			}
		}
		fails = append(fails, fail{sig, what})
	}
	hp := map[string]string{} // coq row -> partition
	var hpOrder []string
	noteHP := func(r sql.Row) {
		k := coqRow(r)
		if _, ok := hp[k]; ok {
			return
		}
		ctx := newCtx(w.s)
		p, err := memory.VerifC16PartitionOf(ctx, w.tbl(ctx), r)
		if err != nil {
			p = 0
		}
		hp[k] = fmt.Sprint(p)
		hpOrder = append(hpOrder, k)
	}
	renamed := map[string]bool{}
	renamedFrom := map[string]bool{}
	failedCreate := map[string]bool{}
	// classify narrows a generic signature to a known root cause when the failing index is affected by it
	classify := func(sig, what, index string) string {
		li := strings.ToLower(index)
		for n := range failedCreate {
			if li == n || index == "" {
				return "failed-create-index-stays-registered"
			}
		}
		for n := range renamed {
			if li == n || index == "" {
				_ = n
				return "rename-index-leaves-storage-behind"
			}
		}
		return sig
	}
	first := map[string]int{}
	for _, s := range idxPool {
		first[strings.ToLower(s.Name)] = s.First
	}
	var steps []string
	nontrivial := 0
	indexDriven := 0
	before := w.dump()
	expLive := map[string]bool{} // indexes that exist according to the outcomes the implementation reported
	if inline.Name != "" {
		for _, ix := range before.Indexes {
			if ix.Name == inline.Name {
				steps = append(steps, fmt.Sprintf("((OCreate {| iname := %s; icols := %s; nsort := %d%%nat |}), false, %s, [])",
					coqName(ix.Name), lib.CoqListOf(ix.Cols, coqNat), ix.NumExprs, coqState(before)))
				expLive[strings.ToLower(ix.Name)] = true
			}
		}
	}
	for si, st := range cs.Steps {
		q := strings.ReplaceAll(st.SQL, "%T", "t")
		res := w.s.Query(q)
		after := w.dump()
		var op string
		var stepDels, stepAdds []sql.Row
		panicked := res.Panic != ""
		switch {
		case panicked:
			sig := "statement-panics"
			if strings.Contains(res.Panic, "sql.Index is nil") {
				if staleUpperKey(before) {
					sig = "dml-panics-after-drop-of-mixed-case-index"
				} else if staleRenamedKey(before, renamedFrom) {
					sig = "rename-index-leaves-storage-behind"
				}
			}
			addFail(sig, fmt.Sprintf("step %d %q panicked: %s", si, q, res.Panic))
			c.Count("step_panicked")
		case res.Err != nil:
			c.Count("step_failed:" + eng.ErrKind(res.Err))
		default:
			c.Count("step_ok:" + st.Kind)
		}
		// the operation handed to the model
		createFailed := false
		if st.Kind == "create" && res.Err != nil && !panicked {
			nm := createdName(st.SQL)
			for _, ix := range after.Indexes {
				if ix.Name == nm {
					createFailed = true
					failedCreate[strings.ToLower(nm)] = true
					c.Count("create_index_failed_but_registered")
				}
			}
		}
		switch {
		case res.Err != nil && !panicked && !createFailed:
			op = "ONop"
		case st.Kind == "truncate":
			op = "OTruncate"
		case st.Kind == "create":
			var spec idxSpec
			nm := createdName(st.SQL)
			for _, s := range idxPool {
				if s.Name == nm {
					spec = s
				}
			}
			// the definition is read back from the implementation (columns incl. appended primary key columns)
			var cols []int
			nsort := 0
			for _, ix := range after.Indexes {
				if ix.Name == spec.Name {
					cols, nsort = ix.Cols, ix.NumExprs
				}
			}
			if cols == nil { // panicked before registering: derive from the spec
				for _, cn := range strings.Split(spec.Cols, ",") {
					cn = strings.TrimSpace(strings.Split(cn, "(")[0])
					for i, n := range colNames {
						if n == cn {
							cols = append(cols, i)
						}
					}
				}
				nsort = len(cols)
				if !cs.Keyless && !strings.Contains(spec.Cols, "pk") {
					cols = append(cols, 0)
				}
			}
			for _, r := range rawRows(before) {
				noteHP(r)
			}
			ctor := "OCreate"
			if createFailed {
				ctor = "OCreateFailed"
			}
			op = fmt.Sprintf("(%s {| iname := %s; icols := %s; nsort := %d%%nat |})", ctor, coqName(spec.Name), lib.CoqListOf(cols, coqNat), nsort)
		case st.Kind == "drop":
			op = fmt.Sprintf("(ODrop %s)", coqName(strings.Fields(st.SQL)[2]))
		case st.Kind == "rename":
			f := strings.Fields(st.SQL)
			op = fmt.Sprintf("(ORename %s %s)", coqName(f[5]), coqName(f[7]))
			renamed[strings.ToLower(f[7])] = true
			renamedFrom[f[5]] = true
			first[strings.ToLower(f[7])] = first[strings.ToLower(f[5])]
		default:
			b, a := rawRows(before), rawRows(after)
			dels, adds := bagDiff(b, a), bagDiff(a, b)
			stepDels, stepAdds = dels, adds
			for _, r := range adds {
				noteHP(r)
			}
			if len(dels)+len(adds) > 0 {
				nontrivial++
			}
			op = fmt.Sprintf("(OApply %s %s)", coqRows(dels), coqRows(adds))
		}
		if !panicked {
			f := strings.Fields(st.SQL)
			switch {
			case st.Kind == "create" && (res.Err == nil || createFailed):
				expLive[strings.ToLower(createdName(st.SQL))] = true
			case st.Kind == "drop" && res.Err == nil:
				delete(expLive, strings.ToLower(f[2]))
			case st.Kind == "rename" && res.Err == nil:
				delete(expLive, strings.ToLower(f[5]))
				expLive[strings.ToLower(f[7])] = true
			}
		}
		// twin
		if w.twin && res.Err == nil && (st.Kind == "dml" || st.Kind == "truncate") {
			if hasUnique && (strings.HasPrefix(st.SQL, "REPLACE") || strings.Contains(st.SQL, "ON DUPLICATE KEY")) {
				for _, r := range stepDels {
					var q2 string
					if cs.Keyless {
						q2 = fmt.Sprintf("DELETE FROM u WHERE pk <=> %s AND a <=> %s AND b <=> %s AND c <=> %s LIMIT 1", lit(r[0]), lit(r[1]), lit(r[2]), lit(r[3]))
					} else {
						q2 = fmt.Sprintf("DELETE FROM u WHERE pk = %s", lit(r[0]))
					}
					if r2 := w.s.Query(q2); r2.Err != nil {
						addFail("twin-statement-outcome-differs", fmt.Sprintf("step %d mirroring %q on the twin: %v", si, q2, r2.Err))
					}
				}
				for _, r := range stepAdds {
					q2 := fmt.Sprintf("INSERT INTO u VALUES (%s, %s, %s, %s)", lit(r[0]), lit(r[1]), lit(r[2]), lit(r[3]))
					if r2 := w.s.Query(q2); r2.Err != nil {
						addFail("twin-statement-outcome-differs", fmt.Sprintf("step %d mirroring %q on the twin: %v", si, q2, r2.Err))
					}
				}
				c.Count("twin_step_mirrored_by_row_changes")
			} else {
				r2 := w.s.Query(strings.ReplaceAll(st.SQL, "%T", "u"))
				if r2.Err != nil {
					addFail("twin-statement-outcome-differs", fmt.Sprintf("step %d %q succeeded on t but on the index-free twin: %v", si, q, r2.Err))
				}
			}
		}
		var lks []string
		if !panicked {
			// (1) storage invariant on the dump
			c.PredChecked()
			if sig, what, ixn := checkStorage(after); sig != "" {
				addFail(classify(sig, what, ixn), fmt.Sprintf("after step %d %q: %s", si, q, what))
			}
			scan := rawRows(after)
			// (2) a lookup through every index
			for _, l := range st.Lookups {
				if !expLive[strings.ToLower(l.Index)] {
					c.Count("lookup_skipped:index_was_not_created") // e.g. CREATE UNIQUE INDEX rejected on existing duplicates
					continue
				}
				rows, err, pn := apiLookup(w, l)
				if pn != "" || err != nil {
					addFail("index-lookup-errors", fmt.Sprintf("after step %d lookup %+v: %v %s", si, l, err, pn))
					continue
				}
				indexDriven++
				var want []sql.Row
				cd, has := lookupCond(l, first[strings.ToLower(l.Index)])
				for _, r := range scan {
					if !has || cd.holds(r) {
						want = append(want, r)
					}
				}
				c.PredChecked()
				if !eqBag(bagOf(rows), bagOf(want)) {
					sig := classify("index-lookup-differs-from-scan", "", l.Index)
					addFail(sig, fmt.Sprintf("after step %d %q: lookup %s %s %s through the index returns %v, the scan gives %v", si, q, l.Index, l.Kind, l.Val, bagOf(rows), bagOf(want)))
				}
				lks = append(lks, fmt.Sprintf("(%s, %s, %s)", coqName(l.Index), coqRange(l), coqRows(rows)))
			}
			// (3) planner-driven queries on t (and the twin) against the driver's own filter over the scan
			for _, wh := range st.Queries {
				rq := w.s.Query("SELECT * FROM t WHERE " + wh)
				conds := parseWhere(wh)
				var want []sql.Row
				for _, r := range scan {
					ok := true
					for _, cd := range conds {
						ok = ok && cd.holds(r)
					}
					if ok {
						want = append(want, r)
					}
				}
				c.PredChecked()
				if rq.Err != nil {
					addFail("query-errors", fmt.Sprintf("after step %d: SELECT * FROM t WHERE %s: %v", si, wh, rq.Err))
				} else if !eqBag(bagOf(rq.Rows), bagOf(want)) {
					sig := classify("query-differs-from-scan", "", "")
					addFail(sig, fmt.Sprintf("after step %d %q: SELECT * FROM t WHERE %s returns %v, filtering the scan gives %v", si, q, wh, bagOf(rq.Rows), bagOf(want)))
				}
				if w.twin {
					ru := w.s.Query("SELECT * FROM u WHERE " + wh)
					if ru.Err == nil && rq.Err == nil && !eqBag(bagOf(rq.Rows), bagOf(ru.Rows)) {
						sig := classify("indexed-table-differs-from-index-free-twin", "", "")
						addFail(sig, fmt.Sprintf("after step %d %q: WHERE %s gives %v on t and %v on the twin", si, q, wh, bagOf(rq.Rows), bagOf(ru.Rows)))
					}
				}
			}
			if w.twin {
				ru := w.s.Query("SELECT * FROM u")
				c.PredChecked()
				if !eqBag(bagOf(ru.Rows), bagOf(scan)) {
					// a DML statement that located its rows through a broken index (known root causes) changes other rows than on the twin
					addFail(classify("indexed-table-differs-from-index-free-twin", "", ""), fmt.Sprintf("after step %d %q: t holds %v, the twin %v", si, q, bagOf(scan), bagOf(ru.Rows)))
				}
			}
		}
		steps = append(steps, fmt.Sprintf("(%s, %s, %s, %s)", op, lib.CoqBool(panicked), coqState(after), lib.CoqList(lks)))
		before = after
		if panicked {
			break
		}
	}
	pks := "[0%nat]"
	if cs.Keyless {
		pks = "[]"
	}
	tbl := make([]string, len(hpOrder))
	for i, k := range hpOrder {
		tbl[i] = fmt.Sprintf("(%s, %s%%nat)", k, hp[k])
	}
	term := fmt.Sprintf("(%d%%nat, %s, %s, %s)", cs.NParts, pks, lib.CoqList(tbl), lib.CoqList(steps))
	key := ""
	if nontrivial >= 3 {
		key = fmt.Sprintf("%v", cs)
	}
	c.Count(fmt.Sprintf("effective_dml_steps_%02d", min(nontrivial, 12)))
	c.Count("index_driven_lookups_x" + fmt.Sprint(min(indexDriven/10, 9)*10))
	id := c.Case(term, cs, key)
	for _, f := range fails {
		c.PredFail(id, f.sig, f.what, cs)
	}
}

func varchar8() sql.Type {
	t, err := types.CreateStringWithDefaults(types.VarChar.Type(), 8)
	if err != nil {
		panic(err)
	}
	return t
}

func main() {
	lib.Main("C16", func(c *lib.Ctx) {
		c.Header = "From Coq Require Import List NArith ZArith.\nImport ListNotations.\nFrom GMS Require Import Store.C16Index Corr.C16.\nOpen Scope N_scope."
		c.CaseType = "C16.case"
		c.MismatchFn = "C16.mismatches"
		c.SetRule("histories of 8-22 SQL statements on a 4-column table (keyed 3/4, keyless 1/4; 1-3 partitions): multi-row INSERT, UPDATE " +
			"(incl. primary key changes), DELETE, REPLACE, TRUNCATE, CREATE/DROP INDEX (single, multi-column, prefix, unique, mixed-case names), " +
			"RENAME INDEX (1/10 of histories), small value domains so that duplicate keys and unique violations make statements fail half way; " +
			"after every step one lookup through every live index and two planner-driven queries. A history is non-trivial when at least " +
			"3 statements changed rows; distinct = distinct histories.")
		if c.ReplayFile != "" {
			var cs caseT
			lib.LoadReplay(c.ReplayFile, &cs)
			run(c, cs)
			return
		}
		corpus := []caseT{
			// known: storage of a mixed-case index survives DROP INDEX, the next DML panics in sortSecondaryIndexes
			{NParts: 1, Steps: []stepT{
				{SQL: "CREATE INDEX Iac ON %T (a, c)", Kind: "create"},
				{SQL: "INSERT INTO %T VALUES (1, 2, 'a', 3)", Kind: "dml"},
				{SQL: "DROP INDEX Iac ON %T", Kind: "drop"},
				{SQL: "INSERT INTO %T VALUES (2, 2, 'b', 4)", Kind: "dml"}}},
			// known: RENAME INDEX re-keys the definition but not the storage
			{NParts: 1, Steps: []stepT{
				{SQL: "CREATE INDEX ia ON %T (a)", Kind: "create"},
				{SQL: "INSERT INTO %T VALUES (1, 2, 'a', 3), (2, 2, 'b', 4)", Kind: "dml"},
				{SQL: "ALTER TABLE %T RENAME INDEX ia TO ja", Kind: "rename",
					Lookups: []lookupT{{Index: "ja", Kind: "eq", Val: "2"}}, Queries: []string{"a = 2"}}}},
			// known: CREATE UNIQUE INDEX on a prefix shared by existing rows fails in the rewrite but stays registered
			{NParts: 1, Steps: []stepT{
				{SQL: "INSERT INTO %T VALUES (1, 1, 'ab', 1), (2, 2, 'abc', 2), (3, 3, 'a', 3)", Kind: "dml"},
				{SQL: "CREATE UNIQUE INDEX ub2 ON %T (b(2))", Kind: "create",
					Lookups: []lookupT{{Index: "ub2", Kind: "eq", Val: "'a'"}}, Queries: []string{"b = 'a'"}}}},
			// primary key changes across three partitions, deletes in the middle
			{NParts: 3, Steps: []stepT{
				{SQL: "CREATE INDEX ia ON %T (a)", Kind: "create"},
				{SQL: "CREATE INDEX iab ON %T (a, b)", Kind: "create"},
				{SQL: "INSERT INTO %T VALUES (5, 1, 'a', 1), (3, 1, 'b', 2), (9, NULL, 'c', 3), (1, 2, NULL, 4)", Kind: "dml",
					Lookups: []lookupT{{Index: "ia", Kind: "eq", Val: "1"}, {Index: "iab", Kind: "null", Val: "NULL"}}, Queries: []string{"a = 1", "a IS NULL"}},
				{SQL: "UPDATE %T SET pk = pk + 14 WHERE a = 1", Kind: "dml",
					Lookups: []lookupT{{Index: "ia", Kind: "eq", Val: "1"}, {Index: "iab", Kind: "lt", Val: "2"}}, Queries: []string{"a = 1 AND b = 'a'"}},
				{SQL: "DELETE FROM %T WHERE pk = 9", Kind: "dml",
					Lookups: []lookupT{{Index: "ia", Kind: "all", Val: "NULL"}}, Queries: []string{"a >= 1"}},
				{SQL: "REPLACE INTO %T VALUES (1, 4, 'ab', 7)", Kind: "dml",
					Lookups: []lookupT{{Index: "ia", Kind: "ge", Val: "2"}}, Queries: []string{"a = 4"}}}},
			// keyless table with duplicate rows
			{NParts: 2, Keyless: true, Steps: []stepT{
				{SQL: "CREATE INDEX ib ON %T (b)", Kind: "create"},
				{SQL: "INSERT INTO %T VALUES (1, 1, 'a', 1), (1, 1, 'a', 1), (2, 1, 'b', 1)", Kind: "dml",
					Lookups: []lookupT{{Index: "ib", Kind: "eq", Val: "'a'"}}, Queries: []string{"b = 'a'"}},
				{SQL: "DELETE FROM %T WHERE b = 'a'", Kind: "dml",
					Lookups: []lookupT{{Index: "ib", Kind: "all", Val: "NULL"}}, Queries: []string{"b >= 'a'"}}}},
		}
		for _, cs := range corpus {
			run(c, cs)
		}
		for i := len(corpus); i < c.N; i++ {
			run(c, gen(c.R.Fork()))
		}
	})
}
