// scratch (C20): run statements from stdin "N: sql" on session N; print observations
package main

import (
	"bufio"
	"fmt"
	"os"
	"strings"

	"github.com/dolthub/go-mysql-server/sql"
	"github.com/dolthub/go-mysql-server/sql/types"

	"verifharness/lib/eng"
)

func peek(s *eng.S) (uint64, error) {
	db, err := s.E.Pro.Database(s.Ctx, "db")
	if err != nil {
		return 0, err
	}
	tbl, ok, err := db.GetTableInsensitive(s.Ctx, "t")
	if err != nil || !ok {
		return 0, fmt.Errorf("table t not found: %v", err)
	}
	return tbl.(sql.AutoIncrementTable).PeekNextAutoIncrementValue(s.Ctx)
}

func main() {
	e := eng.New("db")
	ss := map[string]*eng.S{}
	sc := bufio.NewScanner(os.Stdin)
	for sc.Scan() {
		line := strings.TrimSpace(sc.Text())
		if line == "" || strings.HasPrefix(line, "#") {
			fmt.Println(line)
			continue
		}
		if line == "RESET" {
			e = eng.New("db")
			ss = map[string]*eng.S{}
			fmt.Println("---- reset")
			continue
		}
		i := strings.Index(line, ":")
		n, q := line[:i], strings.TrimSpace(line[i+1:])
		s := ss[n]
		if s == nil {
			s = e.Session()
			ss[n] = s
		}
		r := s.Query(q)
		out := ""
		if r.Err != nil {
			out = "ERR " + r.Err.Error()
		} else if len(r.Rows) > 0 {
			if ok, is := r.Rows[0][0].(types.OkResult); is {
				out = fmt.Sprintf("OK aff=%d InsertID=%d", ok.RowsAffected, ok.InsertID)
			} else {
				out = strings.Join(eng.Rows(r.Rows), " | ")
			}
		}
		lr := s.Query("SELECT LAST_INSERT_ID()")
		c, _ := peek(s)
		sel := s.Query("SELECT id FROM t ORDER BY id")
		fmt.Printf("[%s] %-60s => %s ; LID=%v ctr=%d ids=%v\n", n, q, out, eng.Rows(lr.Rows), c, eng.Rows(sel.Rows))
	}
}
