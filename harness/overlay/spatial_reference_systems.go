// Reconstruction of the emptied file sql/types/spatial_reference_systems.go (see /root/.vp/EMPTIED_FILES.txt).
// Only the two symbols the rest of the engine references are provided. Used through `go build -overlay`;
// /repo itself is never edited for this. Part of the trusted base (DESIGN.md §0).
package types

// SpatialRef is a row of information_schema.ST_SPATIAL_REFERENCE_SYSTEMS.
type SpatialRef struct {
	Name          string
	ID            uint32
	Organization  interface{}
	OrgCoordsysId interface{}
	Definition    string
	Description   interface{}
}

// SupportedSRIDs maps SRID to its definition.
var SupportedSRIDs = map[uint32]SpatialRef{
	0:    {Name: "", ID: 0, Organization: nil, OrgCoordsysId: nil, Definition: "", Description: nil},
	3857: {Name: "WGS 84 / Pseudo-Mercator", ID: 3857, Organization: "EPSG", OrgCoordsysId: uint32(3857), Definition: "PROJCS[\"WGS 84 / Pseudo-Mercator\"]", Description: nil},
	4326: {Name: "WGS 84", ID: 4326, Organization: "EPSG", OrgCoordsysId: uint32(4326), Definition: "GEOGCS[\"WGS 84\"]", Description: nil},
}
