module verifharness

go 1.26.2

require github.com/dolthub/go-mysql-server v0.0.0

replace github.com/dolthub/go-mysql-server => /repo
